#!/venv/bin/python
"""Regenerates MANIFEST.json from the table below (keeps the manifest valid and in one place)."""
import json, os, subprocess

HERE = os.path.dirname(os.path.abspath(__file__))

TB = ('trusted base: harness/proj.py (AST -> hash-consed node tables), CPython ast/tokenize/symtable as oracles, TLC; '
      'bounds as stated in evidence.coverage.rule')

CHECKS = {
 'C01': ('model_checking', '4-C01',
         'Every step of generated edit histories on the real code is validated by TLC against PfstTrace/EditLaws: Sync '
         '(positions-and-structure id of the live tree = that of ast.parse(source)) and RootIdentity; the container '
         'operators used by the trace spec are model-checked in ContainersMC. Trace validation within stated bounds, not '
         'exhaustive over all programs. Drivers: random histories (incl. put_docstr / put_line_comment / par / unpar / '
         'f-string field edits as misc events), the TLC-generated request table (ContainersGen) replayed on 43 container '
         'templates and argument layouts, and a systematic deletion sweep over every node x field of the corpus.',
         'TLA+ trace validation of real edit histories (TLC) + model-checked container spec + TLC-generated request table '
         'replayed into pfst'),
 'C02': ('model_checking', '4-C02',
         'Edit histories are executed in lock-step on trees that differ only in the read-only queries made before each '
         'edit (plus systematic layout-only edit sweeps with every cache warm and f-string field edits); after every step '
         '~100 public queries on every node (f-string internals included) are answered by each edited tree and by a tree built '
         'from scratch from its source, and TLC validates ObsEq, Links, ViewsFollow, HistoryIndependent, RootIdentity '
         '(ObsLaws.tla). Trace validation within the stated bounds.',
         'TLA+ trace validation of lock-step observation histories (edited tree vs fresh tree)'),
 'C03': ('model_checking', '4-C03',
         'ContainersMC.tla is model-checked exhaustively within its constants (every entry point = Python list '
         'semantics); every recorded edit is validated by TLC: SliceLaw (field = old[:s]+new+old[t:] computed by the '
         'spec from raw bounds; virtual fields incl. arguments._all as <<arg, default, star kind>> triples), NothingElse '
         '(OnlyChangedAt), OracleAgree (pure-AST surgery), CarriedOutNotRefused; the TLC-generated request table is replayed '
         'on 43 container templates x layouts and every node x field of the corpus gets its deletions.',
         'TLC model checking of Containers spec + TLA+ trace validation of recorded edits'),
 'C05': ('model_checking', '4-C05',
         'Trace validation against an explicit TLA+ definition of every parse mode (ParseModes.tla: tight embeddings '
         'written from the grammar, sub-tree path, shift, wrapper-escape rule; table totality and shift/acceptance '
         'algebra model-checked exhaustively on a small grid) over ~14k (quick) / ~80k (thorough) real pfst parse calls: '
         'every corpus node text x 14 layouts x every admitting mode, cross-mode, guessing modes, delimiter-derived '
         'escapes, the repository invalid inputs and token mutants, plus spec-side case tables (ParseCases.tla: element '
         'shapes x multi-line layouts x multi-line strings, 352 closer-filler-opener wrapper-escape bridges x 146 modes). '
         'Within these generated inputs, not all texts.',
         'TLC emits the mode table (G); CPython parse + tokenize of the spec embeddings are logged as oracle facts and '
         'ParseTrace.tla judges TextKept, TreeIsSubtree.struct/pos, KindAdmitted, RejectedOnlyIfInvalid, '
         'AcceptedOnlyIfValid per call (V)'),
 'C12': ('model_checking', '4-C12',
         'Registry.tla (enter/success/fail brackets with a fault after every step) is model-checked for Quiescent/'
         'Balanced/NextEditEnabled; histories mixing failing and valid requests on the real code are validated by TLC: '
         'AtomicOnRaise (tree, text, source parse unchanged), RegistryQuiescent, NextEditAfterRaise (same result as on a '
         'freshly built tree); a systematic sweep makes every (mostly refused) deletion request on every node x field of the '
         'corpus.',
         'TLC model checking of Registry spec + TLA+ trace validation of failing/valid edit histories'),
 'C20': ('model_checking', '4-C20',
         'Option store and thread isolation are specified in TLA+ (Options.tla, Threads.tla with Registry.tla) and '
         'model-checked exhaustively for 1-3 threads and small constants including all interleavings of sub-call steps. '
         'The real FST.options/set_options/get_options/get_option, per-call options and concurrent edits are validated '
         'against that specification by TLC on TLC-generated behaviours replayed with real threads (store of every thread '
         'after every step; schedules at yield points inside pfst) and on free-running multi-thread stress compared with '
         'solo re-runs.',
         'TLC model checking + two-way conformance: -simulate behaviours replayed under a step controller, recorded '
         'executions validated by OptionsTrace.tla; auxiliary registry log via a PFST_VERIF-guarded run-time wrapper'),
 'C06': ('model_checking', '4-C06',
         'Trace validation against an explicit TLA+ location specification (LocLaws / LocFind / LocTrace): every node of '
         'every corpus and extra program x 11 layout and multi-byte variants, plus trees after random edit steps, is judged '
         'by TLC on the recorded loc/bloc/pars()/byte accessors against CPython ast positions and tokenize tokens; find_*loc '
         'answers for node spans, token gaps and random rectangles are judged against brute-force set definitions, which are '
         'model-checked well-defined and refined by the implementation loops on all span trees <= 4 (thorough 5) nodes.',
         'TLC model checking (LocFindMC) + TLC trace validation (LocTrace) of recorded observations with stdlib-only oracles'),
 'C09': ('model_checking', '4-C09',
         'Explicit TLA+ specification of Python grouping written from python.gram (Prec.tla: expressions, targets, patterns, '
         'f-string replacement fields, literal patterns, annotation targets). TLC proves its level arithmetic equal to a '
         'derivation over the grammar productions for all 166 slots x 79 kinds and emits the table; every row is bound to '
         'CPython by ast.parse/compile with 0 disagreements. The real pfst replace / put / assignment is executed for every '
         'valid row x target layouts x child layouts x code forms, plus every invalid kind on the strict slots, and TLC judges '
         'Carried / RefusedCleanly / Regroup / ParsWhenNeeded / NeededParsKept on the recorded facts.',
         'TLC model checking with spec-generated exhaustive case table, two-sided conformance (spec<->CPython, pfst<->spec) '
         'by TLC trace validation'),
 'C19': ('model_checking', '4-C19',
         'TLC model-checks the coercion life-cycle (identity / copy / consume / put) on a kind/mode subset, proves totality '
         'of the full 115x139 (kind x mode) matrix and emits it; every cell is executed on pfst with catalogue, layout, hosted, '
         'repository and random operands; every call is judged by TLC (CoerceTrace): kind in KindsOf(mode), live tree equals '
         'CPython parse of the result in the spec-defined embedding incl. positions, leaf sequence, identity, formatted vs '
         'pure AST, operand untouched, put equivalence, coerce=False refusal and atomicity.',
         'TLA+/TLC model checking of CoerceMC + exhaustive spec-generated matrix replay + batched TLC trace validation'),
 'C15': ('model_checking', '4-C15',
         'Explicit TLA+ model of the walk generator (WalkGen.tla) model-checked exhaustively for all ordered trees <= 3 '
         '(quick) / <= 4 (thorough) nodes x on x back x recurse x self_ x every interleaving with <= 2 replace(keep | new '
         'FST) / remove mutations and send(), against property-shaped laws (WalkLaws.tla); the same laws validate every '
         'recorded real execution (WalkAccept.tla): the replayed model behaviours and random walk/search/sub runs over the '
         'corpus including scope=True and filters.',
         'TLC model checking + bidirectional conformance: spec behaviours replayed into pfst with yield-sequence comparison, '
         'real executions trace-validated by TLC (WalkAccept) with clause-named verdicts'),
 'C07': ('model_checking', '4-C07',
         'TLC checks ExtractMC (conservation/window laws accept the reference extraction and reject defective ones for all '
         'containers <= 5 elements x 4 shapes x all slices) and validates against ExtractTrace/ExtractLaws every '
         'Copy/Get/GetSlice and Cut event (three clones each) of every node and slice of 46 programs x layouts x option sets: '
         'Undisturbed, SelfContained (parses in the spec-defined embedding, positions equal), Faithful.struct, Cut = copy + '
         'delete, Conserve.tokens/comment. Explicit embedding table and named domain predicates.',
         'TLA+ model + TLC trace validation of recorded executions; oracles ast / tokenize'),
 'C08': ('model_checking', '4-C08',
         'TLC validates CutPutBack, ReplaceBy (copy, copy_ast, re-parse, own source; repeated <= 3), OwnSrc, and put/get of '
         'docstrings and line comments over seeded adversarial texts (quick ~3.9k, thorough ~108k) against ExtractLaws: '
         'read-back, what the source denotes, Sync and only-that-changed are separate named clauses; ExtractMC model-checks '
         'PutBackRestores / CutThenPutBack on small containers.',
         'TLA+ model + TLC trace validation of recorded executions; oracles ast / tokenize'),
 'C10': ('model_checking', '4-C10',
         'Model checking of an explicit TLA+ specification of raw source edits (Raw/RawLaws with a flat-Python oracle defined '
         'in TLA+ and cross-checked against ast.parse, exhaustive within MaxFlat<=4/MaxRepl<=2) plus trace validation by TLC of '
         'every recorded put_src(reparse)/raw put/reparse() call against a whole-file ast.parse (text splice recomputed in '
         'TLA+, 7 named clauses, spec-computed edit classes; TLC also enumerates a block-header edit table RawHdrGen and an '
         'inline simple->compound table RawInlGen with programs built as code points); genuine defects are recorded by '
         '(clause, class) in known_findings.d/C10.json.',
         'TLC model checking (RawMC) + TLC-generated exhaustive case table replayed into pfst (RawGen) + TLC trace validation '
         'of corpus histories (RawTrace); oracle ast.parse/tokenize only'),
 'C11': ('model_checking', '4-C11',
         'Explicit TLA+ model of the offset core (span trees, trivia splices, _offset head/tail rule table and walk as '
         'composed by put_src(offset)) model-checked exhaustively for all trees <= 4 nodes (<= 5 restricted) on a 2x8 grid '
         'against OnText and the three-way shift law; every renderable model instance and every token gap of the corpus x '
         'trivia-preserving replacements is executed through the public API and judged by TLC against the same laws, with a '
         'from-scratch CPython parse as oracle.',
         'TLC model checking + two-way conformance: TLC-generated instances replayed into pfst, recorded executions '
         'trace-validated by TLC (OffsetTrace)'),
 'C13': ('model_checking', '4-C13',
         'Explicit TLA+ model of mark / pure-AST mutation / reconcile over aliased object heaps, model-checked exhaustively '
         '(<= 2 mutations, 2 rounds) for sufficiency and monotonicity of the touched-statement bookkeeping, mark invalidation '
         'and result = working tree; every real reconcile() of TLC-generated histories (<= 3 mutations, <= 2 rounds, trees '
         '<= 6 statements) and of random corpus mutations is judged by TLC for Sync, structural equality with the '
         'unparse-normalised user AST, no-change identity, byte-identity of untouched statements incl. comments, and mark '
         'invalidation.',
         'TLC model checking + spec-generated histories replayed into pfst + trace validation (ReconcileTrace.tla); oracles '
         'ast.parse / ast.unparse / plain line inspection'),
 'C16': ('model_checking', '4-C16',
         'TLC model-checks an explicit TLA+ specification of Python scoping rules and of the documented scope API on every '
         'abstract program within small bounds; CPython symtable and the real pfst are validated against that spec for every '
         'such program (spec <-> CPython <-> pfst), and on corpus programs through AST ownership rules and a symtable sandwich.',
         'TLA+/TLC exhaustive enumeration of abstract programs (state dump as case table) + batched TLC trace validation; '
         'oracle symtable/ast'),
 'C17': ('model_checking', '4-C17',
         'Model checking of an explicit TLA+ semantics of quantified list patterns (operational first match equals a '
         'declarative one; 63k / 667k instances); trace validation of the real pfst against it within bounds (list length '
         '<= 3, word length <= 4, 8411 decoded items; lists of <= 2 flat items x all words exhaustive in the thorough tier) '
         'with re.fullmatch on the spec-written regex as an independent cross-check; TLC-validated structure-only, '
         'history-free, own-AST, one-leaf-mutant and search = filter-of-walk clauses on the corpus x re-layouts x pure AST.',
         'TLC model checking (QuantMC) + TLC-generated JSON case tables replayed into pfst and re (QuantGen -> QuantTrace) + '
         'TLC trace validation of recorded match and search executions (MatchTrace) + a TLA+ pattern algebra (SearchAlg: '
         'denotational Match over type tests / field checks / MOR / MAND / MNOT, model-checked pre-filter model) whose '
         'TLC-generated terms are replayed into search()/match() and validated by SearchAlgTrace'),
 'C18': ('model_checking', '4-C18',
         'Explicit TLA+ reference transformer (Template.tla), model-checked against an implementation-shaped model of the '
         'subn() walk (TemplateMC.tla, all abstract trees <= 3 (quick) / <= 4 (thorough) nodes x label-set patterns x templates '
         '<= 2 nodes x nested/count/loop/on/back) and bound to pfst in both directions: terminal model states and a '
         'TLC-generated pattern x template x settings table are replayed on corpus programs x layouts, and every real subn() '
         'call is trace-validated by TLC, one event per substitution (TemplateRel, Sync, counts, token/line locality), within '
         'the stated slot-class domain.',
         'TLC model checking + TLC-generated cases + batched trace validation; stdlib-only projection and pure-AST reference '
         'used only for validity and cross-check'),
 'C14': ('model_checking', '4-C14',
         'Traversal laws model-checked exhaustively on all ordered trees <= 6 nodes x all filter sets (iteration idioms and the '
         'generator as actions, 14 theorems); every (tree <= 5, filter, on/back/recurse/self_) case generated by TLC replayed '
         'into pfst in three source shapes; every traversal API x parameter combination on a 72-program corpus x layout '
         'variants (+ repository sources in the thorough tier) validated by TLC against the same spec on CPython own parse, '
         'source order computed from ast/tokenize positions.',
         'explicit TLA+ spec (Walk.tla) + TLC model checking + spec->code table replay + code->spec trace validation'),
 'C04': ('model_checking', '4-C04',
         'An explicit TLA+ specification of edit locality is model-checked against a documentation-derived line-level reference '
         'editor plus nine damage families (up to 1.4M states); its case table is replayed into pfst in 17 syntactic contexts, '
         'and ~2000 random edits per quick run (~24000 thorough) on comment-heavy corpus layouts are validated by TLC per event: '
         'Out/In token regions, comment conservation, outside lines and blank lines.',
         'TLC model checking + TLC-generated cases replayed (spec->code) + trace validation (code->spec), tokenize/ast oracles'),
}

NOT_YET = {}


def main():
    props = [json.loads(l) for l in open(os.path.join(HERE, 'properties.jsonl'))]
    checks = []
    na = []
    for p in props:
        pid = p['id']
        if pid in CHECKS:
            cat, ref, text, tech = CHECKS[pid]
            checks.append({
                'property_id': pid,
                'quick_cmd': f'./check {pid} --tier quick',
                'thorough_cmd': f'./check {pid} --tier thorough',
                'evidence_file': f'/verif/evidence/{pid}.json',
                'replay_cmd_template': f'./check {pid} --replay {{path}}',
                'engine': 'tlc-trace',
                'level_claimed': {'category': cat, 'text': text, 'design_ref': 'DESIGN.md ' + ref},
                'level_note': TB,
                'technique': tech,
            })
        else:
            na.append({'property_id': pid, 'reason': NOT_YET.get(pid, 'check not built yet in this revision (planned: DESIGN.md section 4-' + pid + ')')})
    m = {
        'version': 1,
        'setup_cmd': './setup.sh',
        'hooks': {
            'guard': 'PFST_VERIF',
            'enable': 'no source hooks: checks import /repo/src directly (PYTHONPATH) and install run-time wrappers in their own process when PFST_VERIF=1',
            'baseline_off_cmd': 'cd /repo && /venv/bin/python -m pytest -ra -q -p no:cacheprovider --timeout=900 --continue-on-collection-errors',
            'source_commits': [],
            'add_only': True,
        },
        'engines': [
            {'name': 'tlc-trace', 'path': '/verif/spec/PfstTrace.tla',
             'serves_properties': sorted(CHECKS),
             'kind_free_text': 'TLA+ specification of pfst (spec/*.tla) checked with TLC; harness/*.py records real executions and replays TLC-generated cases'},
        ],
        'checks': checks,
        'not_applicable': na,
        'notes': 'See DESIGN.md. exit 2 from a check means machinery failure, never a verdict.',
    }
    with open(os.path.join(HERE, 'MANIFEST.json'), 'w') as f:
        json.dump(m, f, indent=1)
    print('MANIFEST.json:', len(checks), 'checks,', len(na), 'not_applicable')


if __name__ == '__main__':
    main()
