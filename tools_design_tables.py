#!/venv/bin/python
"""Regenerates the generated tables of DESIGN.md section 9 (fix commits, open findings, seeded defects) between marker lines."""
import glob, json, os, re, subprocess

HERE = os.path.dirname(os.path.abspath(__file__))
PROP_OF = {}  # commit -> property, from the 'fixed:' records
for path in [os.path.join(HERE, 'known_findings.json')] + sorted(glob.glob(os.path.join(HERE, 'known_findings.d', '*.json'))):
    d = json.load(open(path))
    for s in d.get('fixed', []):
        m = re.match(r'fixed: property=(C\d+) ([0-9a-f+]+)', s)
        if m:
            for c in m.group(2).split('+'):
                PROP_OF.setdefault(c[:7], m.group(1))

def fixes():
    out = ['| commit | exposed by | defect (commit subject) |', '|--------|------------|-------------------------|']
    log = subprocess.check_output(['git', '-C', '/repo', 'log', '--reverse', '--format=%h|%s', '8616333..HEAD']).decode().splitlines()
    for line in log:
        h, s = line.split('|', 1)
        s = s[5:] if s.startswith('fix: ') else s
        s = s.replace('|', '\\|')
        if len(s) > 230:
            s = s[:227] + '...'
        out.append(f'| {h} | {PROP_OF.get(h[:7], "(triage)")} | {s} |')
    return '\n'.join(out), len(log)

def findings():
    out = ['| property | id | clause | what | status |', '|----------|----|--------|------|--------|']
    n = 0
    for path in [os.path.join(HERE, 'known_findings.json')] + sorted(glob.glob(os.path.join(HERE, 'known_findings.d', '*.json'))):
        d = json.load(open(path))
        seen = set()
        for f in d.get('findings', []):
            if f.get('status', 'open') != 'open' or f['id'] in seen:
                continue
            seen.add(f['id'])
            n += 1
            what = f['what'].replace('|', '\\|').replace('\n', ' ')
            out.append(f"| {f['property']} | {f['id']} | {f['clause']} | {what[:300]} | open |")
    return '\n'.join(out), n

def seeds():
    out = ['| seed | needs (from SEED_REPORT / meta) | outcome |', '|------|----------------------------------|---------|']
    for d in sorted(glob.glob(os.path.join(HERE, 'seeded', '*'))):
        name = os.path.basename(d)
        try:
            m = json.load(open(os.path.join(d, 'meta.json')))
        except Exception:
            m = {}
        needs = str(m.get('needs', m.get('see', ''))).replace('|', '\\|')[:260]
        det = m.get('detected_by', '')
        if isinstance(det, dict):
            det = '; '.join(f'{k}: {v}' for k, v in det.items())
        out.append(f'| {name} | {needs} | {str(det).replace("|", chr(92) + "|")[:300]} |')
    return '\n'.join(out)

def main():
    p = os.path.join(HERE, 'DESIGN.md')
    s = open(p).read()
    ft, nf = fixes()
    gt, ng = findings()
    st = seeds()
    for tag, body in (('FIXES', f'{nf} repairs so far.\n\n' + ft), ('FINDINGS', f'{ng} open findings.\n\n' + gt), ('SEEDS', st)):
        a, b = f'<!-- BEGIN GENERATED {tag} -->', f'<!-- END GENERATED {tag} -->'
        if a in s:
            i, j = s.index(a), s.index(b)
            s = s[:i + len(a)] + '\n' + body + '\n' + s[j:]
    open(p, 'w').write(s)
    print('DESIGN.md tables regenerated:', nf, 'fixes,', ng, 'open findings')

if __name__ == '__main__':
    main()
