"""Extra inputs for C05 (parse modes): shapes whose fragment parsers depend on the text - multi-line strings inside
indented blocks, non-ASCII text in front of / inside undelimited sequences, with-items, type parameters, patterns."""

PROGRAMS = [
'''\
match cmd:
    case "é", b:
        s = """multi
  line é
string"""; t = 1
    case [x, "日本", *rest] | (x, rest):
        u = ("a"
             "b"), """x
y""", 3
    case {"k": v, **kw}:
        w = f(
            1,
            2)
    case Cls(a, b=2):
        pass
''',
'''\
a = "é", b
c = ("ü", d), "中", e
x["日":1, "é"::2, ...] = "é", *y
"ä", z
for qé, q in "é", r: pass
return_ = lambda é, ü=1, *ä, ö, **ß: (é, ü)
''',
'''\
with open("é") as fé, ctx("日本", k="ü") as (p, q), lock:
    pass
with (yield_ := f("é")) as g: pass
type Aé[Té: int, *Ts, **Pß] = dict[Té, "é"]
def fé[Té, *Ué](aé: "é", /, bü: int = 1, *cö: *Ué, dä, **kw) -> "日本": pass
class Cé[T](Bé, metaclass="é", **kw): pass
''',
'''\
try:
    pass
except ("é", E) as eé:
    x = """a
b"""
except G: pass
try: pass
except* Gé: pass
import aé.bü as cö, d
from . import (xé as y, z)
from ..m import *
@deco("é", k=1)
@other.é
def g(): pass
r = [xé for xé, y in "é" if xé if y for z in xé]
k = f(é, *aé, kü="é", **kw)
v = yield
del aé, b
aé = bü = cö = 1
''',
'''\
x = a if "é" else b, c
y = not "é", -z
z = aé < "é" <= b is not c not in d
w = aé and "é" or b
t = *a, "é", *b
s = xs["é", 1:2, ::3]
u = {**d, "é": 1}, {*s, "é"}
f(a for a in "é")
lam = lambda: (yield)
''',
]
