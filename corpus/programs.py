"""Corpus of small programs covering every `ast` node class and field of CPython 3.12 (f-strings only as leaves).

Each entry is plain source text. Entries are inputs only; no expected outputs are stored anywhere.
"""

PROGRAMS = [
# 0 ----------------------------------------------------------------------------------------------------------------
'''\
import os, sys as system
from a.b import c as d, e
from . import rel
from ..pkg import (one, two as deux,
                   three)

x = 1
y: int = 2
z: list
x += 3
a = b = c = x, y
del a, b[0], c.attr
''',
# 1 ----------------------------------------------------------------------------------------------------------------
'''\
def func(a, b=1, /, c=2, *args, d, e=3, **kwargs) -> int:
    """Docstring of func.

    second line
    """
    global g1, g2
    x = a + b * c - d / e // 2 % 3 ** 2
    y = a << 1 | b >> 2 & c ^ d @ e
    return x if y else -x


async def coro(x, *, key=None):
    nonlocal_like = await x
    async for i in aiter(x):
        pass
    async with ctx() as c, other(): pass
    return [i async for i in x]
''',
# 2 ----------------------------------------------------------------------------------------------------------------
'''\
class Base: pass

@decorator
@other.deco(arg, kw=1)
class Klass(Base, Mixin, metaclass=Meta, **kwds):
    """Class docstring."""

    attr = 1
    other: str = 'x'

    def method(self):
        return self.attr

    @property
    def prop(self): return self._p  # trailing comment
''',
# 3 ----------------------------------------------------------------------------------------------------------------
'''\
if a:
    x = 1
elif b:
    x = 2  # two
elif c: x = 3
else:
    x = 4

while x > 0:
    x -= 1
    if x == 5: break
    if x == 6: continue
else:
    y = 0

for i, j in pairs:
    total += i * j
else: done = True
''',
# 4 ----------------------------------------------------------------------------------------------------------------
'''\
try:
    risky()
except ValueError:
    pass
except (KeyError, IndexError) as exc:
    handle(exc)
except:
    raise
else:
    ok()
finally:
    cleanup()

try:
    g()
except* OSError as eg:
    pass
except* (A, B):
    raise RuntimeError('x') from eg

raise
raise E
assert cond, 'message'
assert other
''',
# 5 ----------------------------------------------------------------------------------------------------------------
'''\
with open(f) as fh, lock:
    data = fh.read()

with (a as b, c as d):
    pass

def gen_with():
    with (yield):
        pass

lst = [1, 2.5, 3j, 'str', b'bytes', None, True, False, ...]
tup = (1, 2, 3)
st = {1, 2, 3}
dct = {'a': 1, **other, 'b': 2}
empty = ()
single = (1,)
''',
# 6 ----------------------------------------------------------------------------------------------------------------
'''\
r = [x for x in xs if x if not x]
s = {x for x in xs for y in ys}
d = {k: v for k, v in items}
g = (i for i in range(10))
n = (y := 5)
lam = lambda a, b=1, *c, d, **e: a + b
lam0 = lambda: 0
call(a, *b, c=1, **d)
obj.method(x)[1:2, ::3, 4]
v = a[1]
w = a[1:2]
u = a[:, None]
''',
# 7 ----------------------------------------------------------------------------------------------------------------
'''\
b = a and b or c and not d
c = a < b <= c == d != e > f >= g
i = a is b is not c in d not in e
t = +a - -b + ~c
async def agen2():
    await_ = (await x) if y else (yield z)
def gen():
    yield
    yield 1
    x = yield from other()
    return (yield)
star = [*a, *b]
first, *rest = seq
''',
# 8 ----------------------------------------------------------------------------------------------------------------
'''\
match command:
    case 1:
        pass
    case 'go' | 'move':
        go()
    case [x, y, *rest]:
        pass
    case (a, b):
        pass
    case {'key': value, **others}:
        pass
    case Point(x=0, y=0):
        pass
    case Point(x, y=yy) if x > yy:
        pass
    case [Point(x=0), *_] as pts:
        pass
    case None | True | False:
        pass
    case str() as s:
        pass
    case mod.CONST:
        pass
    case -1 | 1+2j:
        pass
    case _:
        default()
''',
# 9 ----------------------------------------------------------------------------------------------------------------
'''\
type Alias = int
type Generic[T, *Ts, **P] = dict[T, P]

def generic[T: int, U: (str, bytes)](a: T, b: U) -> T:
    return a

class Box[T]:
    item: T
''',
# 10 ---------------------------------------------------------------------------------------------------------------
'''\
# leading comment

x = 1  # trailing x

# block comment
# second line
y = 2

def f():
    # comment in body
    a = 1

    # before b

    b = 2  # b trailing
    # after b
    return a + b  # ret
# after def

z = 3 ; w = 4 ; v = 5
''',
# 11 ---------------------------------------------------------------------------------------------------------------
'''\
result = func(
    arg_one,   # first
    arg_two,   # second
    key=value,
    *rest,
    **extra
)

matrix = [
    [1, 2, 3],
    [4, 5, 6],  # row
    [7, 8, 9],
]

long_condition = (aaa and
                  bbb and
                  ccc)

total = first + \\
    second + \\
    third
''',
# 12 ---------------------------------------------------------------------------------------------------------------
'''\
s1 = 'single'
s2 = "double"
s3 = \'\'\'triple
multi line\'\'\'
s4 = 'implicit' "concat" \'\'\'three\'\'\'
s5 = f'fstring {x} and {y!r:>10}'
s6 = rb'raw bytes'
s7 = u'unicode'
n1 = 0x1F
n2 = 1_000_000
n3 = 1e10
n4 = 0o17
n5 = 0b101
n6 = 12345678901234567890123456789
''',
# 13 ---------------------------------------------------------------------------------------------------------------
'''\
def outer():
    x = 1
    def inner():
        nonlocal x
        x = 2
        return lambda: x
    class C:
        y = x
        def m(self): return y
    return [x for x in range(x)], {k: x for k in 'ab'}

global_var = 0
def uses_global():
    global global_var
    global_var += 1
''',
# 14 ---------------------------------------------------------------------------------------------------------------
'''\
á = 'ünïcödé'
def ƒ(ä, ö='ü'):
    """Dökstring ☃"""
    return ä + ö  # kommentär ☃
名前 = [á, 'ß', "日本語"]
print(名前, á)
''',
# 15 ---------------------------------------------------------------------------------------------------------------
'''\
x = (a)
y = ((a + b)) * c
z = (a,
     b)
f((a))
g((a), (b))
def hy(): h((yield))
i = [(a), (b)]
j = (a for a in b)
k = f(a for a in b)
l = (lambda: x)()
m = (-a) ** (-b)
n = a if (b if c else d) else e
''',
# 16 ---------------------------------------------------------------------------------------------------------------
'''\
if x:
\tif y:
\t\tz = 1
\telse:
\t\tz = 2
for q in r:
\tpass
''',
# 17 ---------------------------------------------------------------------------------------------------------------
'''\
if a: pass
if b: x = 1; y = 2
else: z = 3
while c: break
for d in e: continue
class F: pass
def g(): return 1
try: h()
except I: pass
finally: j()
with k: pass
''',
# 18 ---------------------------------------------------------------------------------------------------------------
'''\
def deco_args(a: int, b: 'str' = "x", *args: tuple, c: float = 1.0, **kw: dict) -> None:
    pass

def only_kw(*, a, b=2): pass
def only_pos(a, b, /): pass
def varargs(*a, **k): pass
def defaults(a=1, b=(1, 2), c=[x for x in y]): pass
async def agen():
    yield 1
    await something
''',
# 19 ---------------------------------------------------------------------------------------------------------------
'''\
import a.b.c
import x as y, z
from m import *
from .. import up
from .rel.deep import name1, name2 as n2
print(a.b.c, y, z)
''',
# 20 ---------------------------------------------------------------------------------------------------------------
'''\
class Outer:
    class Inner:
        def method(self):
            if self:
                for i in self:
                    while i:
                        try:
                            with i:
                                match i:
                                    case 1:
                                        return i
                        except E:
                            pass
''',
# 21 ---------------------------------------------------------------------------------------------------------------
'''\
x = a if b else c
y = a or b
z = not a
w = a.b.c.d
v = a[b][c]
u = a(b)(c)
t = -a ** b
s = (a, b) + (c,)
r = a, b = c, d
q = [a, [b, [c, [d]]]]
p = {a: {b: {c: d}}}
o = a.b(c.d[e.f], g=h.i)
''',
# 22 ---------------------------------------------------------------------------------------------------------------
'''\
def f(a, b):
    """One line docstring."""
    return a

def g():
    \'\'\'Single quoted
    docstring.
    \'\'\'

class C:
    "class doc"
    x = 1

def h():
    pass
    "not a docstring"
''',
# 23 ---------------------------------------------------------------------------------------------------------------
'''\
a = 1; b = 2
c = 3;
if d: e = 4; f = 5
def g(): h = 6; return h
class I: j = 7; k = 8
x = [
    1,
]; y = 2
''',
# 24 ---------------------------------------------------------------------------------------------------------------
'''\
a = [  # open
    1,  # one
    # own line
    2,

    3  # three
]  # close
b = call(  # c
    x,
    # c2
    y=1,  # c3
)
c = {
    'k': 1,  # k
    # dict comment
    'l': 2,
}
''',
# 25 ---------------------------------------------------------------------------------------------------------------
'''\
for x in a, b: pass
for (x, y) in z: pass
for x, in w: pass
for [p, q] in r: pass
with a as (b, c): pass
with a as [b, c]: pass
(a, b) = c
[a, b] = c
a.b, c[d] = e
*a, b = c
''',
# 26 ---------------------------------------------------------------------------------------------------------------
'''\
x = yield_expr = None
def f():
    a = yield b
    c = yield from d
    e = [(yield), (yield 1)]
    await_result = g((yield))
    return (yield), 1
async def h():
    a = await b
    c = [await d, (await e)]
    return await f
''',
# 27 ---------------------------------------------------------------------------------------------------------------
'''\
print(f"{a}")
print(f"{a!r}" f"{b:>{width}}")
print(f"""multi
{line}
""")
t = "a" "b"
u = ("c"
     "d")
v = b"e" b"f"
''',
# 28 ---------------------------------------------------------------------------------------------------------------
'''\
if a:
    pass
else:
    if b:
        pass
    else:
        pass

if c:
    pass
else:
    if d:
        pass
    e = 1

if f: pass
elif g: pass
elif h: pass
else: pass
''',
# 29 ---------------------------------------------------------------------------------------------------------------
'''\
@a
def f(): pass

@b.c
@d(e)
@f[g]
async def h(): pass

@(yield_ok := deco)
class I: pass
''',
# 30 ---------------------------------------------------------------------------------------------------------------
'''\
global_names = 1
def f():
    global global_names, other_global
    def g():
        nonlocal_a = 1
        def h():
            nonlocal nonlocal_a
            return nonlocal_a
        return h
    return g
''',
# 31 ---------------------------------------------------------------------------------------------------------------
'''\
match x:
    case [1, 2] | [3, 4]:
        pass
    case {1: a, 2: b}:
        pass
    case A.B(c, d, e=f, g=h):
        pass
    case (a) if a:
        pass
    case [*a]:
        pass
    case {**r}:
        pass
    case {}:
        pass
    case []:
        pass
    case a.b | c.d:
        pass
    case 'a' 'b':
        pass
    case 1 | 2 | 3 as n if n > 1:
        pass
''',
# 32 ---------------------------------------------------------------------------------------------------------------
'''\
x = [
    a
    for a in b
    if a
    for c in a
    if c
    if c > 1
]
y = {a: b
     for a, b in c}
z = sum(i
        for i in j)
''',
# 33 ---------------------------------------------------------------------------------------------------------------
'''\
try:
    pass
finally:
    pass

try:
    pass
except A:
    pass
except B as b:
    pass
except (C, D) as cd:
    pass
else:
    pass
''',
# 34 ---------------------------------------------------------------------------------------------------------------
'''\
a = b if c else d if e else f
g = lambda h: lambda i: h + i
j = [k for k in (l for l in m)]
n = o[p:q:r]
s = t[u, v:w]
x = y[::]
z = a[b:]
c = d[:e]
f = g[h::i]
''',
# 35 ---------------------------------------------------------------------------------------------------------------
'''\
def f(
    a,  # a
    b=1,  # b
    *args,
    c,
    d=2,
    **kw,
): pass

call(a)(b)(c)
call(
    a
)(
    b
)
obj.attr \\
   .other \\
   .third()
''',
# 36 ---------------------------------------------------------------------------------------------------------------
'''\
assert a
assert a, b
del x
del (y)
del (a, b)
del [c, d]
pass
return_ = 1
import_ = 2
x = 1 if True else 2
i = not not a
j = a is not None
k = a not in b
''',
# 37 ---------------------------------------------------------------------------------------------------------------
'''\
class A(B): pass
class C(D, E): pass
class F(G, metaclass=H): pass
class I(*J, **K): pass
class L(): pass
class M: x: int; y: str = 's'
f(a, b)
f(a, k=b)
f(*a)
f(**a)
f(a, *b, c, k=d, *e, **g)
f(a for a in b)
f(a, (b for b in c))
''',
# 38 ---------------------------------------------------------------------------------------------------------------
'''\
x = {
    **a,
    'k': v,
    **b,
}
y = {k: v, **a}
z = {**a}
w = {1: 2}
v = {a, b}
u = {*a, b}
t = [*a]
s = (*a,)
r = *a, b
''',
# 39 ---------------------------------------------------------------------------------------------------------------
'''\
def f():
    x = 1
    return x
def g():
    y = 2

    return y


def h():
    z = 3



    return z
class C:

    a = 1

    def m(self): pass



    def n(self): pass
''',
# 40 --------------------------------------------------------------------------------------------------------------
'''\
x = 1 if(a)else 2
y = [p]if q else r
z = 's'if x else'y'
w = not(a)and(b)or(c)
v = (a)in(b)
u = [i for i in(j)if(i)]
t = lambda:(x)
s = f(a)if(b)else g(c)if(d)else(e)
def g():
    return(a)
def h():
    yield(b)
    x = yield(c)
    await_ = not[1]or{2}and(3)
assert(a),(b)
del(q)
for(i)in(j):pass
while(k):break
if(m):pass
elif(n):pass
r = (a)if(b)else(c)
k = (a)is(b)is not(c)
''',
# 41 --------------------------------------------------------------------------------------------------------------
'''\
def g():
    pass
if a:
  pass
elif b:
  pass
if c:
  x = 1
elif d:
  x = 2
else:
  x = 3
class K:
        x = 1
        def m(self):
          return 1
for i in j:
 pass
else:
 pass
try:
   a
except E:
      b
finally:
  c
while w:
  if v:
          u
  elif t: s
''',
# 42 --------------------------------------------------------------------------------------------------------------
'''\
res = compute(alpha, (
    beta + gamma
))
val = [first, (
    second
), third]
if cond and (
    other
): pass
x = call(a)(b, (
   c
), d=(
   e.f
))
y = (
    z
).attr[(
    idx
)]
w = not (
    v
)
''',
# 43 --------------------------------------------------------------------------------------------------------------
'''\
if a: b = 1; c = 2
else: x = 1; y = 2; z = 3
for i in j: k = i; l = k
else: p = 1; q = 2
while m: n = 1; o = 2
else: r = 1; s = 2
try: t = 1; u = 2
except E: v = 1; w = 2
else: aa = 1; bb = 2
finally: cc = 1; dd = 2
with e as f: g = 1; h = 2
def fn(): i1 = 1; i2 = 2; return i1
class Kl: j1 = 1; j2 = 2
if a2:
    pass
elif b2: c2 = 1; d2 = 2
else: e2 = 1; f2 = 2
''',
# 44 (f-strings: plain, conversions, format specs, self-documenting fields, nested, multi-line, non-ASCII) ---------
'''\
a1 = f"{a}"
a2 = f"{a = }"
a3 = f"pre {a = } post"
a4 = f"{a!r:>{w}}"
a5 = f"{a}{b = }{c}"
a6 = f"x{ a + b = !r}y"
äö = f"ü{a = }"; zß = f"{a}"
a8 = f"{f'{n}' = }"
a9 = f"""m
{a = }
{b!s}
"""
a10 = (f"{a}"
       f"{b = :>5}")
def g():
    return f"{x.y[0]}", f"{fn(p, q) = }"
''',
]
