"""C20 drivers on top of c20_opts: TLC-generated behaviours replayed under a step controller (G), free-running
stress with solo re-runs (V), and the batch format of spec/OptionsTrace.tla."""

from __future__ import annotations

import itertools
import json
import random
import sys
import threading
import time

from harness import c20_opts as C
from harness import tlc

FST = C.FST
TIMEOUT = 60


# ----------------------------------------------------------------------------------------------------------------------
# behaviours printed by OptionsSim / ThreadsSim

def parse_behaviours(out: str) -> list:
    res = []
    for line in out.splitlines():
        if line.startswith('<<"BEH", '):
            body = line[len('<<"BEH", '):].rstrip()
            if body.endswith('>>'):
                body = body[:-2]
            res.append(json.loads(json.loads(body)))
    return res


def simulate(module: str, cfg: str, num: int, depth: int, seed: int, workers: int = 2) -> tuple[list, dict]:
    r = tlc.run_model(module, cfg, workers=workers, timeout=1800, coverage=False, heap='768m',
                      extra=['-simulate', f'num={max(1, num // workers)}', '-depth', str(depth), '-seed', str(seed + 1)])
    if r['violated']:
        raise tlc.TLCError(f'{module}: the specification violates {r["violated"]} in simulation\n' + r['out'][-2000:])
    return parse_behaviours(r['out']), r


# ----------------------------------------------------------------------------------------------------------------------
# events

def new_event(t, k, src, m=(), how='-'):
    return {'t': t, 'k': k, 'src': src, 'm': list(m), 'how': how, 'outcome': 'ok', 'exc': '', 'hasPre': False, 'pre': [],
            'hasObs': False, 'obs': [], 'all': [], 'ret': [], 'eff': [], 'hasRef': False, 'res': '', 'ref': '',
            'solo': {'has': False, 'det': False, 'outcome': '', 'exc': '', 'obs': [], 'ret': [], 'eff': [], 'res': ''},
            'regOk': False, 'reg': [], 'expect': {'has': False, 'store': []}, 'heap': [], 'reps': [], 'q': '-', 'node': 0}


def fill(ev, r):
    """Copy the interpreter's reply (observations) into the event."""
    ev['outcome'] = r.get('outcome', 'ok')
    ev['exc'] = r.get('exc', '')
    ev['hasPre'], ev['pre'] = True, r.get('pre', [])
    ev['hasObs'], ev['obs'] = True, r.get('obs', [])
    ev['ret'], ev['eff'], ev['res'] = r.get('ret', []), r.get('eff', []), r.get('res', '')
    ev['heap'], ev['reps'] = r.get('heap', []), r.get('reps', [])
    if 'ref' in r:
        ev['hasRef'], ev['ref'] = True, r['ref']
    if r.get('reg') is not None:
        ev['regOk'], ev['reg'] = True, r['reg']
    if 'desc' in r:
        ev['desc'] = r['desc']
    if 'msg' in r:
        ev['msg'] = r['msg']
    return ev


def solo_of(r):
    return {'outcome': r.get('outcome', ''), 'exc': r.get('exc', ''), 'obs': r.get('obs', []), 'ret': r.get('ret', []),
            'eff': r.get('eff', []), 'res': r.get('res', '')}


def expand_exit(ev, levels):
    """A k-level unwinding is k ExitWith steps of the model; only the last one has an observation."""
    if levels <= 1:
        return [ev]
    out = []
    for i in range(levels):
        e = dict(ev)
        if i < levels - 1:
            e = dict(e, hasObs=False, obs=[], regOk=False, reg=[], all=[], heap=[],
                     solo=dict(ev['solo'], has=False))
        if i > 0:
            e['hasPre'], e['pre'] = False, []
        out.append(e)
    return out


class Interner:
    def __init__(self):
        self.d = {'': 0}

    def __call__(self, s):
        if s not in self.d:
            self.d[s] = len(self.d)
        return self.d[s]


def build_batch(traces: list, maxt: int) -> dict:
    """JSON for OptionsTrace.tla. Result texts become small integers (equal text <=> equal id). `cells` is the initial
    heap: every immutable value is its own cell (id = content text), every mutable object of a run has id '@...'."""
    it = Interner()
    out = []
    vals = {C.vrepr(v) for vs in C.VALID.values() for v in vs}
    heap = {}
    for tr in traces:
        own = []
        for sp in tr.get('cells', ()):
            text = C.cell_text(sp, C.make_cell(sp))
            own.append([sp['id'], text])
            if sp['valid']:
                vals.add(text)
        steps = []
        for ev in tr['steps']:
            e = {k: v for k, v in ev.items() if k not in ('desc', 'msg', 'cmd')}
            e['res'] = it(ev['res'])
            e['ref'] = it(ev['ref'])
            e['reps'] = [it(x) for x in ev['reps']]
            e['solo'] = dict(ev['solo'], res=it(ev['solo']['res']))
            for x in ev['m']:
                if not x['v'].startswith('@'):
                    heap[x['v']] = x['v']
            steps.append(e)
        out.append({'id': tr['id'], 'steps': steps, 'cells': own})
    for n, v in C.pairs(C.DEFAULTS):
        heap[v] = v
    for v in vals:
        heap.setdefault(v, v)
    return {'defaults': C.pairs(C.DEFAULTS), 'vals': sorted(vals), 'cells': [[k, heap[k]] for k in sorted(heap)],
            'maxt': maxt, 'traces': out}


# ----------------------------------------------------------------------------------------------------------------------
# concretisation of abstract maps

ABS = {'c0': 'v0', 'c1': 'v1', 'c2': 'v2', 'cb': 'bad'}


class Concretiser:
    """o1.. -> distinct documented options; cell c0 -> the default, c1/c2 -> other valid values, cb -> an invalid value;
    unk -> a name that is not a (global) option. Where the documentation allows a mutable object (the `op` option: list
    of lines, AST instance, FST) the value is a per-thread *object* created once per run and passed by reference
    every time that abstract cell is used (per call, into the defaults, into blocks)."""

    def __init__(self, rng: random.Random, pool=None, n=3, trace_id=0, threads=(1, 2, 3)):
        pool = list(pool or C.OPTION_NAMES)
        names = rng.sample(pool, n)
        if 'op' in pool and 'op' not in names and rng.random() < 0.45:
            names[0] = 'op'
            if 'op_side' not in names and rng.random() < 0.6:
                names[1] = 'op_side'
        self.opt = {f'o{i + 1}': nm for i, nm in enumerate(names)}
        self.val = {}
        self.specs = {t: {} for t in threads}
        self.trace_id = trace_id
        for nm in names:
            others = [v for v in C.VALID[nm][1:]]
            rng.shuffle(others)
            self.val[nm] = {'v0': C.VALID[nm][0], 'v1': others[0], 'v2': others[1 % len(others)]}
            for vk in ('v1', 'v2'):
                if nm in C.MUTABLE_KINDS and rng.random() < 0.75:
                    kind, init = rng.choice(C.MUTABLE_KINDS[nm])
                    self.val[nm][vk] = ('cell', vk)
                    for t in threads:
                        cid = f'@{trace_id}.{t}.{vk}'
                        self.specs[t][cid] = C.cell_spec(cid, nm, kind, init)
            if nm in C.MUTABLE_INVALID:
                kind, init = rng.choice(C.MUTABLE_INVALID[nm])
                for t in threads:
                    cid = f'@{trace_id}.{t}.bad.{nm}'
                    self.specs[t][cid] = C.cell_spec(cid, nm, kind, init, valid=False)
        self.rng = rng

    def all_specs(self):
        return {i: sp for d in self.specs.values() for i, sp in d.items()}

    def _value(self, nm, vk, t):
        v = self.val[nm][vk]
        if isinstance(v, tuple) and v and v[0] == 'cell':
            return C.CellRef(f'@{self.trace_id}.{t}.{v[1]}')
        return v

    def kwargs(self, pairs_, call=False, t=1):
        """-> (kwargs in call order, unknown names used)"""
        rng = self.rng
        items, unknown = [], []
        for n, v in pairs_:
            v = ABS.get(v, v)
            if n == 'unk':
                nm = rng.choice(C.UNKNOWN_CALL if call else C.UNKNOWN_GLOBAL)
                val = rng.choice([True, False, 'auto', None, 1])
                items.append((nm, val, True))
                unknown.append(nm)
            else:
                nm = self.opt[n]
                if v == 'bad':
                    cid = f'@{self.trace_id}.{t}.bad.{nm}'
                    if cid in self.specs.get(t, {}) and rng.random() < 0.3:
                        items.append((nm, C.CellRef(cid), True))
                    else:
                        items.append((nm, rng.choice(C.INVALID[nm]), True))
                else:
                    items.append((nm, self._value(nm, v, t), False))
        rng.shuffle(items)
        if rng.random() < 0.6:      # rejected entries last: the accepted ones would be applied first by a sloppy update
            items.sort(key=lambda x: x[2])
        return {nm: val for nm, val, _ in items}, unknown

    def store(self, pairs_, t=1):
        """The model's store as real values; mutable ones as *fresh* objects with the cell's initial contents."""
        d = dict(C.DEFAULTS)
        for n, v in pairs_:
            x = self._value(self.opt[n], ABS.get(v, v), t)
            d[self.opt[n]] = C.make_cell(self.specs[t][x.id]) if isinstance(x, C.CellRef) else x
        return d


# ----------------------------------------------------------------------------------------------------------------------
# read-only consumers on long-lived nodes

def read_kwargs(rng, q, names=None):
    """A per-call value for one of the options read `q` is sensitive to (valid, preferably not the default)."""
    name = C.READS[q][0]
    sens = [o for o in C.READ_SENSITIVE[name] if o in C.READS[q][2]]
    if not sens:
        return {}
    o = rng.choice(sens)
    return {o: rng.choice(C.VALID[o][1:] if rng.random() < 0.85 else C.VALID[o])}


def read_cmds(rng, tree, prefer=()):
    """[default, per-call value, default] (or a shorter variation) of one read on the same long-lived node."""
    qs = [i for i, rd in enumerate(C.READS) if set(C.READ_SENSITIVE[rd[0]]) & set(prefer)] if prefer else []
    q = rng.choice(qs) if qs and rng.random() < 0.7 else rng.randrange(len(C.READS))
    pat = rng.choice(('dpd', 'dpd', 'pd', 'dp', 'd', 'p', 'pp'))
    return [{'k': 'read', 'tree': tree, 'q': q, 'kw': read_kwargs(rng, q) if ch == 'p' else {}} for ch in pat]


def read_event(t, src, c, r):
    name, _, params, _ = C.READS[c['q']]
    kw = {k: v for k, v in c['kw'].items() if k in params}
    ev = fill(new_event(t, 'read', src, C.mjson(kw)), r)
    ev['q'], ev['node'] = name, 1
    ev['cmd'] = {'k': 'read', 'tree': c['tree'], 'q': name, 'kw': {n: C.vrepr(v) for n, v in kw.items()}}
    return ev


# ----------------------------------------------------------------------------------------------------------------------
# step controller

class Controller:
    def __init__(self, reglog=None):
        self.reglog = reglog
        self.w = {}
        self.seq = itertools.count()

    def spawn(self, tid, srcs=(), cellspecs=()):
        ch = C.QueueChan()
        th = threading.Thread(target=C.interpret, args=(ch, tid, srcs, self.reglog, self.seq, cellspecs), daemon=True)
        self.w[tid] = (th, ch)
        th.start()
        return self.send(tid, {'k': 'spawn'})

    def send(self, tid, cmd):
        th, ch = self.w[tid]
        ch.cmd.put(cmd)
        return self.wait(tid)

    def wait(self, tid):
        th, ch = self.w[tid]
        try:
            return ch.rep.get(timeout=TIMEOUT)
        except Exception as e:  # noqa: BLE001
            raise tlc.TLCError(f'step controller: thread {tid} did not answer ({type(e).__name__})') from e

    def die(self, tid):
        th, ch = self.w.pop(tid)
        ch.cmd.put({'k': 'die'})
        th.join(TIMEOUT)
        if th.is_alive():
            raise tlc.TLCError(f'step controller: thread {tid} did not end')

    def others(self, tid):
        out = [{'t': 0, 'obs': C.snap()}]
        for u in sorted(self.w):
            if u != tid:
                out.append({'t': u, 'obs': self.send(u, {'k': 'obs'})['obs']})
        return out


def replay_option_behaviour(beh: list, rng: random.Random, trace_id: int, reglog=None) -> dict:
    """One OptionsSim behaviour against real threads; returns a trace for OptionsTrace."""
    cz = Concretiser(rng, trace_id=trace_id)
    specs = cz.all_specs()
    C.shared_tree(new=True)
    ctl = Controller(reglog)
    tnum = {'t1': 1, 't2': 2, 't3': 3}
    steps = []
    depth = {}
    relevant = sorted({i for nm in cz.opt.values() for i in C.PROBE_FOR[nm]})
    i = 0
    SRC = 'G-options'
    try:
        r = ctl.spawn(1, cellspecs=list(cz.specs[1].values()))   # the model's Main (alive from the start) is a real thread of its own here
        depth[1] = 0
        ev = fill(new_event(1, 'spawn', SRC), r)
        ev['hasPre'] = False
        steps.append(ev)
        while i < len(beh):
            a = beh[i]
            t = tnum[a['t']]
            k = a['k']
            if k == 'spawn':
                if t in ctl.w:
                    ctl.die(t)  # cannot happen (model spawns only dead threads)
                r = ctl.spawn(t, cellspecs=list(cz.specs[t].values()))
                depth[t] = 0
                ev = fill(new_event(t, 'spawn', SRC), r)
                ev['hasPre'] = False
                ev['all'] = ctl.others(t)
                steps.append(ev)
            elif k == 'die':
                ctl.die(t)
                ev = new_event(t, 'die', SRC)
                ev['all'] = ctl.others(t)
                steps.append(ev)
            elif k in ('set', 'enter', 'call'):
                kw, unknown = cz.kwargs(a['m'], call=(k == 'call'), t=t)
                cmd = {'k': k, 'kw': kw}
                if k == 'call':
                    cmd['probes'] = sorted(set(relevant + [rng.randrange(len(C.PROBES)), rng.choice((0, 14, 14)), 15]))
                r = ctl.send(t, cmd)
                ev = fill(new_event(t, k, SRC, C.mjson(kw, unknown, specs)), r)
                ev['cmd'] = {'k': k, 'kw': {n: repr(v) if isinstance(v, C.CellRef) else C.vrepr(v) for n, v in kw.items()}}
                if k == 'call' and a['ok'] and r.get('outcome') == 'ok':
                    eff = cz.store(a['eff'], t)   # the model's effective options of this call (fresh objects)
                    ev['hasRef'], ev['ref'] = True, C.probe_ref(cmd['probes'], eff)
                if k == 'enter' and r.get('outcome') == 'ok':
                    depth[t] += 1
                ev['all'] = ctl.others(t)
                steps.append(ev)
            elif k == 'exit':
                levels = 1
                if a['how'] == 'exception':      # adjacent exception exits of the same thread = one real unwinding
                    while (i + levels < len(beh) and beh[i + levels]['k'] == 'exit' and beh[i + levels]['t'] == a['t']
                           and beh[i + levels]['how'] == 'exception' and rng.random() < 0.7):
                        levels += 1
                r = ctl.send(t, {'k': 'exit', 'how': a['how'], 'levels': levels})
                depth[t] -= levels
                ev = fill(new_event(t, 'exit', SRC, how=a['how']), r)
                ev['all'] = ctl.others(t)
                steps += expand_exit(ev, levels)
                i += levels - 1
            last = beh[i]       # (for merged exits: the last merged model step)
            post = [p for p in last.get('post', []) if p['t'] == a['t']]
            if post and steps and steps[-1]['t'] == t and k != 'die':
                steps[-1]['expect'] = {'has': True, 'store': C.pairs(cz.store(post[0]['store'], t))}
            if k != 'die' and t in ctl.w and rng.random() < 0.4:
                # read-only consumers on the shared long-lived tree: this thread, then sometimes another one
                cmds = read_cmds(rng, 'shared', prefer=list(cz.opt.values()))
                for c in cmds:
                    steps.append(read_event(t, SRC, c, ctl.send(t, c)))
                others = [u for u in ctl.w if u != t]
                if others and rng.random() < 0.5:
                    u = rng.choice(others)
                    c = dict(cmds[0], kw={})
                    steps.append(read_event(u, SRC, c, ctl.send(u, c)))
                    c = dict(cmds[-1])
                    steps.append(read_event(t, SRC, c, ctl.send(t, c)))
            i += 1
        # leave every block that is still open, then end the threads
        for t in sorted(ctl.w):
            while depth.get(t, 0) > 0:
                how = rng.choice(('normal', 'exception'))
                levels = rng.randint(1, depth[t]) if how == 'exception' else 1
                r = ctl.send(t, {'k': 'exit', 'how': how, 'levels': levels})
                depth[t] -= levels
                ev = fill(new_event(t, 'exit', SRC, how=how), r)
                ev['all'] = ctl.others(t)
                steps += expand_exit(ev, levels)
    finally:
        for t in sorted(ctl.w):
            try:
                ctl.die(t)
            except Exception:  # noqa: BLE001
                pass
    return {'id': trace_id, 'steps': steps, 'concrete': cz.opt, 'cells': list(specs.values())}


# ----------------------------------------------------------------------------------------------------------------------
# free-running stress (V)

def cell_pool(rng, trace_id, tid):
    """This thread's own mutable option objects: three valid `op` objects and one list that is not a valid value."""
    specs = {}
    for j, (kind, init) in enumerate(rng.sample(C.MUTABLE_KINDS['op'], 3)):
        cid = f'@{trace_id}.{tid}.op{j}'
        specs[cid] = C.cell_spec(cid, 'op', kind, init)
    nm = rng.choice(sorted(C.MUTABLE_INVALID))
    kind, init = rng.choice(C.MUTABLE_INVALID[nm])
    cid = f'@{trace_id}.{tid}.bad'
    specs[cid] = C.cell_spec(cid, nm, kind, init, valid=False)
    return specs


def rand_kwargs(rng, names, call=False, p_bad=0.12, p_unk=0.08, pool=None):
    n = rng.choice((1, 1, 1, 2, 2, 3))
    items, unknown = [], []
    chosen = rng.sample(names, min(n, len(names)))
    if pool and 'op' in names and 'op' not in chosen and rng.random() < 0.25:
        chosen[0] = 'op'
        if 'op_side' not in chosen and rng.random() < 0.5:
            chosen.append('op_side')
    for nm in chosen:
        r = rng.random()
        good = [sp for sp in (pool or {}).values() if sp['option'] == nm and sp['valid']]
        badc = [sp for sp in (pool or {}).values() if sp['option'] == nm and not sp['valid']]
        if r < p_unk:
            u = rng.choice(C.UNKNOWN_CALL if call else C.UNKNOWN_GLOBAL)
            items.append((u, rng.choice([True, False, None, 'auto']), True))
            unknown.append(u)
        elif r < p_unk + p_bad:
            items.append((nm, C.CellRef(rng.choice(badc)['id']) if badc and rng.random() < 0.5 else rng.choice(C.INVALID[nm]), True))
        elif good and rng.random() < 0.7:
            items.append((nm, C.CellRef(rng.choice(good)['id']), False))      # the same object again and again
        else:
            items.append((nm, rng.choice(C.VALID[nm]), False))
    if rng.random() < 0.6:
        items.sort(key=lambda x: x[2])
    kw = {nm: v for nm, v, _ in items}
    return kw, unknown, any(b for _, _, b in items)


def gen_script(rng: random.Random, n: int, flavour: str, ntrees: int, pool=None) -> list:
    """Commands for one thread. The generator tracks block depth from the documented validity of what it passes."""
    cmds = []
    depth = 0
    names = C.EDIT_STORE_OPTS if flavour == 'mixed' else C.OPTION_NAMES
    w = {'opts': (('call', 24), ('set', 22), ('enter', 20), ('exit', 20), ('read', 14)),
         'storm': (('set', 50), ('enter', 25), ('exit', 25)),
         'mixed': (('edit', 42), ('call', 8), ('set', 15), ('enter', 15), ('exit', 14), ('read', 6))}[flavour]
    kinds = [k for k, c in w for _ in range(c)]
    for _ in range(n):
        k = rng.choice(kinds)
        if k == 'exit' and depth == 0:
            k = 'enter'
        if k == 'enter' and depth >= 5:
            k = 'exit'
        if k == 'read':
            cmds += read_cmds(rng, 'own')
        elif k == 'edit':
            cmds.append({'k': 'edit', 'tree': rng.randrange(ntrees), 'seed': rng.randrange(1 << 30)})
        elif k == 'call':
            kw, unknown, bad = rand_kwargs(rng, C.OPTION_NAMES, call=True, pool=pool)
            pr = sorted({i for nm in kw if nm in C.PROBE_FOR for i in C.PROBE_FOR[nm]} | {rng.randrange(len(C.PROBES)), rng.choice((1, 14, 15, 15))})
            cmds.append({'k': 'call', 'kw': kw, 'unknown': unknown, 'probes': pr})
        elif k in ('set', 'enter'):
            kw, unknown, bad = rand_kwargs(rng, names, pool=pool)
            if k == 'enter' and rng.random() < 0.1:
                kw, unknown, bad = {}, [], False
            cmds.append({'k': k, 'kw': kw, 'unknown': unknown})
            if k == 'enter' and not bad:
                depth += 1
        else:
            how = rng.choice(('normal', 'exception', 'exception'))
            levels = rng.randint(1, depth) if how == 'exception' and rng.random() < 0.4 else 1
            cmds.append({'k': 'exit', 'how': how, 'levels': levels})
            depth -= levels
    while depth > 0:
        how = rng.choice(('normal', 'exception'))
        levels = rng.randint(1, depth) if how == 'exception' else 1
        cmds.append({'k': 'exit', 'how': how, 'levels': levels})
        depth -= levels
    return cmds


def run_script(cmds, tid, srcs, reglog, start=None, cellspecs=()):
    ch = C.ListChan([{'k': 'spawn'}] + cmds)

    def body():
        if start is not None:
            start.wait()
        C.interpret(ch, tid, srcs, reglog, None, cellspecs)

    th = threading.Thread(target=body, daemon=True)
    return th, ch


def stress(seed: int, nthreads: int, nsteps: int, flavour: str, corpus: list, reglog=None, base_id: int = 0,
           switch=1e-6) -> list:
    """N threads run their scripts freely (tiny switch interval); then every script runs alone, twice. Returns one
    trace per thread (+ one for the main thread): concurrent observations with the solo observations attached."""
    rng = random.Random(seed)
    scripts = []
    for j in range(nthreads):
        ntrees = rng.choice((1, 2)) if flavour == 'mixed' else 0
        srcs = [rng.choice(corpus) for _ in range(ntrees)]
        pool = cell_pool(rng, base_id + j + 1, j + 1)
        scripts.append((gen_script(rng, nsteps, flavour, max(1, ntrees), pool), srcs, pool))
    start = threading.Barrier(nthreads)
    old = sys.getswitchinterval()
    runs = [run_script(cmds, j + 1, srcs, reglog, start, list(pool.values())) for j, (cmds, srcs, pool) in enumerate(scripts)]
    sys.setswitchinterval(switch)
    try:
        for th, _ in runs:
            th.start()
        for th, _ in runs:
            th.join(600)
    finally:
        sys.setswitchinterval(old)
    main_obs = C.snap()
    solos = []
    for rep in range(2):
        row = []
        for j, (cmds, srcs, pool) in enumerate(scripts):
            th, ch = run_script(cmds, 100 + j + 1, srcs, None, None, list(pool.values()))   # fresh objects per run
            th.start()
            th.join(600)
            row.append(ch.replies)
        solos.append(row)
    traces = []
    SRC = 'V-stress-' + flavour
    for j, (cmds, srcs, pool) in enumerate(scripts):
        t = j + 1
        conc = runs[j][1].replies
        sa, sb = solos[0][j], solos[1][j]
        allc = [{'k': 'spawn'}] + cmds
        steps = []
        for i, r in enumerate(conc):
            c = allc[i] if i < len(allc) else {'k': r.get('k', '?')}
            k = r['k']
            kw = c.get('kw', {}) if k != 'edit' else r.get('opts', {})
            if k == 'edit' and not C.classifiable(kw):
                kw = {}     # per-call options of the shared edit driver outside the documented tables: not judged
            m = C.mjson(kw, c.get('unknown', ()), pool)
            if k == 'read':
                ev = read_event(t, SRC, c, r)
            else:
                ev = fill(new_event(t, k, SRC, m, how=c.get('how', '-')), r)
                ev['cmd'] = {kk: (vv if kk != 'kw' else {n: C.vrepr(v) for n, v in vv.items()}) for kk, vv in c.items()}
            if k == 'spawn':
                ev['hasPre'] = False
            if i < len(sa) and i < len(sb):
                a, b = solo_of(sa[i]), solo_of(sb[i])
                ev['solo'] = dict(a, has=True, det=(a == b))
            if k == 'exit':
                steps += expand_exit(ev, c.get('levels', 1))
            else:
                steps.append(ev)
        complete = len(conc) == len(allc) and len(sa) == len(allc)
        traces.append({'id': base_id + t, 'steps': steps, 'complete': complete, 'cells': list(pool.values()),
                       'nsolo_det': sum(1 for e in steps if e['solo']['det'])})
    ev = new_event(0, 'call', SRC)
    ev['hasPre'], ev['pre'], ev['hasObs'], ev['obs'], ev['eff'] = True, main_obs, True, main_obs, main_obs
    traces.append({'id': base_id + nthreads + 1, 'steps': [ev], 'complete': True, 'script': None, 'nsolo_det': 0})
    return traces


# ----------------------------------------------------------------------------------------------------------------------
# ThreadsSim behaviours: the model's schedule (sub-call steps of three threads) reproduced with real threads that
# park at yield points inside pfst (`_Modifying.enter/success/fail`, `get_option`)

TEDIT_OPTS = ['pars', 'norm', 'elif_', 'pep8space', 'op_side', 'coerce', 'trivia']
ROOT_OF = {'r1': (1, 0), 'r2': (2, 0), 'r3': (2, 1), 'r4': (3, 0)}
NTREES = {1: 1, 2: 2, 3: 1}


def concretise_thread_scripts(beh, cz):
    tnum = {'t1': 1, 't2': 2, 't3': 3}
    scripts = {}
    for sc in beh['scripts']:
        t = tnum[sc['t']]
        cmds = []
        for op in sc['ops']:
            if op['k'] == 'edit':
                kw, unknown = cz.kwargs(op['m'], call=True, t=t)
                rejected = any(n == 'unk' or v == 'bad' for n, v in op['m'])
                cmds.append({'k': 'tedit', 'tree': ROOT_OF[op['r']][1], 'node': 0 if op['n'] == 'a' else 1,
                             'opt': cz.opt[op['o']], 'kw': kw, 'unknown': unknown, 'fault': op['fault'],
                             'rejected': rejected})
            elif op['k'] == 'exit':
                cmds.append({'k': 'exit', 'how': op['how'], 'levels': 1})
            else:
                kw, unknown = cz.kwargs(op['m'], t=t)
                cmds.append({'k': op['k'], 'kw': kw, 'unknown': unknown})
        scripts[t] = cmds
    return scripts


def replay_thread_behaviour(beh: dict, rng: random.Random, trace_id: int, reglog=None, hooks=True) -> dict:
    cz = Concretiser(rng, pool=TEDIT_OPTS, n=2, trace_id=trace_id)
    scripts = concretise_thread_scripts(beh, cz)
    specs = cz.all_specs()
    tnum = {'t1': 1, 't2': 2, 't3': 3}
    ctl = Controller(reglog)
    SRC = 'G-threads'
    steps = []
    pc = {t: 0 for t in scripts}
    inflight = {}
    nyield = 0

    def event_of(t, c, r):
        k = 'edit' if c['k'] == 'tedit' else c['k']
        ev = fill(new_event(t, k, SRC, C.mjson(c.get('kw', {}), c.get('unknown', ()), specs), how=c.get('how', '-')), r)
        ev['cmd'] = {kk: (vv if kk != 'kw' else {n: C.vrepr(v) for n, v in vv.items()}) for kk, vv in c.items()}
        return ev

    def advance(t, to_end):
        """Let thread t run to its next yield point (or, with to_end, to the end of the call)."""
        nonlocal nyield
        th, ch = ctl.w[t]
        n = 1 if to_end else rng.choice((1, 1, 2, 3))
        while inflight.get(t) is not None and (to_end or n > 0):
            ch.cmd.put({'k': 'go'})
            r = ctl.wait(t)
            if r.get('k') == 'yield':
                nyield += 1
                n -= 1
            else:
                steps.append(event_of(t, inflight.pop(t), r))

    try:
        r = ctl.spawn(1, [C.TEDIT_SRC] * NTREES[1], list(cz.specs[1].values()))
        ev = fill(new_event(1, 'spawn', SRC), r)
        ev['hasPre'] = False
        steps.append(ev)
        for st in beh['sched']:
            t, act = tnum[st['t']], st['act']
            if act == 'spawn':
                r = ctl.spawn(t, [C.TEDIT_SRC] * NTREES[t], list(cz.specs[t].values()))
                ev = fill(new_event(t, 'spawn', SRC), r)
                ev['hasPre'] = False
                steps.append(ev)
            elif act in ('set', 'enter', 'exit'):
                c = scripts[t][pc[t]]
                pc[t] += 1
                steps.append(event_of(t, c, ctl.send(t, c)))
            elif act == 'read':
                c = dict(scripts[t][pc[t]], step=hooks)
                pc[t] += 1
                th, ch = ctl.w[t]
                ch.cmd.put(c)
                r = ctl.wait(t)
                if r.get('k') == 'yield':
                    nyield += 1
                    inflight[t] = c
                    if c['rejected']:
                        advance(t, True)
                else:
                    steps.append(event_of(t, c, r))
            elif act in ('success', 'fail'):
                advance(t, True)
            else:  # enterreg / nest / unnest / body
                advance(t, False)
        for t in list(inflight):
            advance(t, True)
        # blocks left open by the model's scripts do not exist (every script closes what it opens)
    finally:
        for t in list(inflight):
            try:
                advance(t, True)
            except Exception:  # noqa: BLE001
                pass
        for t in sorted(ctl.w):
            try:
                ctl.die(t)
            except Exception:  # noqa: BLE001
                pass
    # the same scripts alone
    for t, cmds in scripts.items():
        th, ch = run_script([dict(c) for c in cmds], 100 + t, [C.TEDIT_SRC] * NTREES[t], None, None, list(cz.specs[t].values()))
        th.start()
        th.join(TIMEOUT)
        solo = ch.replies
        mine = [e for e in steps if e['t'] == t]
        for e, s in zip(mine, solo):
            e['solo'] = dict(solo_of(s), has=True, det=True)
    return {'id': trace_id, 'steps': steps, 'concrete': cz.opt, 'yields': nyield, 'cells': list(specs.values())}
