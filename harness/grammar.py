"""The abstract grammar of CPython's `ast` module, read from the ASDL signatures in the class docstrings.

FIELDS[kind] = [(field name, asdl type, quantifier in {'', '?', '*'})]
"""

from __future__ import annotations

import ast
import re

_SIG = re.compile(r'^(\w+)\((.*)\)$', re.S)


def _build():
    fields = {}
    for name in dir(ast):
        cls = getattr(ast, name)
        if not (isinstance(cls, type) and issubclass(cls, ast.AST)) or (cls.__subclasses__() and name != 'Constant'):
            continue
        doc = (cls.__doc__ or '').strip()
        m = _SIG.match(doc)
        if not m or m.group(1) != name:
            if cls._fields == ():
                fields[name] = []
            continue
        fl = []
        for part in m.group(2).split(','):
            part = part.strip()
            if not part:
                continue
            typ, fname = part.split()
            q = ''
            if typ[-1] in '?*':
                q = typ[-1]
                typ = typ[:-1]
            fl.append((fname, typ, q))
        if tuple(f for f, _, _ in fl) == tuple(cls._fields):
            fields[name] = fl
    return fields


FIELDS = _build()

NODE_TYPES = {'expr', 'stmt', 'arg', 'keyword', 'alias', 'withitem', 'excepthandler', 'match_case', 'pattern',
              'comprehension', 'type_param', 'arguments'}
OP_TYPES = {'operator', 'boolop', 'unaryop', 'cmpop'}
PRIM_TYPES = {'identifier', 'constant', 'string', 'int'}

STMTISH = {'stmt', 'excepthandler', 'match_case'}


def field_info(kind: str, field: str):
    for f, t, q in FIELDS.get(kind, ()):
        if f == field:
            return t, q
    return None
