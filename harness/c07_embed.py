"""Embeddings of extracted pieces (C07/C08): how the source of a stand-alone piece is handed to CPython's parser.

The table is *defined in the specification* (spec/ExtractEmbed.tla, operator EmbedTab) and emitted by TLC as JSON; EMBED
below is the harness' mirror of it, compared with the emitted table at every run (a mismatch is a machinery failure).
An alternative is  [pre, post, path, indent, mode]:  the text handed to CPython is  pre + body + post  where body is the
piece's source (every logical line indented by one space when indent = 1), `path` leads from the parse result to the
node standing for the piece (for pfst's special slice containers: to the construct whose fields hold the elements).
Positions of that node are shifted back (projection, trusted): line -= lines(pre), col -= per-line prefix width.
"""

from __future__ import annotations

import ast
import io
import tokenize

STMTS = ['FunctionDef', 'AsyncFunctionDef', 'ClassDef', 'Return', 'Delete', 'Assign', 'TypeAlias', 'AugAssign',
         'AnnAssign', 'For', 'AsyncFor', 'While', 'If', 'With', 'AsyncWith', 'Match', 'Raise', 'Try', 'TryStar',
         'Assert', 'Import', 'ImportFrom', 'Global', 'Nonlocal', 'Expr', 'Pass', 'Break', 'Continue']
EXPRS = ['BoolOp', 'NamedExpr', 'BinOp', 'UnaryOp', 'Lambda', 'IfExp', 'Dict', 'Set', 'ListComp', 'SetComp',
         'DictComp', 'GeneratorExp', 'Await', 'Yield', 'YieldFrom', 'Compare', 'Call', 'FormattedValue', 'JoinedStr',
         'Constant', 'Attribute', 'Subscript', 'Starred', 'Name', 'List', 'Tuple', 'Slice']
PATTERNS = ['MatchValue', 'MatchSingleton', 'MatchSequence', 'MatchMapping', 'MatchClass', 'MatchStar', 'MatchAs',
            'MatchOr']
OPERATORS = ['Add', 'Sub', 'Mult', 'MatMult', 'Div', 'Mod', 'Pow', 'LShift', 'RShift', 'BitOr', 'BitXor', 'BitAnd',
             'FloorDiv']
BOOLOPS = ['And', 'Or']
UNARYOPS = ['Invert', 'Not', 'UAdd', 'USub']
CMPOPS = ['Eq', 'NotEq', 'Lt', 'LtE', 'Gt', 'GtE', 'Is', 'IsNot', 'In', 'NotIn']
TYPE_PARAMS = ['TypeVar', 'ParamSpec', 'TypeVarTuple']


def _alt(pre, post, path, indent=0, mode='exec', bare=None):
    if bare is None:
        bare = not (pre.endswith('\n') and post.startswith('\n') and pre.strip())  # enclosing-bracket embeddings put the body on its own lines
    return {'pre': pre, 'post': post, 'path': [{'n': n, 'i': i} for n, i in path], 'indent': indent, 'mode': mode,
            'bare': bool(bare)}


_B1 = ('body', 1)
_CASE = [_B1, ('cases', 1), ('pattern', 1)]


def _build():
    t = {}
    t['Module'] = [_alt('', '', [])]
    for k in STMTS:
        t[k] = [_alt('', '', [_B1])]
    for k in EXPRS:
        t[k] = [_alt('', '', [_B1], mode='eval'), _alt('(\n', '\n)', [_B1], mode='eval')]
    # unparenthesised tuples and slices keep their own extent inside a subscript (inside parentheses CPython would count
    # the parentheses into the tuple)
    t['Tuple'] = [_alt('', '', [_B1], mode='eval'), _alt('_[\n', '\n]', [_B1, ('slice', 1)], mode='eval')]
    t['Slice'] = [_alt('_[\n', '\n]', [_B1, ('slice', 1)], mode='eval')]
    # a Starred (and the arglike-only forms `*not a`) is an expression only as a call argument
    t['Starred'] = [_alt('_(\n', '\n)', [_B1, ('args', 1)], mode='eval')]
    for k in PATTERNS:
        t[k] = [_alt('match _:\n case ', ': pass', _CASE), _alt('match _:\n case (\n', '\n ): pass', _CASE)]
    t['MatchStar'] = [_alt('match _:\n case [\n', '\n ]: pass', _CASE + [('patterns', 1)])]
    for k in OPERATORS:
        t[k] = [_alt('_ ', ' _', [_B1, ('op', 1)], mode='eval'), _alt('_ ', ' _', [_B1, ('op', 1)])]
    for k in BOOLOPS:
        t[k] = [_alt('_ ', ' _', [_B1, ('op', 1)], mode='eval')]
    for k in UNARYOPS:
        t[k] = [_alt('', ' _', [_B1, ('op', 1)], mode='eval')]
    for k in CMPOPS:
        t[k] = [_alt('_ ', ' _', [_B1, ('ops', 1)], mode='eval')]
    t['arguments'] = [_alt('def _(\n', '\n): pass', [_B1, ('args', 1)]), _alt('lambda ', ': _', [_B1, ('args', 1)], mode='eval')]
    t['arg'] = [_alt('def _(\n', '\n): pass', [_B1, ('args', 1), ('args', 1)])]
    t['keyword'] = [_alt('_(\n', '\n)', [_B1, ('keywords', 1)], mode='eval')]
    t['alias'] = [_alt('from . import (\n', '\n)', [_B1, ('names', 1)]), _alt('from . import ', '', [_B1, ('names', 1)]),
                  _alt('import ', '', [_B1, ('names', 1)])]
    t['withitem'] = [_alt('with (\n', '\n): pass', [_B1, ('items', 1)]), _alt('with ', ': pass', [_B1, ('items', 1)])]
    t['comprehension'] = [_alt('[_ \n', '\n]', [_B1, ('generators', 1)], mode='eval')]
    t['ExceptHandler'] = [_alt('try: pass\n', '', [_B1, ('handlers', 1)])]
    t['match_case'] = [_alt('match _:\n', '', [_B1, ('cases', 1)], indent=1)]
    for k in TYPE_PARAMS:
        t[k] = [_alt('type _[\n', '\n] = _', [_B1, ('type_params', 1)])]
    # pfst's special slice containers: embedded in the construct they come from; path leads to that construct
    t['_ExceptHandlers'] = [_alt('try: pass\n', '', [_B1])]
    t['_match_cases'] = [_alt('match _:\n', '', [_B1], indent=1)]
    t['_Assign_targets'] = [_alt('', ' _', [_B1])]
    t['_decorator_list'] = [_alt('', '\ndef _(): pass', [_B1])]
    t['_arglikes'] = [_alt('_(\n', '\n)', [_B1], mode='eval')]
    t['_comprehensions'] = [_alt('[_ \n', '\n]', [_B1], mode='eval')]
    t['_comprehension_ifs'] = [_alt('[_ for _ in _ \n', '\n]', [_B1, ('generators', 1)], mode='eval')]
    t['_aliases'] = [_alt('from . import (\n', '\n)', [_B1]), _alt('from . import ', '', [_B1]), _alt('import ', '', [_B1])]
    t['_withitems'] = [_alt('with (\n', '\n): pass', [_B1]), _alt('with ', ': pass', [_B1])]
    t['_type_params'] = [_alt('type _[\n', '\n] = _', [_B1])]
    t['_pattern_attrlikes'] = [_alt('match _:\n case C(\n', '\n ): pass', _CASE)]
    return t


EMBED = _build()

# special slice containers: result field(s) -> field(s) of the embedding construct holding the same elements
SPECIAL = {
    '_ExceptHandlers': 'handlers', '_match_cases': 'cases', '_Assign_targets': 'targets',
    '_decorator_list': 'decorator_list', '_arglikes': 'arglikes', '_comprehensions': 'generators',
    '_comprehension_ifs': 'ifs', '_aliases': 'names', '_withitems': 'items', '_type_params': 'type_params',
    '_pattern_attrlikes': 'patterns',
}


def _string_continuation_lines(src: str) -> set:
    """0-based line numbers of `src` that start inside a multi-line string token (must not be indented)."""
    out = set()
    try:
        for t in tokenize.generate_tokens(io.StringIO(src).readline):
            if t.type in (tokenize.STRING, getattr(tokenize, 'FSTRING_MIDDLE', -1)) and t.end[0] > t.start[0]:
                out.update(range(t.start[0], t.end[0]))  # lines start[0]+1 .. end[0] (1-based) = start[0] .. end[0]-1 0-based
    except (tokenize.TokenError, IndentationError, SyntaxError):
        return None
    return out


def _walk_at(node, path):
    for st in path:
        v = getattr(node, st['n'], None)
        if isinstance(v, list):
            if not (1 <= st['i'] <= len(v)):
                return None
            node = v[st['i'] - 1]
        else:
            node = v
        if node is None:
            return None
    return node


def _unshift(node, dl, shift):
    for a in ast.walk(node):
        if hasattr(a, 'lineno') and a.lineno is not None:
            ln, eln = a.lineno, a.end_lineno
            a.col_offset -= shift.get(ln, 0)
            if a.end_col_offset is not None and eln is not None:
                a.end_col_offset -= shift.get(eln, 0)
                a.end_lineno = eln - dl
            a.lineno = ln - dl


def embed_parse(kind: str, src: str, table=None):
    """-> (alt index 1-based or 0, target node with positions shifted back or None, whole parse)."""
    alts = (table or EMBED).get(kind)
    if not alts:
        return 0, None, None
    for k, alt in enumerate(alts):
        lines = src.split('\n')
        ind = set()
        if alt['indent']:
            cont = _string_continuation_lines(src)
            if cont is None:
                continue
            ind = {i for i in range(len(lines)) if i not in cont}
            lines = [(' ' + l) if i in ind else l for i, l in enumerate(lines)]
        pre, post = alt['pre'], alt['post']
        text = pre + '\n'.join(lines) + post
        try:
            tree = ast.parse(text, mode=alt['mode'], type_comments=False)
        except (SyntaxError, ValueError, RecursionError, MemoryError):
            continue
        if alt['mode'] == 'exec' and alt['path'] and len(tree.body) != 1:
            continue
        node = _walk_at(tree, alt['path'])
        if node is None:
            continue
        dl = pre.count('\n')
        tail = len(pre) - (pre.rfind('\n') + 1)
        shift = {}
        for i in range(len(lines)):
            s = (tail if i == 0 else 0) + (1 if i in ind else 0)
            if s:
                shift[dl + i + 1] = s
        _unshift(node, dl, shift)
        return k + 1, node, tree
    return 0, None, None
