"""C04 history driver: the shared edit-history loop (harness/histories.py) with a *biased choice of targets*.

Requests are still planned, judged by the pure-AST oracle, executed and recorded by the shared driver's functions
(`edits.plan_edit / oracle / execute / make_event`); only the choice among planned requests differs: the shared planner
picks uniformly among all editable slots of the tree, which makes statement-level edits (where trivia, pep8space, elif_
and one-line blocks matter) and edits inside multi-line brackets (where comments sit between elements) rare.  Per step a
wish is drawn and up to `TRIES` plans are drawn until one fulfils it:
  0.35  statement-like field (body / orelse / finalbody / handlers / cases / _body)
  0.30  list-valued field of a container that is not a statement list and whose lines hold a comment
  0.35  anything
"""

from __future__ import annotations

import ast
import random

from . import edits
from .edits import FST
from .c04_tokens import STMTISH_FIELDS

TRIES = 14


def _wish_ok(wish, plan, tree, lines):
    if wish == 'any':
        return True
    stmtish = plan.field in STMTISH_FIELDS and plan.kind not in ('IfExp', 'Lambda')
    if wish == 'stmt':
        return stmtish
    if stmtish or plan.form == 'opt':
        return False
    try:
        node = edits.node_at(tree, plan.path)
    except (AttributeError, IndexError):
        return False
    a, b = getattr(node, 'lineno', 0), getattr(node, 'end_lineno', 0)
    return bool(a) and any('#' in ln for ln in lines[a - 1:b])


def run_history(rec: edits.Recorder, tid: int, seed: int, src: str, nsteps: int, hooks=None) -> dict:
    rng = random.Random(seed)
    root = FST(src, 'exec')
    trace = {'id': tid, 'seed': seed, 'init': rec.state(root), 'steps': []}
    script = []
    for _ in range(nsteps):
        r = rng.random()
        wish = 'stmt' if r < 0.35 else 'commented' if r < 0.65 else 'any'
        lines = root.lines
        plan = None
        for _try in range(TRIES):
            p = edits.plan_edit(rng, root.a)
            if p is None:
                continue
            plan = p
            if _wish_ok(wish, p, root.a, lines):
                break
        if plan is None:
            break
        pre_src = root.src
        pre_tree = edits.try_parse(pre_src)
        o = edits.oracle(plan, pre_src, rec.tab)
        if hooks and 'pre' in hooks:
            hooks['pre'](root, plan, o, rng)
        exc = edits.execute(plan, root, o, rng)
        post = rec.state(root)
        ev = edits.make_event(plan, o, exc, post, pre_tree)
        ev['hasClean'] = False
        ev['clean'] = {'outcome': '', 'text': 0}
        if hooks and 'post' in hooks:
            hooks['post'](root, plan, o, ev, pre_src)
        trace['steps'].append(ev)
        script.append({'pre_src': pre_src, 'plan': plan.describe(), 'post_src': root.src,
                       'exc': None if exc is None else f'{type(exc).__name__}: {exc}'})
        if not post['srcOk'] or post['srcP'] != post['liveP']:
            break  # the tree left the Sync domain (C01's business); judged, then stop
    trace['script'] = script
    return trace
