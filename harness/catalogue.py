"""Container catalogue: for every list-like (real or virtual) field a template with n distinguishable elements.

Used by the systematic (G) part of C03/C01: rows of the TLC-generated request table (spec/ContainersGen.tla) are
concretised on every template and replayed into pfst.
"""

from __future__ import annotations

import ast


class T:
    def __init__(self, name, kind, field, et, build, new, minlen=0, lo=0, path=None):
        self.name, self.kind, self.field, self.et = name, kind, field, et
        self.build, self.new, self.minlen, self.lo = build, new, minlen, lo
        self.path = path  # function(tree) -> path tuple; default: found by kind

    def source(self, n):
        return self.build(n)


def _names(n, p='e'):
    return [f'{p}{i}' for i in range(n)]


def _find(tree, kind, nth=0):
    """path to the nth node of class `kind` in a pre-order walk (pure AST)."""
    from .edits import walk_paths
    found = sorted((p for node, p in walk_paths(tree) if node.__class__.__name__ == kind), key=lambda p: (len(p), p))
    return found[nth]


def stmts(n, ind=''):
    return '\n'.join(f'{ind}e{i} = {i}' for i in range(n)) if n else f'{ind}pass'


TEMPLATES = [
    T('List.elts', 'List', 'elts', 'expr', lambda n: 'x = [' + ', '.join(_names(n)) + ']', lambda j: f'n{j}'),
    T('List.elts.ml', 'List', 'elts', 'expr',
      lambda n: 'x = [\n' + ''.join(f'    e{i},  # c{i}\n' for i in range(n)) + ']', lambda j: f'n{j}'),
    T('Tuple.elts', 'Tuple', 'elts', 'expr',
      lambda n: 'x = (' + ', '.join(_names(n)) + (',' if n == 1 else '') + ')', lambda j: f'n{j}'),
    T('Tuple.elts.naked', 'Tuple', 'elts', 'expr',
      lambda n: 'x = ' + ', '.join(_names(n)) + (',' if n == 1 else ''), lambda j: f'n{j}', minlen=1),
    T('Set.elts', 'Set', 'elts', 'expr', lambda n: 'x = {' + ', '.join(_names(n)) + '}', lambda j: f'n{j}', minlen=1),
    T('Delete.targets', 'Delete', 'targets', 'target', lambda n: 'del ' + ', '.join(_names(n)), lambda j: f'n{j}', minlen=1),
    T('Assign.targets', 'Assign', 'targets', 'target', lambda n: ''.join(f'e{i} = ' for i in range(n)) + 'v',
      lambda j: f'n{j}', minlen=1),
    T('Call.args', 'Call', 'args', 'expr', lambda n: 'f(' + ', '.join(_names(n)) + ')', lambda j: f'n{j}'),
    T('Call.keywords', 'Call', 'keywords', 'keyword', lambda n: 'f(' + ', '.join(f'k{i}=e{i}' for i in range(n)) + ')',
      lambda j: f'nk{j}=n{j}'),
    T('ClassDef.bases', 'ClassDef', 'bases', 'expr',
      lambda n: 'class C' + ('(' + ', '.join(_names(n)) + ')' if n else '') + ': pass', lambda j: f'n{j}'),
    T('decorator_list', 'FunctionDef', 'decorator_list', 'expr',
      lambda n: ''.join(f'@e{i}\n' for i in range(n)) + 'def f(): pass', lambda j: f'n{j}'),
    T('Module.body', 'Module', 'body', 'stmt', lambda n: stmts(n) if n else '', lambda j: f'n{j} = {j}'),
    T('If.body', 'If', 'body', 'stmt', lambda n: 'if c:\n' + stmts(n, '    '), lambda j: f'n{j} = {j}', minlen=1),
    T('If.orelse', 'If', 'orelse', 'stmt',
      lambda n: 'if c:\n    pass' + ('\nelse:\n' + stmts(n, '    ') if n else ''), lambda j: f'n{j} = {j}'),
    T('If.body.semi', 'If', 'body', 'stmt', lambda n: 'if c: ' + '; '.join(f'e{i} = {i}' for i in range(n)),
      lambda j: f'n{j} = {j}', minlen=1),
    T('Try.finalbody', 'Try', 'finalbody', 'stmt',
      lambda n: 'try:\n    pass\nexcept E:\n    pass' + ('\nfinally:\n' + stmts(n, '    ') if n else ''),
      lambda j: f'n{j} = {j}'),
    T('FunctionDef._body', 'FunctionDef', '_body', 'stmt',
      lambda n: 'def f():\n    """doc"""\n' + (stmts(n, '    ') if n else ''), lambda j: f'n{j} = {j}', lo=1),
    T('ClassDef._body.nodoc', 'ClassDef', '_body', 'stmt', lambda n: 'class C:\n' + stmts(n, '    '),
      lambda j: f'n{j} = {j}', minlen=1),
    T('Try.handlers', 'Try', 'handlers', 'excepthandler',
      lambda n: 'try:\n    pass\n' + ''.join(f'except E{i}:\n    pass\n' for i in range(n)) + ('' if n else 'finally:\n    pass\n'),
      lambda j: f'except N{j}: pass'),
    T('Match.cases', 'Match', 'cases', 'match_case',
      lambda n: 'match m:\n' + ''.join(f'    case {i}:\n        pass\n' for i in range(n)),
      lambda j: f'case 10{j}: pass', minlen=1),
    T('Import.names', 'Import', 'names', 'alias', lambda n: 'import ' + ', '.join(_names(n)), lambda j: f'n{j}', minlen=1),
    T('ImportFrom.names', 'ImportFrom', 'names', 'alias_from', lambda n: 'from m import ' + ', '.join(_names(n)),
      lambda j: f'n{j}', minlen=1),
    T('ImportFrom.names.par', 'ImportFrom', 'names', 'alias_from',
      lambda n: 'from m import (' + ', '.join(f'e{i} as a{i}' for i in range(n)) + ')', lambda j: f'n{j}', minlen=1),
    T('With.items', 'With', 'items', 'withitem', lambda n: 'with ' + ', '.join(f'e{i} as a{i}' for i in range(n)) + ': pass',
      lambda j: f'n{j} as na{j}', minlen=1),
    T('Global.names', 'Global', 'names', 'identifier', lambda n: 'def f():\n    global ' + ', '.join(_names(n)),
      lambda j: f'n{j}', minlen=1),
    T('BoolOp.values', 'BoolOp', 'values', 'expr', lambda n: 'x = ' + ' and '.join(_names(n)), lambda j: f'n{j}', minlen=2),
    T('comprehension.ifs', 'comprehension', 'ifs', 'expr',
      lambda n: 'x = [a for a in b' + ''.join(f' if e{i}' for i in range(n)) + ']', lambda j: f'n{j}'),
    T('generators', 'ListComp', 'generators', 'comprehension',
      lambda n: 'x = [a' + ''.join(f' for e{i} in s{i}' for i in range(n)) + ']', lambda j: f'for n{j} in ns{j}', minlen=1),
    T('MatchSequence.patterns', 'MatchSequence', 'patterns', 'pattern',
      lambda n: 'match m:\n    case [' + ', '.join(_names(n)) + ']: pass', lambda j: f'n{j}'),
    T('MatchOr.patterns', 'MatchOr', 'patterns', 'pattern',
      lambda n: 'match m:\n    case ' + ' | '.join(str(i) for i in range(n)) + ': pass', lambda j: f'10{j}', minlen=2),
    T('MatchClass.patterns', 'MatchClass', 'patterns', 'pattern',
      lambda n: 'match m:\n    case C(' + ', '.join(_names(n)) + '): pass', lambda j: f'n{j}'),
    T('type_params', 'FunctionDef', 'type_params', 'type_param',
      lambda n: 'def f' + ('[' + ', '.join(f'T{i}' for i in range(n)) + ']' if n else '') + '(): pass', lambda j: f'N{j}'),
    T('Dict._all', 'Dict', '_all', 'dictelt', lambda n: 'x = {' + ', '.join(f'k{i}: e{i}' for i in range(n)) + '}',
      lambda j: f'nk{j}: n{j}'),
    T('Call._args', 'Call', '_args', 'arglike', lambda n: 'f(' + ', '.join(_names(n)) + ')', lambda j: f'n{j}'),
    T('Call._args.mixed', 'Call', '_args', 'arglike',
      lambda n: 'f(' + ', '.join(['e0', 'k1=e1', '*e2', '**e3'][:n]) + ')', lambda j: f'nk{j}=n{j}'),
    T('ClassDef._bases', 'ClassDef', '_bases', 'arglike',
      lambda n: 'class C' + ('(' + ', '.join(['e0', 'k1=e1', '*e2', '**e3'][:n]) + ')' if n else '') + ': pass',
      lambda j: f'nk{j}=n{j}'),
    T('arguments._all', 'arguments', '_all', 'argelt', lambda n: 'def f(' + ', '.join(_names(n)) + '): pass',
      lambda j: f'n{j}'),
    T('arguments._all.defaults', 'arguments', '_all', 'argelt',
      lambda n: 'def f(' + ', '.join(f'e{i}={i}' for i in range(n)) + '): pass', lambda j: f'n{j}: int = {j}'),
    T('arguments._all.mixed', 'arguments', '_all', 'argelt',
      lambda n: 'def f(' + ', '.join((['e0', '/', 'e1=1', '*e2', 'e3', '**e4'] if n >= 2 else ['e0', '*e2', 'e3', '**e4'])
                                     [:n + (1 if n >= 2 else 0)]) + '): pass', lambda j: f'n{j}=0'),
    T('arguments._all.lambda', 'arguments', '_all', 'argelt',
      lambda n: 'x = lambda' + (' ' if n else '') + ', '.join(_names(n)) + ': 0', lambda j: f'n{j}'),
    T('MatchMapping._all', 'MatchMapping', '_all', 'mmapelt',
      lambda n: 'match m:\n    case {' + ', '.join(f'{i}: e{i}' for i in range(n)) + '}: pass', lambda j: f'10{j}: n{j}'),
    T('MatchMapping._all.rest', 'MatchMapping', '_all', 'mmapelt',
      lambda n: 'match m:\n    case {' + ', '.join([f'{i}: e{i}' for i in range(n - 1)] + (['**er'] if n else [])) + '}: pass',
      lambda j: '**nr' if j == 1 else f'10{j}: n{j}'),
    T('MatchClass._attrs', 'MatchClass', '_attrs', 'attrelt',
      lambda n: 'match m:\n    case C(' + ', '.join([f'e{i}' if i < 2 else f'k{i}=e{i}' for i in range(n)]) + '): pass',
      lambda j: f'nk{j}=n{j}'),
]

BY_NAME = {t.name: t for t in TEMPLATES}


def locate(t: T, src: str):
    tree = ast.parse(src)
    nth = 0
    if t.kind == 'Call' and t.field != 'func':
        nth = 0
    return _find(tree, t.kind, nth)
