"""C16 harness, direction (V): real programs.  Records (a) the CPython AST as a node table plus, per node, which
scope-restricted walks of pfst yielded it; (b) per symtable table matched to a scope node, CPython's rows, pfst's
scope_symbols() name sets and the stdlib facts that delimit the sandwich.  Observations and oracle facts only."""

from __future__ import annotations

import ast
import re
import symtable
import sys

from harness.c16_scope import IMPLICIT, borne_name, sym_flags, CATS

SKIP = (ast.expr_context, ast.operator, ast.boolop, ast.unaryop, ast.cmpop)
SCOPE_NODES = (ast.Module, ast.FunctionDef, ast.AsyncFunctionDef, ast.ClassDef, ast.Lambda, ast.ListComp, ast.SetComp,
               ast.DictComp, ast.GeneratorExp)
INLINED = (ast.ListComp, ast.SetComp, ast.DictComp)
MANGLED = re.compile(r'^(__.*(?<!__)|_\w*?__\w+)$')  # NoMangled: private names (before or after class mangling) are not judged


def node_table(tree):
    """Preorder node table of an AST object graph (ctx / operator nodes left out). Returns (nodes, order) where order
    is the list of AST objects by index-1."""
    nodes, order = [], []
    stack = [(tree, 0, '', 0)]
    while stack:
        a, p, f, i = stack.pop()
        nodes.append({'k': a.__class__.__name__, 'p': p, 'f': f, 'i': i})
        order.append(a)
        idx = len(nodes)
        kids = []
        for name, val in ast.iter_fields(a):
            if isinstance(val, ast.AST):
                if not isinstance(val, SKIP):
                    kids.append((val, idx, name, 0))
            elif isinstance(val, list):
                for j, x in enumerate(val, 1):
                    if isinstance(x, ast.AST) and not isinstance(x, SKIP):
                        kids.append((x, idx, name, j))
        stack.extend(reversed(kids))
    return nodes, order


def idents(a) -> set:
    return {n for x in ast.walk(a) if (n := borne_name(x)) or
            (isinstance(x, (ast.Global, ast.Nonlocal)) and False)} | \
           {nm for x in ast.walk(a) if isinstance(x, (ast.Global, ast.Nonlocal)) for nm in x.names}


def kind_label(x, parents=None, top=None) -> str:
    """Syntactic label of an identifier occurrence (only used to class violations): node class, plus for a Name its
    context, `@iter1.<Class>` when it sits inside (and is not) the leftmost iterable of a comprehension, and
    `@walrus<Scope<Scope` (scope nodes between it and `top`) when it is a walrus target."""
    if not isinstance(x, ast.Name):
        return x.__class__.__name__
    lab = 'Name.' + x.ctx.__class__.__name__
    if parents is None:
        return lab
    p = parents.get(id(x))
    if isinstance(p, ast.NamedExpr) and p.target is x:
        chain, q = [], p
        while q is not None and q is not top:
            if isinstance(q, SCOPE_NODES):
                chain.append(q.__class__.__name__)
            q = parents.get(id(q))
        return lab + '@walrus' + ''.join('<' + c for c in chain)
    c, q = x, p
    while q is not None and q is not top:
        if isinstance(q, ast.comprehension):
            comp = parents.get(id(q))
            if q.iter is c and comp is not None and comp.generators[0] is q and c is not x:
                return lab + '@iter1.' + c.__class__.__name__
        if isinstance(q, SCOPE_NODES) and not isinstance(q, (ast.ListComp, ast.SetComp, ast.DictComp, ast.GeneratorExp)):
            break
        c, q = q, parents.get(id(q))
    return lab


def shallow_walk(a):
    """Nodes under scope node `a` without the bodies / parameters of nested functions and classes (their
    decorators, defaults, annotations, bases are kept).  Used for the violation labels only."""
    stack = [a]
    first = True
    while stack:
        x = stack.pop()
        yield x
        if not first and isinstance(x, (ast.FunctionDef, ast.AsyncFunctionDef)):
            kids = x.decorator_list + x.args.defaults + [d for d in x.args.kw_defaults if d] + \
                [y.annotation for y in ast.walk(x.args) if isinstance(y, ast.arg) and y.annotation] + \
                ([x.returns] if x.returns else [])
        elif not first and isinstance(x, ast.ClassDef):
            kids = x.decorator_list + x.bases + x.keywords
        else:
            kids = list(ast.iter_child_nodes(x))
        first = False
        stack.extend(kids)


def record_corpus(src: str, FST, back: bool = False) -> list | None:
    """Steps of one (V) trace for program `src`; None if the program does not compile."""
    try:
        tree = ast.parse(src)
        top = symtable.symtable(src, '<c16>', 'exec')
    except (SyntaxError, ValueError, RecursionError):
        return None
    nodes, order = node_table(tree)
    root = FST(src, 'exec')
    pnodes, porder = node_table(root.a)
    if [n['k'] for n in nodes] != [n['k'] for n in pnodes]:
        return [{'u': 'ast', 'nodes': [], 'yb': [], 'shape': False}]
    pidx = {id(a): i for i, a in enumerate(porder, 1)}
    parents = {}
    for a in order:
        for c in ast.iter_child_nodes(a):
            parents[id(c)] = a
    yb = [[] for _ in nodes]
    scope_idx = [i for i, a in enumerate(order, 1) if isinstance(a, SCOPE_NODES)]
    for s in scope_idx:
        f = porder[s - 1].f
        seen = set()
        for g in f.walk(True, scope=True, back=back):
            a = g.a
            if isinstance(a, SKIP):
                continue
            j = pidx.get(id(a), 0)
            if j and j not in seen:
                seen.add(j)
                yb[j - 1].append(s)
    steps = [{'u': 'ast', 'nodes': nodes, 'yb': yb, 'shape': True}]

    # ---- tables ------------------------------------------------------------------------------------------------------
    future = any(isinstance(s, ast.ImportFrom) and s.module == '__future__' and any(al.name == 'annotations' for al in s.names)
                 for s in tree.body)
    cands = {}
    for i, a in enumerate(order, 1):
        if isinstance(a, ast.Module):
            key = ('module', 'top', 0)
        elif isinstance(a, (ast.FunctionDef, ast.AsyncFunctionDef)):
            key = ('function', a.name, a.lineno)
        elif isinstance(a, ast.ClassDef):
            key = ('class', a.name, a.lineno)
        elif isinstance(a, ast.Lambda):
            key = ('function', 'lambda', a.lineno)
        elif isinstance(a, ast.GeneratorExp):
            key = ('function', 'genexpr', a.lineno)
        else:
            continue
        cands.setdefault(key, []).append(i)
    tabs = {}

    def rec(t):
        typ = t.get_type()
        typ = getattr(typ, 'value', typ)
        tabs.setdefault((typ, t.get_name(), t.get_lineno() if typ != 'module' else 0), []).append(t)
        for c in t.get_children():
            rec(c)

    rec(top)
    for key, ts in tabs.items():
        idxs = cands.get(key, [])
        if len(ts) != 1 or len(idxs) != 1:
            continue  # ambiguous (two lambdas on a line) or not a node scope (annotation scopes): not judged
        t, i = ts[0], idxs[0]
        a = order[i - 1]
        f = porder[i - 1].f
        rows = [{'n': s.get_name(), 'f': sym_flags(s)} for s in t.get_symbols()
                if not IMPLICIT.match(s.get_name()) and not MANGLED.match(s.get_name()) and s.get_name().isascii()]
        compn, aug, fold, ann, rw, kinds = set(), set(), set(), set(), set(), {}
        for x in ast.walk(a):
            if isinstance(x, INLINED):
                compn |= idents(x)
            elif isinstance(x, ast.AugAssign) and isinstance(x.target, ast.Name):
                aug.add(x.target.id)
            elif isinstance(x, (ast.FunctionDef, ast.AsyncFunctionDef, ast.ClassDef)) and getattr(x, 'type_params', None):
                parts = list(x.type_params)
                if isinstance(x, ast.ClassDef):
                    parts += x.bases + x.keywords
                else:
                    parts += [y.annotation for y in ast.walk(x.args) if isinstance(y, ast.arg) and y.annotation]
                    if x.returns:
                        parts.append(x.returns)
                for y in parts:
                    fold |= idents(y)
            elif isinstance(x, ast.TypeAlias):
                fold |= idents(x)
            if future:
                if isinstance(x, ast.arg) and x.annotation:
                    ann |= idents(x.annotation)
                elif isinstance(x, (ast.FunctionDef, ast.AsyncFunctionDef)) and x.returns:
                    ann |= idents(x.returns)
                elif isinstance(x, ast.AnnAssign):
                    ann |= idents(x.annotation)
            if isinstance(a, ast.GeneratorExp) and isinstance(x, ast.NamedExpr) and isinstance(x.target, ast.Name):
                rw.add(x.target.id)
        for x in shallow_walk(a):
            if x is a and not isinstance(a, ast.Module):
                continue
            nm = borne_name(x)
            if nm:
                kinds.setdefault(nm, set()).add(kind_label(x, parents, a))
            elif isinstance(x, (ast.Global, ast.Nonlocal)):
                for nm in x.names:
                    kinds.setdefault(nm, set()).add(kind_label(x))
        tpn = [tp.name for tp in getattr(a, 'type_params', [])] if not isinstance(a, (ast.Module, ast.Lambda,
                                                                                     ast.GeneratorExp)) else []
        tpn += [tp.name for x in ast.walk(a) if isinstance(x, ast.TypeAlias) for tp in x.type_params]
        ss = f.scope_symbols(full=True)
        pf = {cat: sorted(n for n in ss.get(cat, {}) if n.isascii() and not MANGLED.match(n) and not IMPLICIT.match(n))
              for cat in CATS}
        kind = {'Module': 'module', 'ClassDef': 'class', 'Lambda': 'lambda', 'GeneratorExp': 'genexpr'}.get(
            a.__class__.__name__, 'function')
        asc = lambda s: sorted(n for n in s if n.isascii())  # noqa: E731
        steps.append({'u': 'tab', 'kind': kind, 'node': i, 'line': getattr(a, 'lineno', 0), 'rows': rows,
                      'compn': asc(compn), 'aug': asc(aug), 'fold': asc(fold), 'ann': asc(ann), 'rw': asc(rw),
                      'tpn': asc(tpn), 'pf': pf,
                      'kinds': [{'n': n, 'k': '+'.join(sorted(ks))} for n, ks in sorted(kinds.items()) if n.isascii()]})
    return steps
