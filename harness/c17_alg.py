"""C17, pattern algebra: concretisation of the terms of spec/SearchAlg.tla into real pfst patterns, node facts from the
standard library, and recording of pfst's match()/search() answers.  Observations and oracle facts only - the clauses
MatchIsDenotation / SearchIsDenotedFilter are evaluated by TLC in spec/SearchAlgTrace.tla.
"""

from __future__ import annotations

import ast
import json
import os
import random
import re
import tempfile
from concurrent.futures import ThreadPoolExecutor

from harness import tlc
from harness.c17_quant import time_limit
from harness.c17_match import ast_nodes, by_path, fst_path

# Every class used by a type test or a field check occurs with a node passing and a node failing each check; no statement or
# unpositioned node (arguments, operators, ...) has the source text `x.y` besides the Attribute x.y itself.
TREES = [
    'def f(a, b=1):\n    x = [1, a, x.y, x.z]\n    x.w = y\n    return g(x, y, "s", 2) + h(1)\n',
    'x.z = h(a, k=x)[1] + 2\nfor y in g(): x, y.y = y, 1\nz = lambda a, *b: (x.y, 1, b)\n',
    'class C(x):\n    def m(self, a): return [x.y for x in g(a) if x != 1 or y.z]\nr = g(x)(a=1) if h() else {2: x.y, **y}\ndel x, x.y\n',
]


def expr_leaves():
    """leaf classes of ast.expr: its direct subclasses (a fact about the ast module; Num/Str/... below Constant are aliases)"""
    return sorted(c.__name__ for c in ast.expr.__subclasses__())


CHECKS = {
    'nameX': lambda n: isinstance(n, ast.Name) and n.id == 'x',
    'const1': lambda n: isinstance(n, ast.Constant) and type(n.value) is int and n.value == 1,
    'attrY': lambda n: isinstance(n, ast.Attribute) and n.attr == 'y',
    'argA': lambda n: isinstance(n, ast.arg) and n.arg == 'a',
    'callG': lambda n: isinstance(n, ast.Call) and isinstance(n.func, ast.Name) and n.func.id == 'g',
    'loadNA': lambda n: isinstance(n, (ast.Name, ast.Attribute)) and isinstance(n.ctx, ast.Load),
    'loadN': lambda n: isinstance(n, ast.Name) and isinstance(n.ctx, ast.Load),
}


def tree_facts(src):
    """[{ty, hits, src}] per node of the pure AST (DFS numbering by child path), standard library only"""
    tree = ast.parse(src)
    nodes = ast_nodes(tree)
    facts = []
    for path, n, par in nodes:
        seg = ''
        if hasattr(n, 'lineno') and not isinstance(n, ast.stmt):
            seg = ast.get_source_segment(src, n) or ''
        facts.append({'ty': type(n).__name__, 'hits': [c for c, f in CHECKS.items() if f(n)], 'src': seg if seg.isascii() else '?'})
    return nodes, facts


def self_check_trees():
    """every check has a passing and a failing node of each of its classes in every tree (vacuity guard of the corpus)"""
    need = {'nameX': ['Name'], 'const1': ['Constant'], 'attrY': ['Attribute'], 'argA': ['arg'], 'callG': ['Call'],
            'loadNA': ['Name', 'Attribute'], 'loadN': ['Name']}
    for src in TREES:
        _, facts = tree_facts(src)
        for c, tys in need.items():
            for ty in tys:
                hit = any(f['ty'] == ty and c in f['hits'] for f in facts)
                miss = any(f['ty'] == ty and c not in f['hits'] for f in facts)
                if not (hit and miss):
                    raise AssertionError(f'tree lacks a passing/failing {ty} for {c}: {src!r}')


# ----------------------------------------------------------------------------------------------------------------------
def concretise(fm, t, rng, tags):
    """a real pattern for the term t (JSON from TLC); equivalent spellings are chosen at random"""
    k = t['k']
    if k == 'T':
        ts = t['ts']
        if len(ts) == 1:
            cls, mcls = getattr(ast, ts[0]), getattr(fm, 'M' + ts[0])
            cands = [cls, mcls, fm.MTYPES((cls,)), fm.MTYPES((mcls,))]
            try:
                cands.append(mcls())  # an MAST instance without fields is a pure type test too (where the class allows it)
            except TypeError:
                pass
            return rng.choice(cands)
        cl = [getattr(ast, x) if rng.random() < 0.5 else getattr(fm, 'M' + x) for x in ts]
        rng.shuffle(cl)
        return fm.MTYPES(tuple(cl))
    if k == 'F':
        c = t['c']
        if c == 'nameX':
            return rng.choice([fm.MName('x'), fm.MName(id='x'), ast.Name(id='x'), fm.MTYPES((ast.Name,), id='x'), fm.MName(id=fm.M('x'))])
        if c == 'const1':
            return rng.choice([fm.MConstant(1), ast.Constant(value=1), fm.MConstant(value=1), fm.MTYPES((fm.MConstant,), value=1)])
        if c == 'attrY':
            return rng.choice([fm.MAttribute(attr='y'), fm.MAttribute(..., 'y'), fm.MTYPES((ast.Attribute,), attr='y')])
        if c == 'argA':
            return rng.choice([fm.Marg('a'), fm.Marg(arg='a'), ast.arg(arg='a', annotation=...)])
        if c == 'callG':
            return rng.choice([fm.MCall(func=fm.MName('g')), fm.MCall(fm.MName(id='g')), fm.MCall(func=ast.Name(id='g'))])
        if c == 'loadNA':
            return fm.MTYPES((ast.Name, ast.Attribute), ctx=rng.choice([ast.Load, fm.MLoad]))
        if c == 'loadN':
            return rng.choice([fm.MName(ctx=ast.Load), fm.MTYPES((ast.Name,), ctx=fm.MLoad)])
        raise ValueError(c)
    if k == 'W':
        return ...
    if k == 'CB':
        inner = t['args'][0]
        if inner['k'] == 'F':
            f = CHECKS[inner['c']]
        else:
            names = tuple(inner['ts'])
            f = lambda n, _names=names: type(n).__name__ in _names  # noqa: E731
        return fm.MCB(lambda n, _f=f: _f(getattr(n, 'a', n)))
    if k == 'SRC':
        return t['s']
    if k == 'RE':
        return rng.choice([re.compile(re.escape(t['s']) + r'\Z'), fm.MRE(re.escape(t['s']) + '$')])
    args = [concretise(fm, a, rng, tags) for a in t['args']]
    if k == 'M':
        r = rng.random()
        tags[0] += 1
        if r < 0.4:
            return fm.M(**{f't{tags[0]}': args[0]})
        if r < 0.7:
            return fm.M(args[0], **{f's{tags[0]}': True})
        return fm.M(args[0])
    if k == 'NOT':
        tags[0] += 1
        return fm.MNOT(args[0]) if rng.random() < 0.7 else fm.MNOT(**{f'n{tags[0]}': args[0]})
    cls = fm.MOR if k == 'OR' else fm.MAND
    if rng.random() < 0.3:
        tags[0] += 1
        return cls(*args[:-1], **{f'o{tags[0]}': args[-1]})
    return cls(*args)


_W = {}


def _init(seed, ntrees=3):
    import fst.match as fm
    from fst import FST
    _W['fm'] = fm
    _W['seed'] = seed
    _W['ntrees'] = ntrees
    _W['trees'] = []
    for src in TREES:
        nodes, _ = tree_facts(src)
        ids = {p: i + 1 for i, (p, n, par) in enumerate(nodes)}
        _W['trees'].append((FST(src, 'exec'), ids))


def _steps(rows):
    fm = _W['fm']
    out = []
    for row in rows:
        tid = row['id']
        rng = random.Random(hash((tuple(tid), _W['seed'])))
        which = sorted(rng.sample(range(len(_W['trees'])), min(_W['ntrees'], len(_W['trees']))))
        for k in which:
            root, ids = _W['trees'][k]
            st = {'id': tid, 'tree': k + 1, 'walk': [], 'acc': [], 'found': [], 'exc': ''}
            try:
                pat = concretise(fm, row['term'], rng, [0])
                kw = {'back': rng.random() < 0.25, 'on': rng.choice(['enter', 'enter', 'leave'])}
                with time_limit(60):
                    st['found'] = [ids[fst_path(m.matched)] for m in root.search(pat, **kw)]
                    for f in root.walk(True, **kw):
                        st['walk'].append(ids[fst_path(f)])
                        st['acc'].append((f.match(pat) if rng.random() < 0.5 or not hasattr(pat, 'match') or isinstance(pat, (type, re.Pattern))
                                          else pat.match(f)) is not None)
            except Exception as ex:  # noqa: BLE001 - an observation, judged by TLC (NoException)
                st['exc'] = ascii(f'{type(ex).__name__}: {ex}')[1:-1][:160].replace('\\', '/').replace('"', "'")
            out.append(st)
    return out


def gen_terms(jobs, nproc=16, timeout=600, heap='1500m'):
    d = tempfile.mkdtemp(prefix='c17alg-', dir=tlc.scratch())

    def one(k):
        pin, pout = os.path.join(d, f'in{k}.json'), os.path.join(d, f'out{k}.json')
        with open(pin, 'w') as f:
            json.dump(jobs[k], f)
        r = tlc.run_model('SearchAlgGen', 'SearchAlgGen', workers=1, timeout=timeout, heap=heap, env={'ALG_IN': pin, 'ALG_OUT': pout})
        if r['violated']:
            raise tlc.TLCError('SearchAlgGen: ' + str(r['violated']) + r['out'][-1500:])
        with open(pout) as f:
            out = json.load(f)
        os.unlink(pout)
        return out

    rows, asked, consts = [], 0, set()
    with ThreadPoolExecutor(max_workers=nproc) as ex:
        for out in ex.map(one, range(len(jobs))):
            rows += out['rows']
            asked += out['asked']
            consts.add((out['na'], out['nmembers'], out['nctx']))
    return rows, {'asked': asked, 'rows': len(rows), 'consts': sorted(consts)}


def replay_terms(rows, seed, nproc=16, chunk=60, ntrees=3):
    import multiprocessing as mp
    chunks = [rows[i:i + chunk] for i in range(0, len(rows), chunk)]
    if nproc <= 1 or len(chunks) <= 1:
        _init(seed, ntrees)
        return [s for ch in chunks for s in _steps(ch)]
    with mp.get_context('fork').Pool(nproc, initializer=_init, initargs=(seed, ntrees)) as pool:
        res = pool.map(_steps, chunks)
    return [s for ch in res for s in ch]


def batch_tables():
    return {'trees': [{'nodes': tree_facts(src)[1]} for src in TREES], 'exprs': expr_leaves()}
