"""Drivers for C07 (copy / get / get_slice / cut) and C08 (round trips, own_src, docstring / line-comment accessors).

Only *observations* of the real pfst and *oracle facts* from the standard library (ast, tokenize) are recorded here;
every verdict is computed by TLC from spec/ExtractTrace.tla.  Every operation runs on a fresh clone of the program
(`FST(src, 'exec')`), so events are independent; the pre-state of an event flagged `fresh` is the trace's init state.
"""

from __future__ import annotations

import ast
import collections
import io
import random
import tokenize

from fst import FST  # implementation under test

from . import grammar
from .c07_embed import EMBED, SPECIAL, embed_parse
from .proj import Tables, try_parse

DOCSTR_KINDS = ('Module', 'FunctionDef', 'AsyncFunctionDef', 'ClassDef')
STMTISH = set(grammar.FIELDS) and {k for k in grammar.FIELDS if isinstance(getattr(ast, k, None), type) and
                                   issubclass(getattr(ast, k), (ast.stmt, ast.excepthandler, ast.match_case))}
OPKINDS = {k for k in grammar.FIELDS if isinstance(getattr(ast, k, None), type) and
           issubclass(getattr(ast, k), (ast.operator, ast.boolop, ast.unaryop, ast.cmpop))}

# real list fields that pfst only edits / slices through a virtual field (RealFieldEditable = FALSE, DESIGN 4-C03)
VIRTUAL_ONLY = {('Dict', 'keys'), ('Dict', 'values'), ('arguments', 'posonlyargs'), ('arguments', 'args'),
                ('arguments', 'defaults'), ('arguments', 'kwonlyargs'), ('arguments', 'kw_defaults'),
                ('MatchMapping', 'keys'), ('MatchMapping', 'patterns'), ('Compare', 'ops'), ('Compare', 'comparators'),
                ('MatchClass', 'kwd_attrs'), ('MatchClass', 'kwd_patterns'), ('JoinedStr', 'values'),
                ('Module', 'type_ignores')}

OPTION_POOL = [
    {}, {}, {'trivia': False}, {'trivia': 'all'}, {'trivia': ('all', 'all')}, {'trivia': ('block', 'block')},
    {'trivia': ()}, {'trivia': ('all+1', 'all-1')}, {'trivia': (False, 'line')}, {'trivia': ('block', False)},
    {'trivia': 'block+'}, {'trivia': ('none', 'all+')},
    {'pars': True}, {'pars': False}, {'pars': 'auto'}, {'pars': True, 'trivia': 'all'},
    {'norm': True}, {'norm_get': True}, {'norm_self': True}, {'norm': True, 'pars': True},
    {'docstr': False}, {'docstr': 'strict'}, {'docstr': True}, {'docstr': False, 'trivia': ('all', 'all')},
    {'pars_walrus': True}, {'pars_walrus': None}, {'pars_arglike': False}, {'pars_arglike': None},
    {'pars_arglike': False, 'pars': False}, {'pars_walrus': True, 'pars': True, 'norm': True},
]


def opts_json(o: dict) -> dict:
    norm = o.get('norm', False)
    ng = o.get('norm_get', None)
    ns = o.get('norm_self', None)
    ds = o.get('docstr', True)
    pa = o.get('pars', 'auto')
    pal = o.get('pars_arglike', True)
    if pal is None:
        pal = pa is not False
    return {'pars': str(pa), 'normGet': bool(norm if ng is None else ng), 'normSelf': bool(norm if ns is None else ns),
            'docstr': 'strict' if ds == 'strict' else ('all' if ds else 'none'),
            'parsArglike': bool(pal), 'all': repr(sorted(o.items()))}


# ----------------------------------------------------------------------------------------------------------------------
# enumeration from CPython's own parse (never from pfst)

def _fstring_fields(js, path):
    """(expression node, path) of every replacement field of the f-string `js`, including the fields nested in format
    specs.  The FormattedValue wrappers, the literal text parts and the format-spec JoinedStr are not pieces of their own
    (own_src() documents their text as not parsable on its own); what they hold is context."""
    for i, v in enumerate(js.values):
        if isinstance(v, ast.FormattedValue):
            yield v.value, path + (('values', i), ('value', None))
            if isinstance(v.format_spec, ast.JoinedStr):
                yield from _fstring_fields(v.format_spec, path + (('values', i), ('format_spec', None)))


def walk_paths(tree):
    """(node, path) for every AST node under `tree`, including the expressions inside f-string replacement fields (and
    everything below them, nested f-strings too); no expr_context nodes."""
    stack = [(tree, ())]
    while stack:
        node, path = stack.pop()
        yield node, path
        if isinstance(node, ast.JoinedStr):
            stack.extend(_fstring_fields(node, path))
            continue
        for name in node._fields:
            v = getattr(node, name, None)
            if isinstance(v, ast.AST):
                if not isinstance(v, (ast.Load, ast.Store, ast.Del)):
                    stack.append((v, path + ((name, None),)))
            elif isinstance(v, list):
                for i, e in enumerate(v):
                    if isinstance(e, ast.AST):
                        stack.append((e, path + ((name, i),)))


def path_json(path):
    return [{'n': f, 'i': (1 if i is None else i + 1)} for f, i in path]


def fst_at(root, path):
    f = root
    for fl, i in path:
        f = getattr(f, fl)
        if i is not None:
            f = f[i]
    return f


def has_docstr(node):
    b = getattr(node, 'body', None)
    return bool(type(node).__name__ in DOCSTR_KINDS and b and isinstance(b[0], ast.Expr)
                and isinstance(b[0].value, ast.Constant) and isinstance(b[0].value.value, str))


def list_fields(node):
    """[(field, n elements)] of every list-like field (real and virtual) of `node` that pfst slices."""
    kind = type(node).__name__
    out = []
    for fname, ftype, q in grammar.FIELDS.get(kind, ()):
        if q == '*' and (kind, fname) not in VIRTUAL_ONLY:
            out.append((fname, len(getattr(node, fname))))
    if kind == 'Dict':
        out.append(('_all', len(node.keys)))
    elif kind == 'MatchMapping':
        out.append(('_all', len(node.keys) + (node.rest is not None)))
    elif kind == 'Compare':
        out.append(('_all', 1 + len(node.comparators)))
    elif kind == 'arguments':
        out.append(('_all', len(node.posonlyargs) + len(node.args) + (node.vararg is not None) + len(node.kwonlyargs)
                    + (node.kwarg is not None)))
    elif kind == 'Call':
        out.append(('_args', len(node.args) + len(node.keywords)))
    elif kind == 'ClassDef':
        out.append(('_bases', len(node.bases) + len(node.keywords)))
    elif kind == 'MatchClass':
        out.append(('_attrs', len(node.patterns) + len(node.kwd_attrs)))
    if kind in DOCSTR_KINDS:
        out.append(('_body', len(node.body) - (1 if has_docstr(node) else 0)))
    return out


# ----------------------------------------------------------------------------------------------------------------------
# tokens (oracle: tokenize)

_ALNUM_OK = set(range(32, 127))


_ROWS_CACHE = {}


def _tok_rows(src: str):
    r = _ROWS_CACHE.get(src, 0)
    if r == 0:
        if len(_ROWS_CACHE) > 64:
            _ROWS_CACHE.clear()
        r = _ROWS_CACHE[src] = _tok_rows_uncached(src)
    return r


def _tok_rows_uncached(src: str):
    try:
        toks = list(tokenize.generate_tokens(io.StringIO(src).readline))
    except (tokenize.TokenError, IndentationError, SyntaxError):
        return None
    rows = []
    for t in toks:
        typ = tokenize.tok_name[t.exact_type if t.type == tokenize.OP else t.type]
        rows.append((typ, t.string, t.start, t.end))
    return rows


class Recorder:
    def __init__(self):
        self.tab = Tables()
        self._tok = {}
        self.ktab = []  # token table: {"t": type, "s": printable-ASCII text or "?", "m": canonical id}
        self._keep = []
        self._parse_cache = {}
        self._bag_cache = {}

    # -- tokens ----------------------------------------------------------------------------------------------------------
    def tok_id(self, typ: str, s: str) -> int:
        key = (typ, s)
        i = self._tok.get(key)
        if i is None:
            shown = s if (len(s) <= 40 and all(ord(c) in _ALNUM_OK for c in s) and '"' not in s and '\\' not in s) else '?'
            self.ktab.append({'t': typ, 's': shown, 'm': 0})
            i = self._tok[key] = len(self.ktab)
            m = i
            if typ in ('STRING', 'FSTRING_MIDDLE') and '\n' in s:
                # canonical form of a multi-line string token: continuation lines without their leading blanks
                ls = s.split('\n')
                canon = '\n'.join([ls[0]] + [x.lstrip(' \t') for x in ls[1:]])
                if canon != s:
                    m = self.tok_id(typ, canon)
            self.ktab[i - 1]['m'] = m
        return i

    def bag(self, src: str):
        """Counter {canonical token id: count} of `src`, or None when `src` does not tokenise."""
        b = self._bag_cache.get(src)
        if b is None and src not in self._bag_cache:
            rows = _tok_rows(src)
            if rows is None:
                b = None
            else:
                b = collections.Counter()
                for typ, s, _, _ in rows:
                    b[self.ktab[self.tok_id(typ, s) - 1]['m']] += 1
            if len(self._bag_cache) > 4000:
                self._bag_cache.clear()
            self._bag_cache[src] = b
        return b

    def bag_json(self, src: str, base_ids):
        """Bag of `src` as a count vector aligned with `base_ids` plus [id, count] pairs for the other ids."""
        b = self.bag(src)
        if b is None:
            return {'ok': False, 'v': [], 'x': []}
        bs = set(base_ids)
        return {'ok': True, 'v': [b.get(i, 0) for i in base_ids], 'x': [[i, c] for i, c in sorted(b.items()) if i not in bs]}

    # -- trees ----------------------------------------------------------------------------------------------------------
    def root_serial(self, root) -> int:
        self._keep.append(root)
        return len(self._keep)

    def parse_ids(self, src: str):
        r = self._parse_cache.get(src)
        if r is None:
            t = try_parse(src)
            r = (False, 0, 0) if t is None else (True,) + self.tab.node(t)
            if len(self._parse_cache) > 2000:
                self._parse_cache.clear()
            self._parse_cache[src] = r
        return r

    def state(self, root, serial=None) -> dict:
        src = root.src
        ls, lp = self.tab.node(root.a)
        ok, ss, sp = self.parse_ids(src)
        return {'rootObj': serial if serial is not None else self.root_serial(root), 'liveS': ls, 'liveP': lp,
                'srcOk': ok, 'srcS': ss, 'srcP': sp, 'text': self.tab.text(src)}

    def piece(self, res) -> dict:
        """Projection of an extracted piece: its own tree, its own source, and CPython's parse of that source through the
        embedding of its kind."""
        if not isinstance(res, FST):
            return {'isFst': False, 'isRoot': False, 'kind': type(res).__name__, 'text': 0, 'liveS': 0, 'liveP': 0,
                    'alt': 0, 'embS': 0, 'embP': 0, 'blank': False, 'src': repr(res)[:200]}
        kind = type(res.a).__name__
        src = res.src
        ls, lp = self.tab.node(res.a)
        alt, node, _ = embed_parse(kind, src)
        es = ep = 0
        if alt:
            es, ep = self.tab.node(node)
        rows = _tok_rows(src)
        blank = rows is not None and all(t in ('NL', 'NEWLINE', 'COMMENT', 'ENDMARKER', 'INDENT', 'DEDENT') for t, _, _, _ in rows)
        return {'isFst': True, 'isRoot': bool(res.is_root) and res.parent is None, 'kind': kind,
                'text': self.tab.text(src), 'liveS': ls, 'liveP': lp, 'alt': alt, 'embS': es, 'embP': ep, 'blank': blank,
                'src': src}

    def dump(self) -> dict:
        # dmap: sid of every multi-line string value -> id of its text (lines of code points); appended last so that
        # the new ttab entries exist when the tables are serialised
        stab = self.tab.stab
        dmap = [0] * len(stab)
        for i, ent in enumerate(stab):
            v = ent['v']
            if ent['k'] == '#' and v[:1] == 's' and '\\n' in v:
                try:
                    val = ast.literal_eval(v[1:])
                except (ValueError, SyntaxError):
                    continue
                if isinstance(val, str) and '\n' in val:
                    dmap[i] = self.tab.text(val)
        d = self.tab.dump()
        d['ktab'] = self.ktab
        d['dmap'] = dmap
        return d


NOPIECE = {'isFst': False, 'isRoot': False, 'kind': '', 'text': 0, 'liveS': 0, 'liveP': 0, 'alt': 0, 'embS': 0, 'embP': 0,
           'blank': False, 'src': ''}


def in_debug_field(src: str, tree, path) -> bool:
    """Oracle fact: the node at `path` lies inside a self-documenting replacement field (`{expr = }`), whose literal
    text is the expression's *source text* (so it follows the formatting of whatever is put there)."""
    n = tree
    for f, i in path:
        if isinstance(n, ast.FormattedValue) and f == 'value':
            seg = ast.get_source_segment(src, n) or ''
            ex = ast.get_source_segment(src, n.value) or ''
            body = seg[1:].lstrip()
            if ex and body.startswith(ex):
                rest = body[len(ex):].lstrip()
                if rest.startswith('=') and not rest.startswith('=='):
                    return True
        n = getattr(n, f, None)
        if i is not None and isinstance(n, list):
            n = n[i] if i < len(n) else None
        if n is None:
            return False
    return False


def block_indent(src: str, elems) -> int:
    """Oracle fact: number of leading blanks of the line on which the first of `elems` starts (block indent width)."""
    for n in elems or ():
        ln = getattr(n, 'lineno', None)
        if ln is None:
            continue
        decos = getattr(n, 'decorator_list', None)
        if decos:
            ln = min(ln, decos[0].lineno)
        line = src.split('\n')[ln - 1]
        return len(line) - len(line.lstrip(' \t'))
    return 0


def block_indent_at(src: str, path, fallback: int) -> int:
    """Block indent width of the node at `path` in CPython's parse of `src` (the place a piece was put back to)."""
    t = try_parse(src)
    if t is None:
        return fallback
    n = t
    try:
        for f, i in path:
            n = getattr(n, f)
            if i is not None:
                n = n[i]
    except (AttributeError, IndexError, TypeError):
        return fallback
    if isinstance(n, list):
        n = n[0] if n else None
    return block_indent(src, [n]) if isinstance(n, ast.AST) else fallback


def root_ok(root) -> bool:
    """The root object is still the root of its own tree (clone identity)."""
    try:
        return bool(root.is_root and root.a.f is root and root.root is root)
    except Exception:  # noqa: BLE001
        return False


def exc_json(e):
    return '' if e is None else f'{type(e).__name__}: {e}'[:300]


# ----------------------------------------------------------------------------------------------------------------------
# oracle facts about the element being moved

def _char_pos(lines, lineno, col_offset):
    return (lineno, len(lines[lineno - 1].encode()[:col_offset].decode(errors='ignore')))


def region_of(elems, lines):
    """(start, end) positions (row, char col) spanned by the AST nodes of the removed elements (decorators included)."""
    p1 = p2 = None
    for n in elems:
        for a in ast.walk(n):
            if getattr(a, 'lineno', None) is None or getattr(a, 'end_lineno', None) is None:
                continue
            st = _char_pos(lines, a.lineno, a.col_offset)
            en = _char_pos(lines, a.end_lineno, a.end_col_offset)
            p1 = st if p1 is None or st < p1 else p1
            p2 = en if p2 is None or en > p2 else p2
    return p1, p2


_NONSIG = ('COMMENT', 'NL', 'NEWLINE', 'INDENT', 'DEDENT', 'ENDMARKER')
_INTRO = ('*', '**', '@')
_SEPS = (',', ';', '=', '|', 'and', 'or')


def window_facts(src: str, elems, emptied_block: bool, parent=None):
    """Oracle facts (tokenize + ast positions) about the comments around a removed region:
    trail  = the COMMENT following the region on its last line (after at most one separator), or None
    window = all COMMENT strings between the last significant token before the region (introducers `*`, `**`, `@` and,
             when an optional block is emptied, its `else:` / `finally:` header are part of the region) and the first
             significant token after it (at most one separator skipped) -- the window W of DESIGN 4-C04."""
    rows = _tok_rows(src)
    if rows is None or not elems:
        return None, [], []
    lines = src.split('\n')
    p1, p2 = region_of(elems, lines)
    if p1 is None:
        return None, [], []
    n = len(rows)
    i1 = next((i for i, r in enumerate(rows) if r[2] >= p1), n)
    j = i1 - 1

    def back(j):
        while j >= 0 and rows[j][0] in _NONSIG:
            j -= 1
        return j

    j = back(j)
    npar = 0
    while j >= 0 and (rows[j][1] in _INTRO or rows[j][1] == '('):
        npar += rows[j][1] == '('
        j = back(j - 1)
    hdr_row = None
    if emptied_block and j >= 1 and rows[j][1] == ':' and rows[back(j - 1)][1] in ('else', 'finally'):
        hdr_row = rows[j][2][0]  # line of the header's colon
        j = back(back(j - 1) - 1)
    lo = rows[j][3] if j >= 0 else (0, 0)
    i2 = next((i for i, r in enumerate(rows) if r[2] >= p2), n)
    k = i2
    trail = None
    seen_sep = False
    pend = None
    if parent is not None and getattr(parent, 'end_lineno', None) is not None:
        pend = _char_pos(lines, parent.end_lineno, parent.end_col_offset)
    while k < n:
        typ, s = rows[k][0], rows[k][1]
        if s == ')' and typ == 'RPAR' and npar > 0 and not seen_sep and (pend is None or rows[k][3] < pend):
            npar -= 1      # a grouping parenthesis of the element itself (it closes before the parent ends)
            k += 1
        elif typ == 'COMMENT':
            if trail is None and rows[k][2][0] == p2[0] and not any(r[0] in ('NL', 'NEWLINE') for r in rows[i2:k]):
                trail = s
            k += 1
        elif typ in _NONSIG:
            k += 1
        elif s in _SEPS and not seen_sep:
            seen_sep = True
            k += 1
        else:
            break
    hi = rows[k][2] if k < n else (len(lines) + 1, 0)
    window = [r[1] for r in rows if r[0] == 'COMMENT' and lo <= r[2] < hi]
    # comments above an emptied block's header and on the header's own line (when no statement shares that line)
    header = []
    if hdr_row is not None:
        inline = p1[0] == hdr_row
        header = [r[1] for r in rows if r[0] == 'COMMENT' and lo <= r[2] and
                  (r[2][0] < hdr_row or (r[2][0] == hdr_row and not inline))]
    return trail, window, header


# ----------------------------------------------------------------------------------------------------------------------
# C07: extraction events

def _call_extract(op, root, path, field, start, stop, cut, o):
    """Run one extraction through the entry point `op`; returns the piece."""
    if op in ('copy', 'cut'):
        f = fst_at(root, path)
        return f.cut(**o) if cut else f.copy(**o)
    if op == 'get':
        parent = fst_at(root, path[:-1])
        fld, idx = path[-1]
        return parent.get(idx, field=fld, cut=cut, **o)
    if op == 'get_slice':
        return fst_at(root, path).get_slice(start, stop, field, cut=cut, **o)
    if op == 'get2':  # get() with two indices is a slice get
        return fst_at(root, path).get(start, stop, field, cut=cut, **o)
    if op == 'view':
        v = getattr(fst_at(root, path), field)[start:stop]
        return v.cut(**o) if cut else v.copy(**o)
    raise ValueError(op)


def _call_delete(root, path, field, start, stop, is_slice, o):
    if is_slice:
        fst_at(root, path).put_slice(None, start, stop, field, **o)
    else:
        fst_at(root, path).remove(**o)


def _elem_nodes(tree, path, field, start, stop, is_slice):
    if not is_slice:
        n = tree
        for f, i in path:
            n = getattr(n, f)
            if i is not None:
                n = n[i]
        return n
    return None


def extract_events(rec: Recorder, src: str, tree, init: dict, base_ids, case: dict, o: dict, indent='    '):
    """Events for one enumerated case: a Copy/Get/GetSlice event and, when the cut is carried out, a Cut event (cut,
    copy and delete each on their own clone)."""
    path, field, start, stop, is_slice, op = (case['path'], case['field'], case['start'], case['stop'], case['slice'],
                                               case['op'])
    events = []
    common = {'path': path_json(path), 'field': field or '', 'start': start, 'stop': stop, 'slice': is_slice,
              'opts': opts_json(o), 'fresh': True, 'kind': case['kind'], 'ekind': case['ekind'],
              'indent': block_indent(src, case.get('elems')), 'trailCmt': 0, 'origBag': 0}
    # -- copy
    root = FST(src, 'exec', indent=indent)
    exc = None
    res = None
    try:
        res = _call_extract(op, root, path, field, start, stop, False, o)
    except Exception as e:  # noqa: BLE001
        exc = e
    ev = dict(common, call='extract', op=op, outcome='ok' if exc is None else 'raise', exc=exc_json(exc),
              post=rec.state(root, init['rootObj']),
              res=rec.piece(res) if exc is None else NOPIECE)
    ev['rootOk'] = root_ok(root)
    events.append(ev)
    if exc is not None or not isinstance(res, FST):
        return events
    if not case.get('cut', True):
        return events
    # -- cut = copy + delete
    cop = 'cut' if op == 'copy' else op
    ra = FST(src, 'exec', indent=indent)
    cexc = None
    cpiece = None
    try:
        cpiece = _call_extract(cop, ra, path, field, start, stop, True, o)
    except Exception as e:  # noqa: BLE001
        cexc = e
    rc = FST(src, 'exec', indent=indent)
    dexc = None
    try:
        _call_delete(rc, path, field, start, stop, is_slice, o)
    except Exception as e:  # noqa: BLE001
        dexc = e
    cp = rec.piece(cpiece) if cexc is None else NOPIECE
    tc = 0
    trail, window, header = window_facts(src, case.get('elems') or [], case.get('emptied', False), case.get('parent'))
    if trail is not None:
        tc = rec.ktab[rec.tok_id('COMMENT', trail) - 1]['m']
    wc = sorted(rec.ktab[rec.tok_id('COMMENT', w) - 1]['m'] for w in window)
    hc = sorted(rec.ktab[rec.tok_id('COMMENT', w) - 1]['m'] for w in header)
    ev2 = dict(common, call='cut', op=cop, outcome='ok' if cexc is None else 'raise', exc=exc_json(cexc),
               delOutcome='ok' if dexc is None else 'raise', delExc=exc_json(dexc),
               post=rec.state(ra, init['rootObj']), delPost=rec.state(rc, init['rootObj']),
               res=cp, copy=ev['res'], trailCmt=tc, winCmts=wc, hdrCmts=hc, rootOk=root_ok(ra),
               remBag=rec.bag_json(ra.src, base_ids) if cexc is None else {'ok': False, 'v': [], 'x': []},
               pieceBag=rec.bag_json(cpiece.src, base_ids) if (cexc is None and isinstance(cpiece, FST))
               else {'ok': False, 'v': [], 'x': []})
    events.append(ev2)
    return events


# ----------------------------------------------------------------------------------------------------------------------
# enumeration of the C07 / C08 cases of one program

def init_state(rec: Recorder, src: str, indent='    '):
    root = FST(src, 'exec', indent=indent)
    st = rec.state(root)
    b = rec.bag(src) or {}
    ids = sorted(b)
    st['bagIds'] = ids
    st['bagCnt'] = [b[i] for i in ids]
    return st, ids


def node_cases(tree, src=None):
    """One case per node (not the root, no expr_context): the node itself."""
    out = []
    for node, path in walk_paths(tree):
        if not path:
            continue
        kind = type(node).__name__
        par = tree
        for f, i in path[:-1]:
            par = getattr(par, f)
            if i is not None:
                par = par[i]
        fld = getattr(par, path[-1][0])
        out.append({'path': path, 'field': None, 'start': 0, 'stop': 0, 'slice': False, 'kind': kind, 'ekind': kind,
                    'debug': src is not None and any(f == 'values' for f, _ in path) and in_debug_field(src, tree, path),
                    'elems': [node], 'parent': par, 'flen': len(fld) if isinstance(fld, list) else -1,
                    'emptied': path[-1][0] in ('orelse', 'finalbody') and isinstance(fld, list) and len(fld) == 1})
    return out


def slice_elems(node, field, s, t):
    """AST nodes making up elements s..t-1 of a (real or virtual) list field, in syntax order (for region positions)."""
    kind = type(node).__name__
    if field == '_body':
        lo = 1 if has_docstr(node) else 0
        return node.body[lo + s:lo + t]
    if field == '_all' and kind == 'Dict':
        return [x for k, v in list(zip(node.keys, node.values))[s:t] for x in (k, v) if x is not None]
    if field == '_all' and kind == 'MatchMapping':
        el = [[k, p] for k, p in zip(node.keys, node.patterns)]
        return [x for pair in el[s:t] for x in pair]  # `**rest` has no node of its own
    if field == '_all' and kind == 'Compare':
        return ([node.left] + node.comparators)[s:t]
    if field == '_all' and kind == 'arguments':
        a = node
        pa = a.posonlyargs + a.args
        dfl = [None] * (len(pa) - len(a.defaults)) + list(a.defaults)
        el = [[x, d] for x, d in zip(pa, dfl)] + ([[a.vararg]] if a.vararg else []) + \
             [[x, d] for x, d in zip(a.kwonlyargs, a.kw_defaults)] + ([[a.kwarg]] if a.kwarg else [])
        return [x for grp in el[s:t] for x in grp if x is not None]
    if field in ('_args', '_bases'):
        el = sorted((node.args if field == '_args' else node.bases) + node.keywords,
                    key=lambda x: (x.lineno, x.col_offset))
        return el[s:t]
    if field == '_attrs':
        return (node.patterns + node.kwd_patterns)[s:t]
    v = getattr(node, field, None)
    if isinstance(v, list):
        return [x for x in v[s:t] if isinstance(x, ast.AST)]
    return []


def slice_cases(tree, rng: random.Random, max_per_field=12):
    """Cases (start, stop) for every list-like field of every node; all pairs when few, a seeded sample otherwise."""
    out = []
    for node, path in walk_paths(tree):
        kind = type(node).__name__
        if kind in ('JoinedStr', 'FormattedValue'):
            continue
        for field, n in list_fields(node):
            pairs = [(s, t) for s in range(n + 1) for t in range(s, n + 1)]
            if len(pairs) > max_per_field:
                keep = {(0, n), (0, 0), (n, n), (0, 1), (n - 1, n), (1, n), (0, n - 1)}
                rest = [p for p in pairs if p not in keep]
                rng.shuffle(rest)
                pairs = sorted(keep) + rest[:max_per_field - len(keep)]
            for s, t in pairs:
                out.append({'path': path, 'field': field, 'start': s, 'stop': t, 'slice': True, 'kind': kind,
                            'ekind': '', 'elems': slice_elems(node, field, s, t), 'parent': node,
                            'emptied': field in ('orelse', 'finalbody') and s == 0 and t == n and n > 0})
    return out


SLICE_OPS = ('get_slice', 'get_slice', 'get2', 'view')
NODE_OPS = ('copy', 'get')


# ----------------------------------------------------------------------------------------------------------------------
# C08 events

def _put_back(root, case, piece, o):
    path, field, start = case['path'], case['field'], case['start']
    if case['slice']:
        fst_at(root, path).put_slice(piece, start, start, field, **o)
    else:
        parent = fst_at(root, path[:-1])
        fld, idx = path[-1]
        if idx is None:
            parent.put(piece, field=fld, **o)
        elif case.get('inplace'):
            parent.put(piece, idx, field=fld, **o)  # the cut left a None placeholder at idx (Dict.keys, kw_defaults)
        else:
            parent.put_slice(piece, idx, idx, fld, one=True, **o)


def _elem_path(case):
    """Path of the first element of the case in a tree of the original shape."""
    if not case['slice']:
        return case['path']
    f = case['field']
    if f.startswith('_') or not case.get('elems'):
        return ()  # virtual fields hold no statements: no docstrings to re-indent
    return tuple(case['path']) + ((f, case['start']),)


def roundtrip_event(rec: Recorder, src, init, case, o, indent='    '):
    """Cut the element / slice and put the piece back at the same place, one composite event."""
    root = FST(src, 'exec', indent=indent)
    op = case['op']
    cexc = pexc = None
    piece = None
    try:
        piece = _call_extract('cut' if op == 'copy' else op, root, case['path'], case['field'], case['start'],
                              case['stop'], True, o)
    except Exception as e:  # noqa: BLE001
        cexc = e
    mid_src = root.src
    mid = rec.state(root, init['rootObj'])
    if cexc is None and not case['slice'] and case['path'][-1][1] is not None:
        try:  # steering only: did the cut shrink the list or leave a None placeholder?
            lst = getattr(fst_at(root, case['path'][:-1]).a, case['path'][-1][0])
            case = dict(case, inplace=len(lst) == case.get('flen', -1))
        except Exception:  # noqa: BLE001
            pass
    if cexc is None:
        try:
            _put_back(root, case, piece, o)
        except Exception as e:  # noqa: BLE001
            pexc = e
    return {'call': 'cutput', 'op': op, 'path': path_json(case['path']), 'field': case['field'] or '',
            'start': case['start'], 'stop': case['stop'], 'slice': case['slice'], 'opts': opts_json(o), 'fresh': True,
            'kind': case['kind'], 'ekind': case['ekind'], 'indent': block_indent(src, case.get('elems')),
            'indent2': block_indent_at(root.src, _elem_path(case), block_indent(src, case.get('elems'))),
            'cutOutcome': 'ok' if cexc is None else 'raise',
            'cutExc': exc_json(cexc), 'outcome': 'ok' if pexc is None else 'raise', 'exc': exc_json(pexc),
            'rootOk': root_ok(root), 'midSrc': mid_src if len(mid_src) < 3000 else '', 'mid': mid,
            'post': rec.state(root, init['rootObj'])}


REPLACE_FORMS = ('copy', 'ast', 'src', 'reparse')


def replace_events(rec: Recorder, src, init, case, forms, o, indent='    '):
    """Replace the node by its own copy / own pure AST / own source text, `len(forms)` times in a row on one clone."""
    root = FST(src, 'exec', indent=indent)
    out = []
    for k, form in enumerate(forms):
        exc = None
        try:
            f = fst_at(root, case['path'])
            if form == 'copy':
                code = f.copy(**o)
            elif form == 'ast':
                code = f.copy_ast()
            elif form == 'reparse':  # pure AST made by CPython from the node's own standalone source
                alt, node, _ = embed_parse(type(f.a).__name__, f.own_src(docstr=False))
                if not alt:
                    raise LookupError('own source does not parse (judged by OwnSrc)')
                code = node
            else:
                code = f.own_src()
            f.replace(code, **o)
        except LookupError:
            break
        except Exception as e:  # noqa: BLE001
            exc = e
        out.append({'call': 'replace', 'op': form, 'path': path_json(case['path']), 'field': '', 'start': 0, 'stop': 0,
                    'slice': False, 'opts': opts_json(o), 'fresh': k == 0, 'kind': case['kind'], 'ekind': case['ekind'],
                    'indent': block_indent(src, case.get('elems')), 'debugField': bool(case.get('debug')),
                    'indent2': block_indent_at(root.src, case['path'], block_indent(src, case.get('elems'))),
                    'outcome': 'ok' if exc is None else 'raise', 'exc': exc_json(exc), 'rootOk': root_ok(root),
                    'post': rec.state(root, init['rootObj'])})
        if exc is not None:
            break
    return out


def ownsrc_event(rec: Recorder, root, init, case, docstr, init_src=''):
    """own_src() of a node of the (shared, read-only) tree `root`, parsed by CPython through the node's embedding."""
    f = fst_at(root, case['path'])
    exc = None
    own = {'text': 0, 'alt': 0, 'embS': 0, 'src': ''}
    try:
        s = f.own_src(docstr=docstr)
        alt, node, _ = embed_parse(case['ekind'], s)
        own = {'text': rec.tab.text(s), 'alt': alt, 'embS': rec.tab.sid(node) if alt else 0, 'src': s}
    except Exception as e:  # noqa: BLE001
        exc = e
    return {'call': 'ownsrc', 'op': 'own_src', 'path': path_json(case['path']), 'field': '', 'start': 0, 'stop': 0,
            'slice': False, 'opts': opts_json({'docstr': docstr}), 'fresh': True, 'kind': case['kind'],
            'ekind': case['ekind'], 'indent': block_indent(init_src, case.get('elems')),
            'outcome': 'ok' if exc is None else 'raise', 'exc': exc_json(exc), 'own': own,
            'rootOk': root_ok(root), 'post': rec.state(root, init['rootObj'])}


# -- texts ---------------------------------------------------------------------------------------------------------------

_ALPHA = ["'", '"', '\\', '\n', '\t', '\r', ' ', ' ', 'a', 'b', 'Z', '0', '#', '{', '}', '\x00', '\x0b', '\x0c', '\x1b',
          '\x7f', '\x85', '\xa0', 'é', 'ß', ' ', '　', '中', '\U0001F600', '\U00010000', "'''", '"""', "''", '""',
          '\\n', '\\\\', '\\"', "\\'", '\\x', '\\N{', 'u', 'r', 'f']


def rand_text(rng: random.Random, comment=False) -> str:
    n = rng.choice((0, 1, 2, 3, 5, 8, 13, 21))
    parts = [rng.choice(_ALPHA) for _ in range(n)]
    if rng.random() < 0.2:
        parts.append(rng.choice(('\\', "'", '"', "'''", '"""', '\\\\', ' ', '\n')))
    if rng.random() < 0.15:
        parts.insert(0, rng.choice(("'", '"', '"""', "'''", '\\', '#')))
    s = ''.join(parts)
    if comment:
        s = s.replace('\n', ' ').replace('\r', ' ').replace('\x00', '0')
    return s


def text_class(s: str) -> str:
    c = []
    if any(q in s for q in ("'''", '"""')):
        c.append('triple')
    elif "'" in s or '"' in s:
        c.append('quote')
    if '\\' in s:
        c.append('bslash')
    if '\n' in s:
        c.append('nl')
    if any(ord(ch) < 32 and ch not in '\n\t' for ch in s) or '\x7f' in s:
        c.append('ctl')
    if any(ord(ch) > 127 for ch in s):
        c.append('nonascii')
    if s.endswith('\\'):
        c.append('endbslash')
    if s[-1:] in ('"', "'"):
        c.append('endquote')
    return '+'.join(c) or 'plain'


def docstr_event(rec: Recorder, src, init, path, kind, text, o, indent='    '):
    root = FST(src, 'exec', indent=indent)
    exc = None
    got = None
    try:
        f = fst_at(root, path)
        f.put_docstr(text, **o)
        got = f.get_docstr()
    except Exception as e:  # noqa: BLE001
        exc = e
    post = rec.state(root, init['rootObj'])
    # oracle: what CPython reads from the new source at the docstring position, and the indentation of that statement
    denot = None
    ind = 0
    t = try_parse(root.src)
    if t is not None:
        n = t
        try:
            for fl, i in path:
                n = getattr(n, fl)
                if i is not None:
                    n = n[i]
            b0 = n.body[0]
            if isinstance(b0, ast.Expr) and isinstance(b0.value, ast.Constant) and isinstance(b0.value.value, str):
                denot = b0.value.value
                line = root.src.split('\n')[b0.lineno - 1]
                ind = len(line) - len(line.lstrip(' \t'))
        except (AttributeError, IndexError):
            pass
    return {'call': 'put_docstr', 'op': 'put_docstr', 'path': path_json(path), 'kind': kind, 'tclass': text_class(text),
            'fresh': True, 'opts': opts_json(o), 'text': rec.tab.text(text), 'hasGot': isinstance(got, str),
            'got': rec.tab.text(got) if isinstance(got, str) else 0, 'hasDenot': denot is not None,
            'denot': rec.tab.text(denot) if denot is not None else 0, 'indent': ind,
            'outcome': 'ok' if exc is None else 'raise', 'exc': exc_json(exc), 'rootOk': root_ok(root), 'post': post,
            'raw': text}


def _block_shape(node, field):
    """Oracle fact (ast): how the block `field` of statement `node` is written: 'elif' when the orelse is an `elif`,
    '-inline' when its first statement sits on the header line."""
    if field is None or not isinstance(getattr(node, field, None), list) or not getattr(node, field):
        return ''
    first = getattr(node, field)[0]
    out = ''
    prev_end = node.lineno
    if field == 'orelse' and isinstance(node, ast.If) and len(node.orelse) == 1 and isinstance(first, ast.If) \
            and first.col_offset == node.col_offset:
        out = '-elif'
        if first.body and first.body[0].lineno == first.test.end_lineno:
            out += '-inline'
        return out
    before = [getattr(node, f) for f in ('body', 'handlers', 'orelse', 'finalbody') if f != field and getattr(node, f, None)]
    ends = [b[-1].end_lineno for b in before if b[-1].end_lineno < first.lineno or
            (b[-1].end_lineno == first.lineno and b[-1].end_col_offset <= first.col_offset)]
    hdr_min = max(ends) if ends else node.lineno
    if first.lineno == hdr_min or (field == 'body' and first.lineno == getattr(node, 'lineno', -1)):
        out += '-inline'
    return out


def comment_event(rec: Recorder, src, init, path, kind, field, full, text, indent='    ', node=None):
    root = FST(src, 'exec', indent=indent)
    exc = None
    got = None
    try:
        f = fst_at(root, path)
        f.put_line_comment(text, field, full)
        got = f.get_line_comment(field, full)
    except Exception as e:  # noqa: BLE001
        exc = e
    return {'call': 'put_line_comment', 'op': 'put_line_comment', 'path': path_json(path), 'kind': kind,
            'tclass': ('full+' if full else '') + (field or 'own') + (_block_shape(node, field) if node is not None else '')
            + '+' + text_class(text), 'fresh': True, 'full': bool(full),
            'field': field or '', 'text': rec.tab.text(text), 'hasGot': isinstance(got, str),
            'got': rec.tab.text(got) if isinstance(got, str) else 0, 'outcome': 'ok' if exc is None else 'raise',
            'exc': exc_json(exc), 'rootOk': root_ok(root), 'post': rec.state(root, init['rootObj']), 'raw': text}


# ----------------------------------------------------------------------------------------------------------------------
# shard worker

def run_shard(args):
    """args = (shard id, [(trace id, prog, variant, seed, budget dict)], tier opts) -> (batch, meta)."""
    shard_id, specs, conf0 = args
    conf = dict(conf0)
    from corpus.programs import PROGRAMS as _CORPUS
    from . import layouts
    from .c07_programs import EXTRA
    PROGRAMS = list(_CORPUS) + EXTRA
    rec = Recorder()
    traces = []
    meta = {}
    for tid, prog, variant, seed, what in specs:
        rng = random.Random(seed)
        if variant >= 300:  # redundant parentheses broken over lines, then keyword adjacency
            from .c07_layout import kwadj, wrapbreak
            src = kwadj(wrapbreak(layouts.variant(PROGRAMS[prog], variant - 300, seed), seed), seed)
        elif variant >= 200:  # C07's own mutator: keyword adjacency + identifiers that begin with keywords
            from .c07_layout import kwadj
            src = kwadj(layouts.variant(PROGRAMS[prog], variant - 200, seed), seed)
        elif variant >= 100:  # C07's own mutator on top of a shared layout: multi-byte text before / inside every container
            from .c07_layout import wide
            src = wide(layouts.variant(PROGRAMS[prog], variant - 100, seed), seed)
        else:
            src = layouts.variant(PROGRAMS[prog], variant, seed)
        tree = try_parse(src)
        if tree is None:
            continue
        init, base_ids = init_state(rec, src)
        conf = dict(conf0)
        if prog >= len(_CORPUS) and conf.get('cases', 0) < 1000:
            # the purpose-built inputs: every case on the layout as written, three times the budget on the others
            conf['cases'] = 10 ** 6 if variant == 0 else 3 * conf['cases']
        steps = []
        infos = []

        def add(evs, info):
            for ev in evs:
                steps.append(ev)
                infos.append(info)

        if what == 'c07':
            cases = node_cases(tree, src) + slice_cases(tree, rng, conf.get('max_per_field', 12))
            rng.shuffle(cases)
            if variant >= 300:  # multi-line parenthesised operands next to keywords: multi-line expression nodes first
                ml = [c for c in cases if not c['slice'] and isinstance(c['elems'][0], ast.expr)
                      and getattr(c['elems'][0], 'end_lineno', 0) > getattr(c['elems'][0], 'lineno', 0)]
                ids = {id(c) for c in ml}
                cases = ml[:2 * conf['cases']] + _prioritise([c for c in cases if id(c) not in ids], conf['cases'])
            elif variant >= 200:  # keyword adjacency matters for statement-like pieces: block fields first
                blk = ('body', 'orelse', 'finalbody', 'handlers', 'cases')
                st = [c for c in cases if (c['slice'] and c['field'] in blk and c['stop'] > c['start'])
                      or (not c['slice'] and c['path'][-1][0] in blk)]
                oe = [c for c in st if (c['field'] if c['slice'] else c['path'][-1][0]) == 'orelse']
                ids = {id(c) for c in oe}
                cases = oe[:conf['cases']] + _prioritise([c for c in st if id(c) not in ids], conf['cases']) + \
                    _prioritise([c for c in cases if not c['slice'] and c['path'][-1][0] not in blk], max(2, conf['cases'] // 2))
            elif variant >= 100:  # byte / character column slips live in the slice paths: mostly non-empty slices here
                sl = [c for c in cases if c['slice'] and c['stop'] > c['start']]
                cases = _prioritise(sl, 4 * conf['cases']) + _prioritise([c for c in cases if not c['slice']],
                                                                         max(2, conf['cases'] // 3))
            else:
                cases = _prioritise(cases, conf['cases'], src)
            for k, case in enumerate(cases):
                pool = DOCSTR_POOL if case.get('mlstr') and rng.random() < 0.6 else \
                    TRIVIA_POOL if case.get('wc') and rng.random() < 0.5 else OPTION_POOL
                o = dict(rng.choice(pool))
                case['op'] = rng.choice(SLICE_OPS if case['slice'] else NODE_OPS)
                # pieces holding a multi-line string are extracted under every docstr mode (the docstring clauses
                # depend on it), everything else under one option set
                for o in ([o, {'docstr': 'strict'}, {'docstr': False}, {'docstr': True}] if case.get('mlstr') else [o]):
                    info = {'what': 'c07', 'case': {a: case[a] for a in ('path', 'field', 'start', 'stop', 'slice', 'op', 'kind', 'emptied')},
                            'opts': o}
                    add(extract_events(rec, src, tree, init, base_ids, case, o), info)
        elif what == 'c08':
            cases = node_cases(tree, src) + slice_cases(tree, rng, conf.get('max_per_field', 12))
            rng.shuffle(cases)
            ro = FST(src, 'exec')
            if variant >= 300:  # multi-line parenthesised operands next to keywords: multi-line expression nodes first
                ml = [c for c in cases if not c['slice'] and isinstance(c['elems'][0], ast.expr)
                      and getattr(c['elems'][0], 'end_lineno', 0) > getattr(c['elems'][0], 'lineno', 0)]
                ids = {id(c) for c in ml}
                sel = ml[:5 * conf['cases']] + _prioritise([c for c in cases if id(c) not in ids], conf['cases'])
            elif variant >= 200:  # keyword adjacency / keyword-prefixed names: block fields (orelse first)
                blk = ('body', 'orelse', 'finalbody', 'handlers', 'cases')
                st = [c for c in cases if (c['slice'] and c['field'] in blk and c['stop'] > c['start'])
                      or (not c['slice'] and c['path'][-1][0] in blk)]
                oe = [c for c in st if (c['field'] if c['slice'] else c['path'][-1][0]) == 'orelse']
                ids = {id(c) for c in oe}
                sel = oe[:conf['cases']] + _prioritise([c for c in st if id(c) not in ids], conf['cases'])
            elif variant >= 100:  # multi-byte text: byte / character column slips live in the slice paths
                blk = ('body', 'orelse', 'finalbody', 'handlers', 'cases', '_body')
                sl = [c for c in cases if c['slice'] and c['stop'] > c['start'] and c['field'] not in blk]
                sel = _prioritise(sl, 5 * conf['cases']) + _prioritise([c for c in cases if not c['slice']], conf['cases'])
            else:
                sel = _prioritise(cases, conf['cases'])
            for k, case in enumerate(sel):
                o = dict(rng.choice(RT_OPTIONS))
                case['op'] = rng.choice(SLICE_OPS if case['slice'] else NODE_OPS)
                info = {'what': 'c08', 'case': {a: case[a] for a in ('path', 'field', 'start', 'stop', 'slice', 'op', 'kind')},
                        'opts': o}
                add([roundtrip_event(rec, src, init, case, o)], info)
                if not case['slice']:
                    forms = [rng.choice(REPLACE_FORMS) for _ in range(rng.choice((1, 1, 2, 3)))]
                    if variant >= 300 and id(case) in ids:  # layout-sensitive forms on the layout-heavy variant
                        forms = [rng.choice(('copy', 'src')), rng.choice(REPLACE_FORMS)]
                    add(replace_events(rec, src, init, case, forms, o), dict(info, forms=forms))
                    if case['ekind'] not in OPKINDS or True:
                        ds = rng.choice((True, False, 'strict'))
                        add([ownsrc_event(rec, ro, init, case, ds, src)], dict(info, docstr=ds))
        elif what == 'texts':
            dnodes = [(n, p) for n, p in walk_paths(tree) if type(n).__name__ in DOCSTR_KINDS]
            snodes = [(n, p) for n, p in walk_paths(tree) if isinstance(n, ast.stmt)]
            for k in range(conf['texts']):
                if k % 2 == 0 and dnodes:
                    n, p = rng.choice(dnodes)
                    text = rand_text(rng)
                    o = dict(rng.choice(({}, {}, {}, {'docstr': 'strict'}, {'trivia': 'all'}, {'pep8space': False})))
                    add([docstr_event(rec, src, init, p, type(n).__name__, text, o)],
                        {'what': 'docstr', 'path': p, 'text': text, 'opts': o})
                elif snodes:
                    n, p = rng.choice(snodes)
                    full = rng.random() < 0.4
                    text = rand_text(rng, comment=True)
                    if full:
                        text = rng.choice(('#', ' #', '  # ', '\t#', '#')) + text
                    elif rng.random() < 0.8:
                        text = text.strip()
                    fields = [None] + [fl for fl in ('body', 'orelse', 'finalbody') if getattr(n, fl, None)
                                       and not isinstance(n, ast.Module)]
                    field = rng.choice(fields)
                    add([comment_event(rec, src, init, p, type(n).__name__, field, full, text, node=n)],
                        {'what': 'comment', 'path': p, 'text': text, 'field': field, 'full': full})
        for ev in steps:
            ev.pop('node', None)
        traces.append({'id': tid, 'init': init, 'steps': steps})
        meta[tid] = {'prog': prog, 'variant': variant, 'seed': seed, 'what': what, 'src': src, 'infos': infos}
    batch = dict(rec.dump(), traces=traces)
    return batch, meta


TRIVIA_POOL = [{}, {'trivia': False}, {'trivia': (False, 'line')}, {'trivia': ()}, {'trivia': ('none', 'all')},
               {'trivia': 'all'}, {'trivia': ('block', False)}, {'trivia': ('all', 'all')}]
DOCSTR_POOL = [{'docstr': 'strict'}, {'docstr': False}, {'docstr': True}, {'docstr': 'strict', 'trivia': 'all'}, {}]


def _has_mlstr(elems):
    return any(isinstance(a, ast.Constant) and isinstance(a.value, str) and '\n' in a.value
               for e in elems for a in ast.walk(e))


def _prioritise(cases, n, src=None):
    """First n cases of the (already shuffled) list, but with up to n // 4 cases whose elements hold a multi-line string
    moved to the front (the docstring clauses are only exercised there)."""
    for c in cases:
        c['mlstr'] = _has_mlstr(c.get('elems') or [])
    if n >= len(cases):
        return cases
    special = [c for c in cases if c['mlstr']][:max(1, n // 4)]
    if src is not None:  # cuts with comments standing around the removed region (the comment-conservation clauses)
        k = 0
        for c in cases:
            if k >= max(2, n // 2):
                break
            if c['mlstr'] or not c.get('elems') or (c['slice'] and c['stop'] == c['start']):
                continue
            if window_facts(src, c['elems'], c.get('emptied', False), c.get('parent'))[1]:
                c['wc'] = True
                special.append(c)
                k += 1
    ids = {id(c) for c in special}
    return special + [c for c in cases if id(c) not in ids][:n - len(special)]


RT_OPTIONS = [{}, {}, {}, {'trivia': False}, {'trivia': 'all'}, {'trivia': ('all', 'all')}, {'trivia': ('block', 'block')},
              {'pars': True}, {'docstr': False}, {'docstr': 'strict'}, {'pars_walrus': True}, {'trivia': ()}]
