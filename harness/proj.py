"""Abstraction function alpha: CPython AST object graphs -> hash-consed node tables.

Trusted base of every check.  Uses only the standard library; never calls pfst to learn what a state *means*.

Two id spaces, both append-only per batch and 1-based (0 = None):
  sid : (kind, primitive value, per-field child sids)                 -- no positions, no ctx
  pid : (sid, ctx, (lineno, col_offset, end_lineno, end_col_offset), child pids in field order)

Equality of (sub)trees is integer equality; the TLA+ specification only walks paths / compares ids.
"""

from __future__ import annotations

import ast
import io
import tokenize
from ast import AST

CTX = (ast.Load, ast.Store, ast.Del)


def prim_repr(v) -> str:
    """ASCII-only, type-distinguishing representation of a primitive field value."""
    if isinstance(v, str):
        return 's' + ascii(v)
    if isinstance(v, bytes):
        return 'b' + ascii(v)
    if v is None:
        return 'None'
    if v is Ellipsis:
        return '...'
    if isinstance(v, bool):
        return 'B' + repr(v)
    if isinstance(v, int):
        return 'i' + repr(v)
    if isinstance(v, float):
        return 'f' + repr(v)
    if isinstance(v, complex):
        return 'c' + repr(v)
    return type(v).__name__ + ':' + ascii(v)


class Tables:
    """Hash-consing tables for one batch."""

    def __init__(self):
        self._s: dict = {}
        self.stab: list = []  # entry: {"k": kind, "v": str, "f": [{"n": name, "c": [sid...]}]}
        self._p: dict = {}
        self.ptab: list = []  # entry: {"s": sid, "x": ctx, "p": [4 ints] or [], "c": [pid...]}
        self._t: dict = {}
        self.ttab: list = []  # texts: list of lines, each a list of code points

    # -- sid ---------------------------------------------------------------------------------------------------
    def _mk_s(self, k: str, v: str, f: tuple) -> int:
        key = (k, v, f)
        i = self._s.get(key)
        if i is None:
            self.stab.append({'k': k, 'v': v, 'f': [{'n': n, 'c': list(c)} for n, c in f]})
            i = self._s[key] = len(self.stab)
        return i

    def _mk_p(self, s: int, x: str, p: tuple, f: tuple) -> int:
        key = (s, x, p, f)
        i = self._p.get(key)
        if i is None:
            self.ptab.append({'s': s, 'x': x, 'p': list(p), 'f': [{'n': n, 'c': list(c)} for n, c in f]})
            i = self._p[key] = len(self.ptab)
        return i

    def prim(self, v) -> tuple[int, int]:
        s = self._mk_s('#', prim_repr(v), ())
        return s, self._mk_p(s, '', (), ())

    def node(self, a) -> tuple[int, int]:
        """Return (sid, pid) of AST node `a` (or primitive / None)."""
        if a is None:
            return 0, 0
        if not isinstance(a, AST):
            return self.prim(a)
        if isinstance(a, CTX):  # ctx never gets to be a node, it is an attribute of the pid of its owner
            raise AssertionError('ctx node projected')

        fs = []
        pf = []
        ctx = ''
        for name in a._fields:
            try:
                v = getattr(a, name)
            except AttributeError:
                v = None
            if name == 'ctx':
                ctx = v.__class__.__name__ if v is not None else '?'
                continue
            if isinstance(v, list):
                sc = []
                pc = []
                for e in v:
                    s, p = self.node(e)
                    sc.append(s)
                    pc.append(p)
                fs.append((name, tuple(sc)))
                pf.append((name, tuple(pc)))
            else:
                s, p = self.node(v)
                fs.append((name, (s,)))
                pf.append((name, (p,)))

        s = self._mk_s(a.__class__.__name__, '', tuple(fs))
        if 'lineno' in a._attributes:
            pos = (getattr(a, 'lineno', -1), getattr(a, 'col_offset', -1),
                   getattr(a, 'end_lineno', -1), getattr(a, 'end_col_offset', -1))
            pos = tuple(-1 if x is None else x for x in pos)
        else:
            pos = ()
        return s, self._mk_p(s, ctx, pos, tuple(pf))

    def sid(self, a) -> int:
        return self.node(a)[0]

    def pid(self, a) -> int:
        return self.node(a)[1]

    # -- texts -------------------------------------------------------------------------------------------------
    def text(self, src: str) -> int:
        i = self._t.get(src)
        if i is None:
            self.ttab.append([[ord(c) for c in ln] for ln in src.split('\n')])
            i = self._t[src] = len(self.ttab)
        return i

    def dump(self) -> dict:
        return {'stab': self.stab, 'ptab': self.ptab, 'ttab': self.ttab}


# ----------------------------------------------------------------------------------------------------------------------
# helpers on plain ASTs (independent of pfst)

def parse_src(src: str, mode: str = 'exec'):
    """CPython's own parse of `src`; returns AST or raises SyntaxError/ValueError."""
    return ast.parse(src, mode=mode, type_comments=False)


def try_parse(src: str, mode: str = 'exec'):
    try:
        return parse_src(src, mode)
    except (SyntaxError, ValueError, RecursionError, MemoryError):
        return None


def first_diff(a, b, path=''):
    """Human-readable first structural/positional difference between two ASTs (for replay files only)."""
    if type(a) is not type(b):
        return f'{path}: type {type(a).__name__} != {type(b).__name__}'
    if isinstance(a, AST):
        for name in a._fields:
            va = getattr(a, name, None)
            vb = getattr(b, name, None)
            d = first_diff(va, vb, f'{path}.{name}')
            if d:
                return d
        for at in a._attributes:
            if getattr(a, at, None) != getattr(b, at, None):
                return f'{path}: {at} {getattr(a, at, None)} != {getattr(b, at, None)} ({type(a).__name__})'
        return None
    if isinstance(a, list):
        if len(a) != len(b):
            return f'{path}: len {len(a)} != {len(b)}'
        for i, (x, y) in enumerate(zip(a, b)):
            d = first_diff(x, y, f'{path}[{i}]')
            if d:
                return d
        return None
    if a != b or repr(a) != repr(b):
        return f'{path}: {a!r} != {b!r}'
    return None


def tokens(src: str):
    """Exact token stream incl. COMMENT/NL; returns list of (type-name, string, (srow,scol), (erow,ecol)) or None."""
    out = []
    try:
        for t in tokenize.generate_tokens(io.StringIO(src).readline):
            out.append((tokenize.tok_name[t.exact_type if t.type == tokenize.OP else t.type], t.string, t.start, t.end))
    except (tokenize.TokenError, IndentationError, SyntaxError):
        return None
    return out
