"""C07 / C08 layout mutator `wide`: multi-byte text on the same line before and inside every container.

Every identifier gets a non-ASCII suffix (1, 2 or 3-byte characters, chosen per identifier), every plain string literal a
CJK prefix, and some simple statements a trailing comment with astral characters, so that on every line that holds a
sliced container the character column differs from the UTF-8 byte offset by a few to many units.  Purely lexical
(tokenize); the result is accepted only if CPython still parses it to a tree of the same shape (same node classes in
walk order) - names and string values differ, which is irrelevant here: the mutated text is an *input* of its own.
"""

from __future__ import annotations

import ast
import io
import keyword
import random
import tokenize

_SUFFIX = ('é', 'ß', 'ж', 'λ', '日', '本語', '日本語', 'Ω', 'ñ')
_SOFT = {'match', 'case', 'type', '_'}
_KEEP = {'__future__', 'annotations', 'self'}


def wide(src: str, seed: int) -> str:
    rng = random.Random(seed * 977 + 5)
    try:
        toks = list(tokenize.generate_tokens(io.StringIO(src).readline))
    except (tokenize.TokenError, IndentationError, SyntaxError):
        return src
    names = {}
    edits = []  # (row, col0, col1, new)
    fdepth = 0
    for t in toks:
        if t.type == getattr(tokenize, 'FSTRING_START', -1):
            fdepth += 1
        elif t.type == getattr(tokenize, 'FSTRING_END', -2):
            fdepth -= 1
        if fdepth:
            continue
        if t.type == tokenize.NAME and not keyword.iskeyword(t.string) and t.string not in _SOFT \
                and t.string not in _KEEP and not t.string.startswith('__'):
            if t.string not in names:
                names[t.string] = t.string + _SUFFIX[rng.randrange(len(_SUFFIX))]
            edits.append((t.start[0], t.start[1], t.end[1], names[t.string]))
        elif t.type == tokenize.STRING and t.start[0] == t.end[0]:
            s = t.string
            i = 0
            while i < len(s) and s[i] not in '\'"':
                i += 1
            prefix = s[:i].lower()
            if 'b' in prefix or 'f' in prefix:
                continue
            q = 3 if s[i:i + 3] in ('"""', "'''") else 1
            edits.append((t.start[0], t.start[1] + i + q, t.start[1] + i + q, '日本語'))
    lines = src.split('\n')
    for row, c0, c1, new in sorted(edits, reverse=True):
        ln = lines[row - 1]
        lines[row - 1] = ln[:c0] + new + ln[c1:]
    out = '\n'.join(lines)
    try:
        a = [type(n).__name__ for n in ast.walk(ast.parse(src))]
        b = [type(n).__name__ for n in ast.walk(ast.parse(out))]
    except (SyntaxError, ValueError):
        return src
    return out if a == b else src


# ----------------------------------------------------------------------------------------------------------------------
# keyword adjacency: every keyword followed directly by an opener / quote / tab / line continuation instead of a blank,
# and identifiers that begin with keywords

_KW_PREFIX = ('elif_', 'elif_', 'else_', 'if', 'not', 'import_', 'async_', 'for', 'in_', 'is', 'as', 'or', 'and', 'def',
              'elif', 'else', 'except_', 'finally_', 'case', 'match', 'with', 'while_', 'try_', 'lambda_', 'yield_')
_KWS = set(keyword.kwlist) - {'True', 'False', 'None'} | {'match', 'case'}


def _shape(src):
    try:
        return [type(n).__name__ for n in ast.walk(ast.parse(src))]
    except (SyntaxError, ValueError):
        return None


def kwadj(src: str, seed: int) -> str:
    rng = random.Random(seed * 7243 + 11)
    shape0 = _shape(src)
    if shape0 is None:
        return src
    # 1. identifiers that begin with keywords (lexical renaming, consistent per identifier)
    try:
        toks = list(tokenize.generate_tokens(io.StringIO(src).readline))
    except (tokenize.TokenError, IndentationError, SyntaxError):
        return src
    names = {}
    edits = []
    fdepth = 0
    for t in toks:
        if t.type == getattr(tokenize, 'FSTRING_START', -1):
            fdepth += 1
        elif t.type == getattr(tokenize, 'FSTRING_END', -2):
            fdepth -= 1
        if fdepth or t.type != tokenize.NAME or t.string in _KWS or keyword.iskeyword(t.string) \
                or t.string in _SOFT or t.string in _KEEP or t.string.startswith('__'):
            continue
        if t.string not in names:
            names[t.string] = (_KW_PREFIX[rng.randrange(len(_KW_PREFIX))] + t.string) if rng.random() < 0.7 else t.string
        if names[t.string] != t.string:
            edits.append((t.start[0], t.start[1], t.end[1], names[t.string]))
    lines = src.split('\n')
    for row, c0, c1, new in sorted(edits, reverse=True):
        lines[row - 1] = lines[row - 1][:c0] + new + lines[row - 1][c1:]
    cur = '\n'.join(lines)
    if _shape(cur) != shape0:
        cur = src
    # 2. keyword adjacency, one spot at a time (each accepted only if the text still denotes a tree of the same shape)
    try:
        toks = list(tokenize.generate_tokens(io.StringIO(cur).readline))
    except (tokenize.TokenError, IndentationError, SyntaxError):
        return cur
    spots = []
    fdepth = 0
    for a, b in zip(toks, toks[1:]):
        if a.type == getattr(tokenize, 'FSTRING_START', -1):
            fdepth += 1
        elif a.type == getattr(tokenize, 'FSTRING_END', -2):
            fdepth -= 1
        if fdepth or a.type != tokenize.NAME or a.string not in _KWS or a.end[0] != b.start[0] or a.end[1] >= b.start[1]:
            continue
        if b.type in (tokenize.COMMENT, tokenize.NL, tokenize.NEWLINE):
            continue  # only between a keyword and the code token that follows it
        opener = (b.type == tokenize.OP and b.string in '([{') or b.type == tokenize.STRING
        spots.append((a.end[0], a.end[1], b.start[1], opener))
    # ... and a closer ( `)` `]` `}` or a string) followed by a keyword: `(a)if c else d`, `[x]for x in y`, `'s'in t`
    for a, b in zip(toks, toks[1:]):
        if b.type == tokenize.NAME and b.string in _KWS and a.end[0] == b.start[0] and a.end[1] < b.start[1] and \
                ((a.type == tokenize.OP and a.string in ')]}') or a.type == tokenize.STRING):
            spots.append((a.end[0], a.end[1], b.start[1], True))
    lines = cur.split('\n')
    for ln, c0, c1, opener in sorted(spots, reverse=True):
        text = lines[ln - 1]
        if text[c0:c1].strip() != '':
            continue
        r = rng.random()
        if opener:
            rep = '' if r < 0.85 else '\t'
        else:
            rep = '\t' if r < 0.55 else (' \\\n' + ' ' * (len(text) - len(text.lstrip()) + 6) if r < 0.7 else None)
        if rep is None:
            continue
        trial = lines[:]
        new = text[:c0] + rep + text[c1:]
        trial[ln - 1:ln] = new.split('\n')
        if _shape('\n'.join(trial)) == shape0:
            lines = trial
    return '\n'.join(lines)


# ----------------------------------------------------------------------------------------------------------------------
# redundant grouping parentheses whose content is broken over lines: `a + b` -> `(a +\n      b)`, `a.b` -> `(a\n .b)`

def _dump(src):
    try:
        return ast.dump(ast.parse(src))
    except (SyntaxError, ValueError, RecursionError):
        return None


def _break_at(seg: str, kind: str, indent: str):
    """`seg` (one line) with a line break at its first depth-0 binary operator (after it) / last depth-0 dot (before)."""
    try:
        toks = list(tokenize.generate_tokens(io.StringIO(seg).readline))
    except (tokenize.TokenError, IndentationError, SyntaxError):
        return None
    depth = 0
    cut = None
    for k, t in enumerate(toks):
        if t.type == tokenize.OP and t.string in '([{':
            depth += 1
        elif t.type == tokenize.OP and t.string in ')]}':
            depth -= 1
        elif depth == 0 and k > 0:
            if kind == 'attr':
                if t.type == tokenize.OP and t.string == '.':
                    cut = ('before', t.start[1])
            elif cut is None and ((t.type == tokenize.OP and t.string not in ('.', ',', ':', '=', '~'))
                                  or (t.type == tokenize.NAME and t.string in ('and', 'or', 'in', 'is'))):
                nxt = toks[k + 1] if k + 1 < len(toks) else None
                if nxt is not None and nxt.type == tokenize.NAME and nxt.string in ('not', 'in'):
                    continue  # `is not` / `not in`: break after the second word
                cut = ('after', t.end[1])
    if cut is None:
        return None
    pos = cut[1]
    return seg[:pos].rstrip() + '\n' + indent + seg[pos:].lstrip()


def wrapbreak(src: str, seed: int, p: float = 0.8) -> str:
    rng = random.Random(seed * 1597 + 3)
    d0 = _dump(src)
    if d0 is None:
        return src
    tree = ast.parse(src)
    cands = []
    in_pattern = {id(x) for pt in ast.walk(tree) if isinstance(pt, ast.pattern) for x in ast.walk(pt)}
    for n in ast.walk(tree):  # (parentheses inside a match pattern are group *patterns*, not expression parentheses)
        if id(n) in in_pattern:
            continue
        if isinstance(n, (ast.BinOp, ast.BoolOp, ast.Compare, ast.Attribute)) and n.lineno == n.end_lineno \
                and isinstance(getattr(n, 'ctx', ast.Load()), ast.Load):
            cands.append(n)
    cands.sort(key=lambda n: (n.lineno, n.col_offset, -n.end_col_offset), reverse=True)
    lines = src.split('\n')
    done = []  # (line, c0, c1) regions already rewritten: skip anything overlapping them
    for n in cands:
        if rng.random() > p:
            continue
        ln = n.lineno
        text = lines[ln - 1]
        if '\n' in text or not text.isascii():
            continue
        c0, c1 = n.col_offset, n.end_col_offset
        if any(l == ln and not (c1 <= a or c0 >= b) for l, a, b in done):
            continue
        seg = text[c0:c1]
        new = _break_at(seg, 'attr' if isinstance(n, ast.Attribute) else 'op', ' ' * (c0 + 1))
        if new is None:
            continue
        trial = lines[:]
        trial[ln - 1] = text[:c0] + '(' + new + ')' + text[c1:]
        flat = '\n'.join(trial)
        if _dump(flat) == d0:
            lines = flat.split('\n')
            # line numbers below shift by one: candidates are processed bottom-up, so only this line's regions matter
            done = [(l, a, b) for l, a, b in done if l != ln] + [(ln, 0, 10 ** 9)]
    return '\n'.join(lines)
