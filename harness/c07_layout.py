"""C07 / C08 layout mutator `wide`: multi-byte text on the same line before and inside every container.

Every identifier gets a non-ASCII suffix (1, 2 or 3-byte characters, chosen per identifier), every plain string literal a
CJK prefix, and some simple statements a trailing comment with astral characters, so that on every line that holds a
sliced container the character column differs from the UTF-8 byte offset by a few to many units.  Purely lexical
(tokenize); the result is accepted only if CPython still parses it to a tree of the same shape (same node classes in
walk order) - names and string values differ, which is irrelevant here: the mutated text is an *input* of its own.
"""

from __future__ import annotations

import ast
import io
import keyword
import random
import tokenize

_SUFFIX = ('é', 'ß', 'ж', 'λ', '日', '本語', '日本語', 'Ω', 'ñ')
_SOFT = {'match', 'case', 'type', '_'}
_KEEP = {'__future__', 'annotations', 'self'}


def wide(src: str, seed: int) -> str:
    rng = random.Random(seed * 977 + 5)
    try:
        toks = list(tokenize.generate_tokens(io.StringIO(src).readline))
    except (tokenize.TokenError, IndentationError, SyntaxError):
        return src
    names = {}
    edits = []  # (row, col0, col1, new)
    fdepth = 0
    for t in toks:
        if t.type == getattr(tokenize, 'FSTRING_START', -1):
            fdepth += 1
        elif t.type == getattr(tokenize, 'FSTRING_END', -2):
            fdepth -= 1
        if fdepth:
            continue
        if t.type == tokenize.NAME and not keyword.iskeyword(t.string) and t.string not in _SOFT \
                and t.string not in _KEEP and not t.string.startswith('__'):
            if t.string not in names:
                names[t.string] = t.string + _SUFFIX[rng.randrange(len(_SUFFIX))]
            edits.append((t.start[0], t.start[1], t.end[1], names[t.string]))
        elif t.type == tokenize.STRING and t.start[0] == t.end[0]:
            s = t.string
            i = 0
            while i < len(s) and s[i] not in '\'"':
                i += 1
            prefix = s[:i].lower()
            if 'b' in prefix or 'f' in prefix:
                continue
            q = 3 if s[i:i + 3] in ('"""', "'''") else 1
            edits.append((t.start[0], t.start[1] + i + q, t.start[1] + i + q, '日本語'))
    lines = src.split('\n')
    for row, c0, c1, new in sorted(edits, reverse=True):
        ln = lines[row - 1]
        lines[row - 1] = ln[:c0] + new + ln[c1:]
    out = '\n'.join(lines)
    try:
        a = [type(n).__name__ for n in ast.walk(ast.parse(src))]
        b = [type(n).__name__ for n in ast.walk(ast.parse(out))]
    except (SyntaxError, ValueError):
        return src
    return out if a == b else src
