"""Systematic (G) replay: rows of the TLC-generated request table concretised on the container catalogue."""

from __future__ import annotations

import ast
import json
import os
import random
import subprocess
import tempfile

from . import edits, catalogue, tlc
from .edits import FST, Plan


def emit_table() -> dict:
    """Run TLC on spec/ContainersGen.tla; returns {'rows': [...], 'argrows': [...]} plus '_stats'."""
    d = tempfile.mkdtemp(prefix='cgen-', dir=tlc.scratch())
    out = os.path.join(d, 'table.json')
    r = tlc.run_model('ContainersGen', 'ContainersGen', workers=1, env={'OUT_FILE': out}, coverage=False)
    with open(out) as f:
        tab = json.load(f)
    tab['_stats'] = {'generated': r.get('generated', 0), 'distinct': r.get('distinct', 0), 'wall_s': r['wall_s']}
    return tab


def _b(b):
    return 'end' if b['k'] == 'end' else b['v']


def python_list_result(row):
    """What Python's own list does for this row (None = IndexError / pfst's documented refusal of inverted bounds)."""
    n, lo = row['len'], row['lo']
    lst = list(range(1, n + 1))
    sub = lst[lo:]
    new = [100 + i for i in range(1, row['k'] + 1)]
    m = len(sub)
    try:
        if row['form'] == 'slice':
            s, t = _b(row['start']), _b(row['stop'])
            s = m if s == 'end' else s
            t = m if t == 'end' else t
            a, b, _ = slice(s, t).indices(m)
            if b < a:
                return None  # RefuseInverted
            sub[s:t] = new
        elif row['form'] == 'one':
            sub[_b(row['idx'])] = new[0]
        else:
            del sub[_b(row['idx'])]
    except IndexError:
        return None
    return lst[:lo] + sub


def spec_agrees_with_python(tab) -> list:
    """(i) binding of the spec to Python list semantics: every row's `result` equals Python's own. Returns mismatches."""
    bad = []
    for row in tab['rows']:
        py = python_list_result(row)
        refused = row.get('inverted', False) or row.get('indexError', False)
        if (py is None) != refused or (py is not None and py != row['result']):
            bad.append(row)
    return bad


CODEFORMS = ('src', 'ast', 'fst')
OPTS = ({}, {}, {'norm': True}, {'trivia': False}, {'pars': True}, {'pep8space': False})


def row_plan(t: catalogue.T, row, i: int, rng: random.Random):
    nvis = row['len'] - row['lo']
    src = t.build(nvis)
    p = Plan()
    p.path = catalogue.locate(t, src)
    p.kind, p.field, p.et = t.kind, t.field, t.et
    p.form = row['form']
    p.start = p.stop = p.idx = None
    if p.form == 'slice':
        p.start, p.stop = _b(row['start']), _b(row['stop'])
    else:
        p.idx = _b(row['idx'])
    p.srcs = [t.new(j) for j in range(row['k'])]
    p.codeform = CODEFORMS[i % 3] if t.et in ('expr', 'target', 'stmt') else ('src' if i % 2 else 'fst')
    if t.et in ('arglike', 'cmpelt', 'mmapelt', 'attrelt', 'dictelt', 'identifier', 'argelt'):
        p.codeform = 'src'
    p.opts = dict(OPTS[i % len(OPTS)])
    p.quant, p.lo, p.length = 'list', t.lo, nvis
    p.op, p.corrupt, p.view = None, None, None
    p.delim = bool(i % 2)  # key: value containers: the new elements as bare pairs / as a delimited `{...}` of their own
    return src, p


CAT_SRC = {'pos': 'p{}', 'star': '*s{}', 'kw': 'k{}=v{}', 'dstar': '**d{}'}


# layouts of the old elements: as one line; one element per line; "hugging" multi-line elements (the next element starts
# on the closing line of the previous one, at a smaller column than the previous one started)
CAT_SRC_HUG = {'pos': 'p{}[\n    0\n]', 'star': '*s{}[\n    0\n]', 'kw': 'k{}=[\n    v{},\n]', 'dstar': '**d{}(\n)'}


def argrow_plan(row, i: int, klass: str):
    old = row['old']
    layout = (i // 2) % 3
    if layout == 1:
        inner = '\n    ' + ',\n    '.join(CAT_SRC[c].format(j, j) for j, c in enumerate(old)) + ('\n' if old else '')
    elif layout == 2:
        inner = ', '.join(' ' * (2 * (len(old) - j)) + CAT_SRC_HUG[c].format(j, j) for j, c in enumerate(old))
    else:
        inner = ', '.join(CAT_SRC[c].format(j, j) for j, c in enumerate(old))
    src = f'f({inner})' if klass == 'Call' else f'class C({inner}): pass'
    tree = ast.parse(src)
    p = Plan()
    p.path = catalogue._find(tree, klass)
    p.kind, p.field, p.et = klass, '_args' if klass == 'Call' else '_bases', 'arglike'
    p.form = 'one'
    p.start = p.stop = None
    p.idx = row['at'] - 1 if i % 2 else row['at'] - 1 - len(old)  # positive and negative index forms
    p.srcs = [CAT_SRC[row['put']].format(9, 9).replace('p9', 'np').replace('s9', 'ns').replace('k9=v9', 'nk=nv').replace('d9', 'nd')]
    p.codeform = 'src'
    p.opts = {}
    p.quant, p.lo, p.length = 'list', 0, len(old)
    p.op, p.corrupt, p.view = None, None, None
    return src, p


def run_single(rec: edits.Recorder, tid: int, seed: int, src: str, plan: Plan, mode='exec') -> dict:
    rng = random.Random(seed)
    root = FST(src, mode)
    trace = {'id': tid, 'seed': seed, 'init': rec.state(root), 'steps': []}
    pre_tree = edits.try_parse(src)
    o = edits.oracle(plan, src, rec.tab)
    exc = edits.execute(plan, root, o, rng)
    post = rec.state(root)
    ev = edits.make_event(plan, o, exc, post, pre_tree)
    ev['hasClean'] = False
    ev['clean'] = {'outcome': '', 'text': 0}
    trace['steps'].append(ev)
    trace['script'] = [{'pre_src': src, 'plan': plan.describe(), 'post_src': root.src,
                        'exc': None if exc is None else f'{type(exc).__name__}: {exc}'}]
    return trace


def run_single_misc(rec: edits.Recorder, tid: int, seed: int, src: str, m, mode='exec') -> dict:
    """One misc event (prim_put, par, ...) on a fresh tree."""
    root = FST(src, mode)
    trace = {'id': tid, 'seed': seed, 'init': rec.state(root), 'steps': []}
    exc = edits.execute_misc(m, root)
    ev = edits.make_misc_event(m, exc, rec.state(root))
    trace['steps'].append(ev)
    trace['script'] = [{'pre_src': src, 'plan': m.describe(), 'post_src': root.src,
                        'exc': None if exc is None else f'{type(exc).__name__}: {exc}'}]
    return trace
