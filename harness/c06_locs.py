"""C06 recorder: location answers of pfst per node + oracle facts (CPython `ast` positions, `tokenize` tokens) -> traces
for spec/LocTrace.tla.

One trace = one source snapshot (a freshly parsed program / layout, or a tree after an edit step):
  text   lines of code points (the spec derives the UTF-8 byte<->char map from them)
  toks   non-trivia tokens  [type, s, srow, scol, erow, ecol]  exactly as `tokenize` reports them (1-based rows, CHARACTER
         columns); s = token string for ASCII operators / keywords-like names, '' otherwise
  cmts   COMMENT tokens [srow, scol, erow, ecol]
  nodes  pre-order (syntax order) node table of CPython's own parse of the text (oracle tree), paired with the live pfst
         tree by position in the tree; per node the oracle facts (kind, parent, field, children in syntax order, CPython's
         byte-based span, witness token indices of that span) and the *recorded answers* of pfst (loc, bloc, pars(),
         byte-based accessors, ln/col accessors)
  steps  one step per node (judged by the per-node clauses) followed by one step per query rectangle (find_* answers)

Python computes no verdict here: witnesses (token indices) are re-verified by the spec, child order is the grammar's
order (re-checked by the spec against CPython's positions, clause OrderOracle).
"""

from __future__ import annotations

import ast
import io
import random
import tokenize

from fst import FST  # implementation under test

TRIVIA = {tokenize.COMMENT, tokenize.NL, tokenize.NEWLINE, tokenize.INDENT, tokenize.DEDENT, tokenize.ENDMARKER}
CTX = (ast.Load, ast.Store, ast.Del)


# ----------------------------------------------------------------------------------------------------------------------
# syntax order of children (grammar knowledge only; `ast` field lists with the known interleavings)

def _bypos(nodes):
    return sorted(nodes, key=lambda fn: (fn[2].lineno, fn[2].col_offset))


def syntax_children(a):
    """[(field, index or -1, child AST)] in source order. `a` is a CPython AST node. expr_context is not a node here."""
    k = a.__class__
    out = []

    def one(f):
        v = getattr(a, f, None)
        if isinstance(v, ast.AST) and not isinstance(v, CTX):
            out.append((f, -1, v))

    def many(f):
        for i, v in enumerate(getattr(a, f, None) or []):
            if isinstance(v, ast.AST):
                out.append((f, i, v))

    if k is ast.Dict:
        for i, (kk, vv) in enumerate(zip(a.keys, a.values)):
            if kk is not None:
                out.append(('keys', i, kk))
            out.append(('values', i, vv))
    elif k is ast.Compare:
        out.append(('left', -1, a.left))
        for i, (o, c) in enumerate(zip(a.ops, a.comparators)):
            out.append(('ops', i, o))
            out.append(('comparators', i, c))
    elif k is ast.arguments:
        pos = [('posonlyargs', i, x) for i, x in enumerate(a.posonlyargs)] + [('args', i, x) for i, x in enumerate(a.args)]
        nd = len(a.defaults)
        for j, item in enumerate(pos):
            out.append(item)
            d = j - (len(pos) - nd)
            if d >= 0:
                out.append(('defaults', d, a.defaults[d]))
        if a.vararg:
            out.append(('vararg', -1, a.vararg))
        for i, x in enumerate(a.kwonlyargs):
            out.append(('kwonlyargs', i, x))
            if a.kw_defaults[i] is not None:
                out.append(('kw_defaults', i, a.kw_defaults[i]))
        if a.kwarg:
            out.append(('kwarg', -1, a.kwarg))
    elif k is ast.Call:
        out.append(('func', -1, a.func))
        out += _bypos([('args', i, x) for i, x in enumerate(a.args)] + [('keywords', i, x) for i, x in enumerate(a.keywords)])
    elif k is ast.ClassDef:
        many('decorator_list')
        many('type_params')
        out += _bypos([('bases', i, x) for i, x in enumerate(a.bases)] + [('keywords', i, x) for i, x in enumerate(a.keywords)])
        many('body')
    elif k in (ast.FunctionDef, ast.AsyncFunctionDef):
        many('decorator_list')
        many('type_params')
        one('args')
        one('returns')
        many('body')
    elif k is ast.MatchMapping:
        for i, (kk, pp) in enumerate(zip(a.keys, a.patterns)):
            out.append(('keys', i, kk))
            out.append(('patterns', i, pp))
    elif k is ast.IfExp:
        one('body')
        one('test')
        one('orelse')
    else:
        for f in a._fields:
            v = getattr(a, f, None)
            if isinstance(v, list):
                many(f)
            else:
                one(f)
    return out


# ----------------------------------------------------------------------------------------------------------------------
# tokens

def tokenize_src(src):
    """(non-trivia tokens, comments) or None when `tokenize` rejects the text."""
    toks, cmts = [], []
    try:
        for t in tokenize.generate_tokens(io.StringIO(src).readline):
            if t.type == tokenize.COMMENT:
                cmts.append([t.start[0], t.start[1], t.end[0], t.end[1]])
            if t.type in TRIVIA:
                continue
            s = t.string if (t.type in (tokenize.OP, tokenize.NAME) and t.string.isascii() and len(t.string) <= 10) else ''
            ecol = t.end[1]
            if t.type == tokenize.STRING and '\n' in t.string:
                # oracle repair (CPython 3.12.1 `tokenize`): the end column of a multi-line STRING token comes out short by
                # the non-ASCII byte surplus of its earlier lines; the token text itself is exact, so its last line is used
                ecol = len(t.string.rsplit('\n', 1)[1])
            if tokenize.tok_name[t.type] == 'FSTRING_MIDDLE' and t.start[0] != t.end[0]:
                ecol = -1  # same tokenize defect for multi-line FSTRING_MIDDLE; its text is not the source text (`{{`), so
                #            the end is left unknown: the spec never needs it (literal parts end at the next structural token)
            toks.append([tokenize.tok_name[t.type], s, t.start[0], t.start[1], t.end[0], ecol])
    except (tokenize.TokenError, IndentationError, SyntaxError):
        return None
    return toks, cmts


def _loc4(l):
    return [] if l is None else [int(l[0]), int(l[1]), int(l[2]), int(l[3])]


def _pars5(p):
    return [] if p is None else [int(p[0]), int(p[1]), int(p[2]), int(p[3]), int(p.n)]


RAISED = -9


def _obs(fn, conv, n=4):
    try:
        return conv(fn())
    except Exception:  # noqa: BLE001
        return [RAISED] * n


def _int4(*v):
    return [] if any(x is None for x in v) else [int(x) for x in v]


class Snapshot:
    """Node table of one source text with pfst's answers."""

    def __init__(self, root, src=None):
        self.root = root
        self.src = root.src if src is None else src
        self.ok = False
        self.why = ''
        try:
            self.otree = ast.parse(self.src)
        except (SyntaxError, ValueError, RecursionError):
            self.why = 'source does not parse'
            return
        tk = tokenize_src(self.src)
        if tk is None:
            self.why = 'source does not tokenize'
            return
        self.toks, self.cmts = tk
        self.lines = self.src.split('\n')
        self._blines = [ln.encode('utf-8') for ln in self.lines]
        self._tstart = {(t[2], t[3]): i + 1 for i, t in enumerate(self.toks)}
        self._tend = {(t[4], t[5]): i + 1 for i, t in enumerate(self.toks)}
        # literal parts of f-strings start after / end before a structural token (witness kind 1, verified by the spec)
        self._after = {(t[4], t[5]): i + 1 for i, t in enumerate(self.toks) if t[0] == 'FSTRING_START' or t[1] in ('}', '{')}
        self._before = {(t[2], t[3]): i + 1 for i, t in enumerate(self.toks)
                        if t[0] == 'FSTRING_END' or t[1] in ('{', '}', '!', ':')}
        self.nodes = []   # records (1-based ids)
        self.live = []    # live AST node per record (strong refs)
        self.by_live = {}
        if not isinstance(root.a, ast.Module):
            self.why = 'root is not a Module'
            return
        try:
            self._add(self.otree, root.a, 0, '', -1, False)
        except _Shape as e:
            self.why = f'live tree and parse of the source differ in shape ({e})'  # C01's business, outside C06's domain
            return
        self.ok = True

    def _b2c(self, row, b):
        """Witness computation only (python's own decoder); the spec recomputes the map from the code points."""
        try:
            return len(self._blines[row - 1][:b].decode('utf-8'))
        except (UnicodeDecodeError, IndexError):
            return -1

    def _add(self, o, a, par, fld, fi, infstr):
        if o.__class__ is not a.__class__:
            raise _Shape(f'{o.__class__.__name__} vs {a.__class__.__name__}')
        f = getattr(a, 'f', None)
        if f is None:
            raise _Shape('live node without FST')
        nid = len(self.nodes) + 1
        rec = {'k': o.__class__.__name__, 'par': par, 'fld': fld, 'fi': fi, 'ch': [], 'x': 0, 'tsk': 0, 'tek': 0}
        self.nodes.append(rec)
        self.live.append(a)
        self.by_live[id(a)] = nid
        if hasattr(o, 'end_col_offset') and o.end_col_offset is not None and hasattr(o, 'lineno'):
            rec['cp'] = [o.lineno, o.col_offset, o.end_lineno, o.end_col_offset]
            ps = (o.lineno, self._b2c(o.lineno, o.col_offset))
            pe = (o.end_lineno, self._b2c(o.end_lineno, o.end_col_offset))
            rec['ts'] = self._tstart.get(ps, 0)
            rec['te'] = self._tend.get(pe, 0)
            if isinstance(o, ast.Constant) and fld == 'values':  # literal part of an f-string (parent is a JoinedStr)
                if not rec['ts'] and ps in self._after:
                    rec['ts'], rec['tsk'] = self._after[ps], 1
                if not rec['te'] and pe in self._before:
                    rec['te'], rec['tek'] = self._before[pe], 1
            elif isinstance(o, ast.JoinedStr) and fld == 'format_spec' and not rec['te'] and pe in self._before:
                rec['te'], rec['tek'] = self._before[pe], 1  # ends where the `}` of its field starts
        else:
            rec['cp'] = []
            rec['ts'] = rec['te'] = 0
        if isinstance(o, ast.comprehension):
            rec['x'] = int(o.is_async)
        # ---- recorded answers of pfst (an exception is an observation too: recorded as the impossible span RAISED)
        loc = _obs(lambda: f.loc, _loc4)
        rec['loc'] = loc
        rec['bloc'] = _obs(lambda: f.bloc, _loc4)
        rec['lc'] = _obs(lambda: (f.ln, f.col, f.end_ln, f.end_col), lambda v: _int4(*v))
        rec['at'] = _obs(lambda: (f.lineno, f.col_offset, f.end_lineno, f.end_col_offset), lambda v: _int4(*v))
        rec['pT'] = _obs(lambda: f.pars(), _pars5, 5) if loc else []
        rec['pF'] = _obs(lambda: f.pars(shared=False), _pars5, 5) if loc else []
        rec['own'] = bool(f.has_own_loc)
        # ---- children
        och = syntax_children(o)
        for (cf, ci, oc) in och:
            v = getattr(a, cf, None)
            ac = v if ci < 0 else (v[ci] if isinstance(v, list) and ci < len(v) else None)
            if not isinstance(ac, ast.AST):
                raise _Shape(f'{rec["k"]}.{cf}[{ci}] missing in live tree')
            cid = self._add(oc, ac, nid, cf, ci, infstr)
            rec['ch'].append(cid)
        # live tree must not have more children than the parse (shape equality both ways)
        if len(syntax_children(a)) != len(och):
            raise _Shape(f'{rec["k"]} child count')
        return nid

    # -- queries --------------------------------------------------------------------------------------------------
    def nid_of(self, fst_node):
        if fst_node is None:
            return 0
        return self.by_live.get(id(fst_node.a), -1)  # -1: a node outside the table (expr_context)

    def query(self, frm, rect):
        f = self.live[frm - 1].f
        ln, col, eln, ecol = rect

        def call(fn, *a, **kw):
            try:
                return self.nid_of(fn(ln, col, eln, ecol, *a, **kw))
            except Exception:  # noqa: BLE001  an exception is an observation: recorded as "no such node" (-2)
                return -2

        return {'ev': 'find', 'frm': frm, 'r': [ln, col, eln, ecol],
                'fin': call(f.find_in_loc),
                'cT': call(f.find_contains_loc, True), 'cF': call(f.find_contains_loc, False),
                'cTop': call(f.find_contains_loc, 'top'),
                'lF': call(f.find_loc, False), 'lT': call(f.find_loc, True)}

    def rects(self, rng: random.Random, n_random, max_spans=None, max_gaps=None):
        """Query rectangles: node spans, token gaps, random rectangles (char positions and token boundaries)."""
        out = []
        spans = [tuple(r['loc']) for r in self.nodes if r['loc']]
        spans = list(dict.fromkeys(spans))
        if max_spans is not None and len(spans) > max_spans:
            spans = rng.sample(spans, max_spans)
        out += spans
        gaps = []
        for t, u in zip(self.toks, self.toks[1:]):
            gaps.append((t[4] - 1, t[5], u[2] - 1, u[3]))
        if max_gaps is not None and len(gaps) > max_gaps:
            gaps = rng.sample(gaps, max_gaps)
        out += gaps
        pts = sorted({(t[2] - 1, t[3]) for t in self.toks} | {(t[4] - 1, t[5]) for t in self.toks})
        nl = len(self.lines)
        for i in range(n_random):
            m = i % 4
            if m == 0 and len(pts) >= 2:  # token-boundary aligned
                a, b = sorted(rng.sample(range(len(pts)), 2))
                p, q = pts[a], pts[min(len(pts) - 1, a + rng.choice((1, 1, 2, 3, b - a)))]
            else:
                l1 = rng.randrange(nl)
                p = (l1, rng.randrange(len(self.lines[l1]) + 1))
                if m == 1:  # short, same line
                    q = (l1, min(len(self.lines[l1]), p[1] + rng.randrange(0, 6)))
                else:
                    l2 = min(nl - 1, l1 + rng.choice((0, 0, 0, 1, 2, nl)))
                    q = (l2, rng.randrange(len(self.lines[l2]) + 1))
                if q < p:
                    p, q = q, p
            out.append((p[0], p[1], q[0], q[1]))
        return out

    def trace(self, tid, queries=(), meta=None):
        steps = [{'ev': 'node', 'n': i + 1} for i in range(len(self.nodes))] + list(queries)
        return {'id': tid, 'text': [[ord(c) for c in ln] for ln in self.lines], 'toks': self.toks, 'cmts': self.cmts,
                'nodes': self.nodes, 'steps': steps, 'meta': meta or {}, 'm': 0}  # m: slot of the spec's memo tables


class _Shape(Exception):
    pass


def batch(traces):
    """Batch dict for spec/LocTrace.tla (the unused tables of Batch.tla must exist: TLC formats the whole batch into an
    error message for every missing field, which costs seconds)."""
    return {'stab': [], 'ptab': [], 'ttab': [], 'traces': traces}


def snapshot_trace(tid, src, rng, n_random, from_inner=2, max_spans=None, max_gaps=None, root=None, meta=None):
    """Trace of a fresh pfst tree of `src` (or of the given live `root`) incl. find queries; None if outside the domain."""
    if root is None:
        try:
            root = FST(src, 'exec')
        except Exception:  # noqa: BLE001
            return None
    snap = Snapshot(root)
    if not snap.ok:
        return None
    qs = [snap.query(1, r) for r in snap.rects(rng, n_random, max_spans, max_gaps)]
    # the same kind of query started at inner nodes ("the search will only find nodes at self or below")
    inner = [i + 1 for i, r in enumerate(snap.nodes) if r['loc'] and r['ch']]
    for _ in range(from_inner if inner else 0):
        frm = rng.choice(inner)
        sub = _subtree(snap.nodes, frm)
        for n in rng.sample(sub, min(len(sub), 6)):
            if snap.nodes[n - 1]['loc']:
                qs.append(snap.query(frm, tuple(snap.nodes[n - 1]['loc'])))
        l = snap.nodes[frm - 1]['loc']
        qs.append(snap.query(frm, (l[0], l[1], l[0], l[1])))
        qs.append(snap.query(frm, (0, 0, len(snap.lines) - 1, len(snap.lines[-1]))))
    return snap.trace(tid, qs, meta)


def _subtree(nodes, n):
    out, stack = [], [n]
    while stack:
        m = stack.pop()
        out.append(m)
        stack += nodes[m - 1]['ch']
    return out


# ----------------------------------------------------------------------------------------------------------------------
# multi-byte mutator: put multi-byte text (identifiers, strings, comments) before / inside / after nodes on the same line

_MB_IDS = ['ä', 'éé', 'λx', 'ж_', '日本', 'Ω1', 'ñ', '語', 'x𝒳']   # the last one contains an astral (4-byte) code point
_MB_STRS = ['"é"', "'日本語'", '"a𝒳b"', "'ж'", '"""ü"""']


def multibyte(src: str, rng: random.Random, p=0.5) -> str:
    """Rename identifiers (consistently, whole file) to multi-byte ones, turn some string constants multi-byte, add
    multi-byte comments and prepend `"é"; ` style statements before simple statements on the same line. The result is
    accepted only if it parses to the same shape (node kinds in `ast.walk` order)."""
    import keyword
    try:
        tree = ast.parse(src)
        toks = list(tokenize.generate_tokens(io.StringIO(src).readline))
    except (SyntaxError, tokenize.TokenError, IndentationError):
        return src
    shape = [type(n).__name__ for n in ast.walk(tree)]

    def same(s):
        try:
            t2 = ast.parse(s)
            compile(s, '<mb>', 'exec')
        except (SyntaxError, ValueError):
            return False
        return [type(n).__name__ for n in ast.walk(t2)] == shape

    # (1) identifiers: every NAME token that is not a keyword and not in an import / attribute / keyword-arg role
    names = sorted({n.id for n in ast.walk(tree) if isinstance(n, ast.Name)} |
                   {n.arg for n in ast.walk(tree) if isinstance(n, ast.arg)})
    banned = {n.attr for n in ast.walk(tree) if isinstance(n, ast.Attribute)} | \
             {k.arg for n in ast.walk(tree) if isinstance(n, (ast.Call, ast.ClassDef)) for k in n.keywords if k.arg} | \
             {al.asname or al.name.split('.')[0] for n in ast.walk(tree) if isinstance(n, (ast.Import, ast.ImportFrom))
              for al in n.names} | \
             {nm for n in ast.walk(tree) if isinstance(n, (ast.Global, ast.Nonlocal)) for nm in n.names} | \
             {n.name for n in ast.walk(tree) if isinstance(n, (ast.MatchAs, ast.MatchStar)) and n.name} | \
             {n.rest for n in ast.walk(tree) if isinstance(n, ast.MatchMapping) and n.rest} | \
             {n.name for n in ast.walk(tree) if isinstance(n, ast.ExceptHandler) and n.name} | \
             {kw for n in ast.walk(tree) if isinstance(n, ast.MatchClass) for kw in n.kwd_attrs}
    ren = {}
    for nm in names:
        if keyword.iskeyword(nm) or keyword.issoftkeyword(nm) or nm in banned or nm.startswith('__'):
            continue
        if rng.random() < p:
            ren[nm] = rng.choice(_MB_IDS) + nm
    lines = src.split('\n')
    fs = 0
    edits = []
    for t in toks:
        if t.type == getattr(tokenize, 'FSTRING_START', -1):
            fs += 1
        elif t.type == getattr(tokenize, 'FSTRING_END', -2):
            fs -= 1
        elif not fs and t.type == tokenize.NAME and t.string in ren:
            edits.append((t.start, t.end, ren[t.string]))
        elif not fs and t.type == tokenize.STRING and t.start[0] == t.end[0] and rng.random() < p / 2 \
                and t.string[:1] in '"\'' and not t.string.startswith(('"""', "'''")):
            edits.append((t.start, t.end, t.string[0] + 'é𝒳' + t.string[1:]))
    trial = lines[:]
    for (sl, sc), (el, ec), new in sorted(edits, reverse=True):
        trial[sl - 1] = trial[sl - 1][:sc] + new + trial[sl - 1][ec:]
    cand = '\n'.join(trial)
    # string edits change constants but not the shape; names are renamed consistently
    if same(cand):
        src, lines = cand, trial
    # (2) a multi-byte statement before simple statements on the same line, multi-byte comments after
    try:
        tree = ast.parse(src)
        toks = list(tokenize.generate_tokens(io.StringIO(src).readline))
    except (SyntaxError, tokenize.TokenError, IndentationError):
        return src
    has_comment = {t.start[0] for t in toks if t.type == tokenize.COMMENT}
    multi = set()
    for t in toks:
        if t.start[0] != t.end[0]:
            multi.update(range(t.start[0], t.end[0] + 1))
    lines = src.split('\n')
    for i, text in enumerate(lines, 1):
        if i in has_comment or i in multi or not text.strip() or text.rstrip().endswith('\\'):
            continue
        if rng.random() < p / 2:
            trial = lines[:]
            trial[i - 1] = text.rstrip() + '  # ' + rng.choice(('é', '日本語 λ', '𝒳 ж'))
            try:
                ast.parse('\n'.join(trial))
            except SyntaxError:
                continue
            lines = trial
    return '\n'.join(lines)


def prefix_statements(src: str, rng: random.Random, p=0.35) -> str:
    """`"é"; stmt` : a multi-byte expression statement before a simple statement on the same physical line (this changes
    the tree - one more Expr per insertion - which is fine for C06: any parsable program is in the domain)."""
    try:
        tree = ast.parse(src)
    except SyntaxError:
        return src
    simple = (ast.Assign, ast.AugAssign, ast.Expr, ast.Pass, ast.Return, ast.Delete, ast.Assert, ast.Raise, ast.Break,
              ast.Continue, ast.AnnAssign, ast.Global, ast.Nonlocal, ast.Import, ast.ImportFrom)
    lines = src.split('\n')
    spots = []
    for n in ast.walk(tree):
        if isinstance(n, simple) and not lines[n.lineno - 1][:n.col_offset].strip() and lines[n.lineno - 1].isascii():
            spots.append(n)
    spots.sort(key=lambda n: (-n.lineno, -n.col_offset))
    for n in spots:
        if rng.random() > p:
            continue
        text = lines[n.lineno - 1]
        trial = lines[:]
        trial[n.lineno - 1] = text[:n.col_offset] + rng.choice(_MB_STRS) + '; ' + text[n.col_offset:]
        try:
            ast.parse('\n'.join(trial))
        except SyntaxError:
            continue
        lines = trial
    return '\n'.join(lines)


# ----------------------------------------------------------------------------------------------------------------------
# extra inputs aimed at the location scanners (parentheses, comments and continuations around computed locations)

C06_EXTRA = [
    # comprehensions: parenthesised parts, shared / unshared generator parentheses, async
    '''
async def comp():
    x = [i async for (i) in (j) if (k) if ((l))]
    y = {a: b for a, b in (c) if d for (e) in ((f))}
    z = (i for i in (j))
    w = f(i for i in j)
    v = f((i for i in j))
    u = f(i for i in (j) if (k))
    t = (f(i for i in j))
    s = [i for i in (  # c
        j  # d
    ) if (
        k )]
    r = {i for i in j if i if (i) for i in (k)}
    return (x async for x in y)
''',
    # calls / bases / patterns: the solo-argument sharing rule
    '''
t = (f)((a))
s = f((a), )
r = f(*a)
q = f((a), b, (c))
p = f(((a)))
o = f((a), k=(b))
n = f(k=(b))
m = (f((a)))
l = f(*(a), **(b))
class D((A)): pass
class E(A,): pass
class F((A), metaclass=(M)): pass
class G[T]((A)): pass
match x:
    case C((a)): pass
    case C(x=(a)): pass
    case C((a), b): pass
    case C((1)): pass
    case ((a, b)): pass
    case [(a), *b]: pass
    case {"k": (v), **rest}: pass
    case (1) | (2): pass
    case (a) if (b): pass;
    case a: pass; pass;
''',
    # with items
    '''
with (a): pass
with ((a)): pass
with (a), (b) as (c): pass
with (a as b): pass
with (a as b, c as d): pass
with ((a) as b, (c)): pass
with (a,): pass
with (a, b): pass
with a as (b, c): pass
with (  # c
    (a)  # d
    as (b)
): pass
async def w():
    async with (a as b, c as d): pass
    async with (a): pass
''',
    # arguments: lambda delimiters, def parentheses, type parameters
    '''
f = lambda: 0
f = lambda  x : 0
f = lambda x: 0
f = lambda *a, **k: 0
f = lambda x=(lambda: 1): x
f = lambda x={1:2}, y=a[1:2]: x
f = lambda\tx: 0
f = lambda \\
    x: 0
f = lambda *, a=(1): a
def g(): pass
def g( ): pass
def g(a, /, b, *, c=1, **k): pass
def g(  # c
    a,  # d
    b=(1),
): pass
def g[T: (int, str), *Ts, **P](a: T = (1)) -> (T): pass
def g[T](): pass
async def h(a=(1)): pass
async def h[T]( a ) -> (T): pass
def k(a=lambda: (1), b=(lambda: 2)): pass
def k(a: (int) = ((1)), *b: (int), **c: (int)): pass
''',
    # operators: every lexeme, two-word operators with trivia inside, AugAssign
    '''
a = (b) + (c) - d * e @ f / g % h ** i << j >> k | l ^ m & n // o
a = -b + +c + ~d
a = not (b)
a = b is not c
a = b is  not c
a = b not  in c
a = (b is # c
     not c)
a = (b not # c
     in # d
     c)
a = b is \\
    not c
a = b < c <= d > e >= f == g != h in i not in j is k is not l
a += 1
a -= (1)
a *= 1
a @= 1
a /= 1
a %= 1
a **= 1
a <<= 1
a >>= 1
a |= 1
a ^= 1
a &= 1
a //= 1
(a) += (1)
a[0] **= -1
a = (  # c
    b  # d
    +  # e
    c)
a = b if (c) else (d)
a = (b) and (c) or (not d)
''',
    # decorators / bounding locations / trailing comments / semicolons
    '''
@a
def f(): pass  # c1

@ \\
 (b)
@c.d  # c2
@e(f)
class G:  # c3
    @(g := h)
    def i(self): pass;  # c4

    @ j  # c5
    async def k(self): return 1  # c6

if a: pass;
elif b:
    pass  # c7
else: pass  # c8

for x in y: pass  # c9
if a: x = "#"\x20\x20
if a: x = "# not a comment"; y = 1;\x20
if a:
    x = ("#",
         1)\x20\x20
def h():
    return "#"
while a: b; c  # c10
try: pass  # c11
except (A): pass  # c12
finally: pass  # c14
try: pass
except* B: pass  # c13
''',
    # multi-byte text before / inside / after nodes on the same line
    '''
"é"; ä = [ö for ü in ß if é]; "日本"
"𝒳"; x = f(λ for λ in Ω); "語"  # ж
"é"; y = lambda  λ : λ; "é"
"é"; z = a is  not b; "é"
"日本語"; z += "é" + ñ; "é"
with (ä) as (ö), (ü): "é"; pass  # ж
"é"; z = -ñ; z = not ñ; z = ñ not in ñ
def fé(ä, ö="é", *ü, **ß) -> "é": "日本語"; return ä  # é
"é"; w = {"é": ä, **ö}; "é"
match ä:
    case ("é"): "é"; pass;  # é
    case Cé((ä)): "é"
@ñ
class Ké("é".x): "é"  # é
"é"; v = (ä)(ö)((ü))[ß:"é":ñ]; "é"
''',
    # f-strings next to nodes, string concatenation, nested parentheses
    '''
a = f"{b}" + (c)
a = (f"x{y}z") + "é" "é"
a = ((("a"
       "b")))
a = ((b), (c),)
a = [(b), *(c)]
a = {**(b), (c): (d)}
a[(b):(c), (d)] = (e)
del (a), (b)
for (a), (b) in (c): pass
print((yield))
x = (yield (a))
x = (await (a)) if 0 else 0
(a): int = (1)
(a.b): (int)
x = (a := (1))
assert (a), (b)
raise (a) from (b)
return_ = (a)
global g1
import a.b as c, d
from . import (e as f, g)
type T[U] = (list[U])
''',
    # search bounds: what FOLLOWS a computed location is decorated / parenthesised / commented, so a scan that runs past
    # the node's own last token meets `(`, `)`, `:`, `@`, `#` that belong to the next sibling (def/lambda arguments,
    # comprehension / withitem / match_case ends, block headers)
    '''
def decorator(func):
    @functools.wraps(func)
    def wrapper(*a): return func(*a)
    return wrapper

def factory(n, m=(1)):
    @outer(inner(n))
    @other((n))[0]
    class K: pass

async def af(x, y=(1), *z):
    @d(x)()
    async def inner(): pass

def nested():
    @a(1)
    def one():
        @b(2)
        def two():
            @c(3)
            class Three: pass

class C:
    @staticmethod
    def m(): pass
    @prop(1)  # ) c
    def n(self,): pass
    def o(self):
        @d()
        def p(): pass

class D(A, metaclass=(M)):
    @deco(("x"))
    def f(self): pass

class E(A):
    @deco(1)
    class Inner(B): pass

def g():  # ) comment with parenthesis
    (x)
def h():
    # ) own-line comment (
    (yield)
def i(): (x); (y)
def j(a=(1)): [(x)]
def k(
): (  # c
    x)
def l() -> (T):
    @d(())
    def m(): pass
def n[T](a: T):
    @d(T)
    def o(): pass
for x in y:
    @d(x)
    def q(): pass
if a:
    @d(a)
    def r(): pass
else:
    @d(b)
    class S: pass
try:
    @d(t)
    def t(): pass
except (E):
    @d(u)
    def u(): pass
finally:
    @d(v)
    def v(): pass
while (a):
    @d(w)
    def w(): pass
''',
    '''
with a as b:
    @d(x)
    def f(): pass
with (a):
    (x)
with a: (x)
with a, (b): (c)
with a as b, (c) as (d): (e)
with a as (b):
    @d((b))
    class W: pass
with (a), b:  # ) c
    (x)
async def aw():
    async with a as b, c:
        @d(1)
        async def f(): pass
match s:
    case a:
        @d()
        def f(): pass
    case (a): (x)
    case a if b:
        (c)
    case [a, (b)]:  # ) c
        @d((1))
        class M: pass
    case C(a) if (b): (c); (d)
    case {"k": v}:
        # ) comment
        (v)
f = lambda: (x)
f = g(lambda: (x), (y))
f = lambda a: (b)
f = (lambda a, b=(1): (a)), (c)
f = [lambda: (x), (y)]
f = lambda: (yield), (z)
f = g((x for x in y), (z))
f = [x for x in y if z], (w)
f = {x for x in (y)}, (z)
f = g(x for x in y)(z)
f = [(x) for x in y if (z)][(0)]
f = {k: v for k, v in y if z}, (w)
f = a if b else (c), (d)
f = a < b, (c)
f = not a, (b)
f = a + b, (c)
x += y; (z)
''',
    # f-string internals (CPython 3.12: tokens + positioned nodes): literal parts, fields, conversions, format specs with
    # nested fields, self-documenting fields, nested f-strings, triple-quoted multi-line, implicit concatenation,
    # parentheses in the literal text and around field expressions, multi-byte text before / inside / after
    '''
a = f"a{x}b"
b = f"{x = }" + f"{x!r:>{w}.3}" + f"{x=}" + f"{ x = !s:^{w}}"
c = f"a{{b}}{x}c" "d" f"{f"{y}"}{x:{y}>{z}}"
d = f"({x})" f"[{(x)}]" f"{ (x) !s}" f"{((x))!r:({w})}" f"){x}("
e = "p" f"q{x}r" "s" f"t" f"{y}" "u"
g = f"{(lambda: (1))()}{[i for i in (j)]!a}{x if y else (z)}{x:}{{}}{x!r:}"
h = rf"\\d{x}\\n" f"\\n{y}" fr"{z}\\d"
i = f"{x:%H:%M}" f"{x:{y}{z}}" f"{x:{y:{z}}}" f"{a}{b}" f"{a} {b} "
j = f"{x!r}" + f"{f"{f"{x}"}"}" + f"{'q'}" + f"{"q"}" + f"{f'{x:>{w}}'}"
k = print(f"{x}", f"{y=}", sep=f"{z}")
''',
    '''
"é"; a = f"é{ä!r:>{ö}}ü" "ß"; z = f"{ä=}é{ö = }ü"; "é"
"日本"; b = f"日{本:{語}>{語}}本" + f"𝒳{x}𝒳{y!s}𝒳"; c = f"{"é"}{'ü' + ä}"  # é
def fé(ä=f"{ö}é", *ü: f"é{ß}"): return f"é{ä}" f"{ü}é"  # ж
x = f\'\'\'a{x:
>5}é
{y=}b
{z
=
}c\'\'\' 'd'
w = f\'\'\'{
x!r
:>{
 w}}\'\'\'
v = f"""é
{ä}ü{ö
}ß""" f"{x}" """
é""" f"""{y
=}"""
u = (f"é{ä}"
     "ü"
     f"{ö}ß")
if f"{x}": y = f"{x}"  # c
''',
]
