"""Catalogue of new-code snippets per ASDL type, and the independent (CPython-only) parse of each.

parse_elem(typ, src) embeds the fragment in a full construct CPython can parse and returns the fragment's node; this is
the same embedding table ParseModes.tla specifies (see spec/ParseModes.tla, kept in sync by check C05's table test).
"""

from __future__ import annotations

import ast

EXPR = [
    'x', 'new_name', '42', "'s'", 'None', 'f(y)', 'a.b', 'c[d]', 'p + q', 'p * q', '-n', 'not n', 'p and q',
    'p or q', 'p < q', 'p if q else r', 'lambda: z', 'lambda a: a', '[i, j]', '(i, j)', '{i, j}', '{k: v}',
    '[e for e in s]', '(e for e in s)', 'w := 1', 'await aw', 'yield', 'yield y', 'yield from g', '*st',
    'a, b', 'p ** q', 'i is not j', 'u in v', 'f(a)(b)', 'x.y.z', "b'b'", '1.5', '...', 'ñ', "'ü'",
    '(\n    ml_a +\n    ml_b\n)', 'f(a,\n  b)', '[\n    el1,  # c\n    el2,\n]', '(par)', '((dpar))', 'p\\\n+ q',
    'f(a,\n  b).attr', 'tbl[\n    k\n].val', '{\n    1: 2,\n}', '"""s\ns""".lower', 'g(\n).x.y', '0x1F',
    '(ml_c +\n    ml_d)', '(ml_e or\n ml_f)', '(not\n ml_g)', '(ml_h\n .ml_i)',
]
TARGET = ['t', 't.a', 't[i]', '(t1, t2)', '[t3, t4]', '*t5', 't6, t7', 'ü']
STMT = [
    'new = 1', 'call()', 'pass', 'return r', 'del d', 'x += 1', 'assert a', 'raise E', 'import m', 'from m import n',
    'global g', 'if c: pass', 'if c:\n    t = 1\nelse:\n    t = 2', 'for i in j: pass', 'while w: break',
    'def fn(): pass', 'def fn(a, b=1):\n    """doc"""\n    return a', 'class K: pass', 'with c as d: pass',
    'try: pass\nexcept E: pass', 'try:\n    a\nfinally:\n    b', 'a = 1; b = 2', 'x = 1  # cmt', '# pre\ny = 2',
    'match m:\n    case 1: pass', 'type T = int', 'async def af(): pass', 'a: int = 1', '@d\ndef g(): pass',
    "'''doc'''", 'nonlocal nl', 'continue', 'lst = [\n    1,\n    2,\n]', 'yield y', 'await w',
]
ARG = ['na', 'nb: int', 'ü']
ARGUMENTS_ELT = ['na', 'nb: int', 'nc=1', 'nd: str = "s"']
KEYWORD = ['kw=1', 'k2=a + b', '**kws']
ALIAS_IMPORT = ['mod', 'mod as m', 'pk.sub', 'pk.sub as ps']
ALIAS_FROM = ['nm', 'nm as n']
WITHITEM = ['cm', 'cm as v', 'f() as (a, b)', 'cm as v.attr']
HANDLER = ['except E: pass', 'except (E1, E2) as e:\n    handle(e)', 'except E as e: pass']
HANDLER_STAR = ['except* E: pass', 'except* (E1, E2) as e:\n    handle(e)']
MATCH_CASE = ['case 1: pass', 'case [a, b]:\n    use(a, b)', 'case {"k": v} if v: pass', 'case C(x=1): pass', 'case _: pass']
PATTERN = ['1', "'s'", 'None', 'cap', '_', '[p1, p2]', '(p3, p4)', '{"k": pv}', 'Cls(a, b=1)', 'p5 | p6', 'p7 as nm',
           'mod.CONST', '-1', '*rest', '[*_]']
COMPREHENSION = ['for i in it', 'for i, j in it if i', 'async for k in ait', 'for i in it if c1 if c2']
TYPE_PARAM = ['T', 'T: int', '*Ts', '**P', 'T: (int, str)']
IDENT = ['ident', 'other_id', 'ünï']
DICT_ELT = ['k1: v1', '**dd', "'s': [1, 2]", 'k2: v2 if c else d']
MMAP_ELT = ['1: pa', "'k': [x, y]", 'A.b: _']


def _unwrap_expr(src):
    return ast.parse(f'(\n{src}\n)', mode='eval').body if not src.lstrip().startswith('*') else \
        ast.parse(f'[\n{src}\n]', mode='eval').body.elts[0]


def parse_elem(typ: str, src: str, ctx: str | None = None):
    """Independent parse of one element of ASDL type `typ` given as source text. Raises SyntaxError if invalid
    (including fragments that only parse because they escape the wrapper)."""
    try:
        r = _parse_elem(typ, src)
    except (AttributeError, IndexError, TypeError, KeyError) as e:
        raise SyntaxError(f'wrapper escape: {e}') from None
    except (ValueError, RecursionError, MemoryError) as e:
        raise SyntaxError(str(e)) from None
    if typ in ('expr', 'pattern') and src.count('(') != src.count(')'):
        raise SyntaxError('wrapper escape: unbalanced parentheses')
    return r


def _parse_elem(typ: str, src: str):
    if typ == 'expr':
        if src.lstrip().startswith('*') and ',' not in src:
            return ast.parse(f'[\n{src}\n]', mode='eval').body.elts[0]
        try:
            return ast.parse(f'(\n{src}\n)', mode='eval').body
        except SyntaxError:
            # bare yield etc. parse fine in parens; `a, b` too; star-tuples `*a, b` ok; anything else is invalid
            raise
    if typ == 'stmt':
        b = ast.parse(src).body
        if len(b) != 1:
            raise SyntaxError('not a single statement')
        return b[0]
    if typ == 'stmts':
        return ast.parse(src).body
    if typ == 'arg':
        a = ast.parse(f'def f({src}): pass').body[0].args
        if len(a.args) != 1 or a.defaults or a.vararg or a.kwarg or a.kwonlyargs or a.posonlyargs:
            raise SyntaxError('not a single arg')
        return a.args[0]
    if typ == 'keyword':
        c = ast.parse(f'f({src})').body[0].value
        if len(c.keywords) != 1 or c.args:
            raise SyntaxError('not a single keyword')
        return c.keywords[0]
    if typ == 'alias':
        n = ast.parse(f'import {src}').body[0].names
        if len(n) != 1:
            raise SyntaxError('not a single alias')
        return n[0]
    if typ == 'alias_from':
        n = ast.parse(f'from m import {src}').body[0].names
        if len(n) != 1:
            raise SyntaxError('not a single alias')
        return n[0]
    if typ == 'withitem':
        n = ast.parse(f'with ({src}): pass').body[0].items
        if len(n) != 1:
            raise SyntaxError('not a single withitem')
        return n[0]
    if typ == 'excepthandler':
        h = ast.parse(f'try: pass\n{src}').body[0].handlers
        if len(h) != 1:
            raise SyntaxError('not a single handler')
        return h[0]
    if typ == 'match_case':
        ind = '\n'.join(' ' + ln for ln in src.split('\n'))
        c = ast.parse(f'match x:\n{ind}').body[0].cases
        if len(c) != 1:
            raise SyntaxError('not a single case')
        return c[0]
    if typ == 'pattern':
        if src.lstrip().startswith('*'):
            return ast.parse(f'match x:\n case [{src}]: pass').body[0].cases[0].pattern.patterns[0]
        return ast.parse(f'match x:\n case ({src}): pass').body[0].cases[0].pattern
    if typ == 'comprehension':
        g = ast.parse(f'[_ {src}]', mode='eval').body.generators
        if len(g) != 1:
            raise SyntaxError('not a single comprehension')
        return g[0]
    if typ == 'type_param':
        p = ast.parse(f'type X[{src}] = int').body[0].type_params
        if len(p) != 1:
            raise SyntaxError('not a single type_param')
        return p[0]
    if typ == 'identifier':
        if not src.isidentifier():
            raise SyntaxError('not an identifier')
        return src
    raise ValueError(f'no embedding for {typ}')
