"""C18 driver: runs real `FST.subn()` calls and records observations + stdlib facts for spec/TemplateTrace.tla.

Observations (what pfst answered): the match set of `search`, the tags of every match (as paths), one event per
substitution from the public `callback` / `callback_after` parameters, the counts, the outcome, and after every step the
live tree and the source text.  Oracle facts: CPython's parse of the source, `tokenize`, ast grammar tables, the pure-AST
reference result (harness/c18_ref.py) with its validity.  No verdict is computed here.
"""

from __future__ import annotations

import ast
import tokenize

from . import c18_ref as ref
from .proj import Tables, tokens, try_parse

EVENT_CAP = 80

# ----------------------------------------------------------------------------------------------------------------------
# catalogue: ids of spec/TemplateCases.tla -> real patterns / template sources


def patterns():
    from ast import Load
    from fst import match as M
    m = M.M
    Q = M.MQSTAR
    return {
        'name_load': lambda: M.MName(ctx=Load),
        'attr': lambda: M.MAttribute(value=m(v=...), ctx=Load),
        'call': lambda: M.MCall(func=m(fn=...), _args=m(args=...)),
        'call_kw': lambda: M.MCall(func=m(fn=...), keywords=[Q, m(kw=M.Mkeyword), Q]),
        'binop': lambda: M.MBinOp(left=m(l=...), right=m(r=...)),
        'list_fr': lambda: M.MList(elts=[m(first=...), Q(rest=...)], ctx=Load),
        'tuple_all': lambda: M.MTuple(elts=m(elts=...), ctx=Load),
        'dict_rest': lambda: M.MDict(_all=[..., Q(rest=...)]),
        'compare1': lambda: M.MCompare(left=m(l=...), comparators=[m(c=...)]),
        'subscript': lambda: M.MSubscript(value=m(v=...), slice=m(s=...), ctx=Load),
        'ifexp': lambda: M.MIfExp(test=m(t=...), body=m(b=...), orelse=m(e=...)),
        'boolop2': lambda: M.MBoolOp(values=[m(a=...), m(b=...)]),
        'call_a0': lambda: M.MCall(func=m(fn=...), _args=[m(a0=...), Q(rest=...)]),
        'call_r0': lambda: M.MCall(func=m(fn=...), args=[m(a0=...), Q(rest=...)]),
        'class_b0': lambda: M.MClassDef(bases=[m(a0=...), Q(rest=...)]),
        'add0': lambda: M.MBinOp(left=m(l=...), op=M.MAdd, right=M.MConstant(0)),
        'not_': lambda: M.MUnaryOp(op=M.MNot, operand=m(x=...)),
        'arguments': lambda: M.Marguments,
        'ret': lambda: M.MReturn(value=m(v=...)),
        'if_': lambda: M.MIf(test=m(t=...), body=m(b=...), orelse=m(e=...)),
        'assign1': lambda: M.MAssign(targets=[m(t=...)], value=m(v=...)),
        'expr_stmt': lambda: M.MExpr(value=m(v=...)),
        'for_': lambda: M.MFor(target=m(t=...), iter=m(i=...), body=m(b=...), orelse=m(e=...)),
        'while_': lambda: M.MWhile(test=m(t=...), body=m(b=...), orelse=m(e=...)),
        'with_': lambda: M.MWith(items=m(items=...), body=m(b=...)),
        'aug': lambda: M.MAugAssign(target=m(t=...), value=m(v=...)),
        'raise_': lambda: M.MRaise(exc=m(e=...), cause=m(c=...)),
    }


# every pattern above looks at the kind of the root and at the presence / number of its direct children only
SHAPE_ONLY = True

TEMPLATES = {
    'e_ident': '__FST_',
    'e_log': 'log(__FST_)',
    'e_neg': '-__FST_',
    'e_pair': '(__FST_, 1)',
    'e_dup': '[__FST_, __FST_]',
    'e_call': 'call(__FST_fn, __FST_args, z=2)',
    'e_call_fn': '__FST_fn(0, __FST_args)',
    'e_kw': 'k(__FST_kw, z=1)',
    'e_kw_zz': 'k(__FST_fn, __FST_zz)',
    'e_swap_lr': '__FST_r + __FST_l',
    'e_op_lr': 'op(__FST_l, __FST_r)',
    'e_sub_lr': '__FST_l[__FST_r]',
    'e_attr_v': '__FST_v.other',
    'e_getattr_v': 'getattr(__FST_v, "x")',
    'e_list_rot': '[__FST_rest, __FST_first]',
    'e_tuple_rest': '(q, __FST_rest)',
    'e_call_first_rest': 'f(__FST_first, *[__FST_rest])',
    'e_set_fr': '{__FST_first, __FST_rest}',
    'e_list_elts': '[__FST_elts]',
    'e_call_elts': 'f(__FST_elts, k=1)',
    'e_tuple_elts0': '(__FST_elts, 0)',
    'e_dict_rest': "{0: 0, '...': __FST_rest}",
    'e_dict_rest_tail': "{'...': __FST_rest, **tail}",
    'e_cmp_swap': '__FST_c > __FST_l',
    'e_cmp_call': 'cmp(__FST_l, __FST_c)',
    'e_sub_get': '__FST_v.get(__FST_s)',
    'e_sub_sub': '__FST_v[0][__FST_s]',
    'e_ifexp_swap': '__FST_e if not __FST_t else __FST_b',
    'e_ifexp_bool': '(__FST_t and __FST_b) or __FST_e',
    'e_bool_swap': '__FST_b and __FST_a',
    'e_bool_or': '__FST_a or __FST_b or z',
    'e_bool_whole': 'f(__FST_b) and __FST_',
    'e_bool_zz': '__FST_b and __FST_a and __FST_zz',
    'e_peel_l': '__FST_l',
    'e_peel_x': '__FST_x',
    'e_peel_fn': '__FST_fn',
    'e_peel_v': '__FST_v',
    'e_peel_first': '__FST_first',
    'e_peel_a': '__FST_a',
    'e_first_args': 'f(__FST_first, __FST_rest)',
    'e_first_list': '[__FST_first, __FST_rest]',
    'e_first_tuple': '(__FST_first, 0, __FST_rest)',
    'e_a0_args': '__FST_fn(__FST_a0, __FST_rest)',
    'e_a0_wrap': 'g(0, __FST_a0, __FST_rest)',
    'e_a0_two': 'g(__FST_a0, __FST_a0, __FST_rest, k=1)',
    's_body_then': '__FST_b\nafter()',
    's_before_body': 'before()\n__FST_b',
    's_class_rest': 'class New(__FST_a0, __FST_rest):\n    pass',
    's_for_chain': 'for __FST_t in chain(__FST_i, 0):\n    __FST_b',
    's_if_check': 'if check(__FST_t, 1):\n    __FST_b',
    's_if_list': 'if [__FST_t, 1]:\n    __FST_b\nelse:\n    __FST_e',
    'a_ident': '__FST_',
    'a_whole_z': '__FST_, z',
    'a_y_whole': 'y, __FST_',
    's_ident': '__FST_',
    's_wrap_if': 'if cond:\n    __FST_',
    's_try': 'try:\n    __FST_\nfinally:\n    done()',
    's_prepost': 'pre()\n__FST_\npost()',
    's_ret_wrap': 'return wrap(__FST_v)',
    's_ret_opt': 'return __FST_v',
    's_ret_tmp': 'tmp = __FST_v\nreturn tmp',
    's_if_swap': 'if not __FST_t:\n    __FST_e\nelse:\n    __FST_b',
    's_if_same': 'if __FST_t:\n    __FST_b\nelse:\n    __FST_e',
    's_while_tb': 'while __FST_t:\n    __FST_b',
    's_unwrap_b': '__FST_b',
    's_if_pass': 'if __FST_t:\n    pass\n    __FST_b\n__FST_e',
    's_assign_wrap': 'wrapped = wrap(__FST_v)\n__FST_t = wrapped',
    's_assign_or': '__FST_t = __FST_t or __FST_v',
    's_expr_assign': '_ = __FST_v',
    's_expr_print': 'print(__FST_v)',
    's_for_list': 'for __FST_t in list(__FST_i):\n    __FST_b\nelse:\n    __FST_e',
    's_for_iter': 'it = iter(__FST_i)\nwhile True:\n    __FST_b',
    's_while_not': 'while not __FST_t:\n    __FST_b\nelse:\n    __FST_e',
    's_with_same': 'with __FST_items:\n    __FST_b',
    's_with_more': 'with ctx(), __FST_items:\n    pass\n    __FST_b',
    's_aug_plain': '__FST_t = __FST_t + __FST_v',
    's_raise_from': 'raise __FST_e from __FST_c',
    's_raise_wrap': 'raise wrap(__FST_e)',
}


# several locations of DIFFERENT depth per peelable shape, shallow ones before and after deep ones: under a finite
# `loop` every location has to be re-substituted while it still matches, each with a fresh budget
PEEL_PROGRAM = '''\
r1 = a + 0
r2 = b + 0 + 0 + 0
r3 = c + 0 + 0
r4 = d + 0 + 0 + 0 + 0
n1 = not p
n2 = not not not q
n3 = not not r
l1 = [x]
l2 = [[[y]]]
l3 = [[z]]
c1 = f(1)
c2 = g(1)(2)(3)(4)
c3 = h(1)(2)
a1 = o.a
a2 = o.a.b.c.d
a3 = o.a.b
s1 = m[0]
s2 = m[0][1][2]
s3 = m[0][1]
b1 = (u and v)
b2 = ((u and v) and w) and (x and y)
k1 = e < f
if t1:
    x = 1
if t2:
    if t3:
        if t4:
            y = 1
if t5:
    if t6:
        z = 1
'''

# compound statements whose body STARTS with a statement of the same kind and has further ones after it: with nested=True
# every statement put in place of a match (by any loop iteration at that place) has to be searched
NEST_PROGRAM = '''\
def nest(a, b, c):
    if a:
        if b:
            x = 1
            y0 = 0
        if c:
            y = 2
        z = 3
    while w1:
        while w2:
            s1()
        while w3:
            s2()
            s4()
        s3()
    for i in r1:
        for j in r2:
            t1()
            t0()
        for k in r3:
            t2()
        t3()
    with c1:
        with c2:
            u1()
            u0()
        with c3:
            u2()
    if d:
        if e:
            if g:
                v1 = 1
            if h:
                v2 = 2
            v3 = 3
        if m:
            v4 = 4
'''

# sequences (tuples, lists, sets) as FIRST elements / first arguments / loop iterables / tests: a node captured from
# there and put into a list-field slot must stay one element
SEQ_PROGRAM = '''\
p1 = [(1, 2), a, b]
p2 = [[c, d], e]
p3 = [{f, g}, h, i]
p4 = [(j,), k]
p5 = [(), m, n]
q1 = fa((1, 2), x, y)
q2 = fb([u, v], w)
q3 = fc((k1,), m1, n1)
q4 = fd((o1, o2))
q5 = fe([], z1, key=z2)
for it in (1, 2, 3):
    use(it)
    more(it)
for jt in [a1, b1]:
    use(jt)
if (t1, t2):
    act()
else:
    other()
while [c1, c2]:
    step()
'''

# programs written for this check (added to the shared corpus): shapes that the slot classes above need in quantity
EXTRA_PROGRAMS = [
    # mixed boolean operators, both nestings, as operands of each other
    '''\
ok = (a or b) and c
ko = (a and b) or c
both = (p or q) and (r or s)
deep = ((a or b) and c) or (d and (e or f))
if (x or y) and not z:
    flag = (m and n) or k
while (u and v) or w:
    u = (v or w) and u
res = left if (t1 or t2) else (t3 and t4)
''',
    # calls with every argument kind, nested calls, keywords before *args
    '''\
r1 = f(a, b, *rest, key=1, **extra)
r2 = g(h(x, k=2), *i(y), z=j(w, *v))
r3 = obj.method(first, second=2)(third)(fourth, fifth=5)
r4 = call(a, key=value, *rest, **extra)
r5 = outer(inner(innermost(1, 2), 3), last=inner(4))


class C(Base, metaclass=M, **kw):
    r6 = build(x, y=1)


class D(B1, B2, metaclass=M, *mixins): pass
r7 = spread(p0, p1, sep=s, *tail)
''',
    # containers: lists / tuples / dicts of every length, nested, with unpacking
    '''\
e0 = []
e1 = [a]
e2 = [a, b]
e5 = [a, [b, [c, d]], (e, f), {g: h}, *i]
t0 = ()
t1 = (a,)
t3 = (a, (b, c), [d])
d0 = {}
d1 = {a: 1}
d4 = {a: 1, **b, 'c': [x, y], (1, 2): {k: v, **w}}
nested = {k1: {k2: {k3: [v1, v2, v3]}}}
''',
    # statements in every block position, comments around them, one-line blocks
    '''\
def fn(seq, out):
    # leading comment of the loop
    for item in seq:  # trailing comment
        if item:
            out.append(item)  # inner
        elif item is None:
            continue
        else:
            return out
    else:
        out = None
    # comment before with
    with open(p) as fh, lock:
        data = fh.read()
        # comment inside
        total += len(data)
    while out: out.pop(); total -= 1
    if total: return total
    raise ValueError(total) from None


def gen(n):
    i = 0
    while i < n:
        got = yield i
        i += got or 1
    return (yield)
''',
    # parameter lists with no, two and three plain parameters (and none with exactly one)
    '''\
def f0(): pass
def f2(a, b): return a
def f3(a, b, c):
    return b
lam0 = lambda: 0
lam2 = lambda p, q: p


class K:
    def m2(self, other): return other
''',
    # ... and with exactly one
    '''\
def g2(a, b): return a
def g1(only): return only
def g0(): pass
sq = lambda v: v * v
''',
    # assignments, augmented assignments, subscripts, attributes, comparisons, conditional expressions
    '''\
x = y = a.b.c
m[i][j] = n.o[p]
k.attr = q[1:2, ::3]
cnt += step * 2
tbl[key] -= other.val
small = a < b
chain = a < b <= c
pick = u if v else w
pick2 = (u if v else w) if (x if y else z) else (p if q else r)
neg = -a.b + c.d * e.f
idx = data[lo + 1][hi - 1]
''',
]


def plain_param_programs():
    """indices of the programs whose parameter lists are all plain (the domain of the `arguments` slot model)"""
    out = []
    for i, p in enumerate(programs()):
        al = [n for n in ast.walk(ast.parse(p)) if isinstance(n, ast.arguments)]
        if al and all(ref.plain_args(a) for a in al):
            out.append(i)
    return out


def programs():
    from corpus.programs import PROGRAMS
    return list(PROGRAMS) + EXTRA_PROGRAMS + [NEST_PROGRAM, SEQ_PROGRAM, PEEL_PROGRAM]


def template_tops(src: str, cat: str):
    if cat == 'expr':
        return [ast.parse(src, mode='eval').body]
    if cat == 'arguments':
        return [ast.parse(f'def _({src}): pass').body[0].args]
    return ast.parse(src).body


# ----------------------------------------------------------------------------------------------------------------------
# projection of one state

_ELSE = __import__('re').compile(r'else\s*:\s*(#.*)?')
_SOFT = {'COMMENT', 'LPAR', 'RPAR'}
_LAYOUT = {'NL', 'INDENT', 'DEDENT', 'SEMI'}


class Recorder:
    def __init__(self):
        self.tab = Tables()
        self._tok: dict = {}
        self._line: dict = {}

    def _tid(self, key):
        i = self._tok.get(key)
        if i is None:
            i = self._tok[key] = len(self._tok) + 1
        return i

    def _lid(self, text):
        i = self._line.get(text)
        if i is None:
            i = self._line[text] = len(self._line) + 1
        return i

    def state(self, f) -> dict:
        """Project the root FST `f`: live AST, CPython's parse of its source, token and line ids."""
        src = f.src
        live_s, live_p = self.tab.node(f.a)
        tree = try_parse(src)
        if tree is None:
            src_ok, src_s, src_p = False, 0, 0
        else:
            src_ok = True
            src_s, src_p = self.tab.node(tree)
        lines = src.split('\n')
        toks = tokens(src)
        tok_ok = toks is not None
        tl = []
        for ty, s, (sr, sc), (er, ec) in toks or ():
            if sr - 1 < len(lines):   # char columns -> utf8 byte columns (ast positions are bytes)
                sc = len(lines[sr - 1][:sc].encode('utf8'))
            if er - 1 < len(lines):
                ec = len(lines[er - 1][:ec].encode('utf8'))
            tl.append([self._tid((ty, s)), 3 if ty == 'NEWLINE' else 2 if ty in _LAYOUT else 1 if ty in _SOFT else 0, sr, sc, er, ec])
        ll = []
        for ln in lines:
            st = ln.strip()
            ll.append([self._lid(ln), 1 if not st else 2 if st.startswith('#') else 3 if _ELSE.fullmatch(st) else 0])
        return {'liveS': live_s, 'liveP': live_p, 'srcOk': src_ok, 'srcS': src_s, 'srcP': src_p,
                'tokOk': tok_ok, 'toks': tl, 'lines': ll, '_src': src}


# ----------------------------------------------------------------------------------------------------------------------
# facts about one match

def _path(root, node):
    return tuple((p.name, p.idx) for p in root.child_path(node))


def match_facts(root, m, tree=None) -> dict:
    """FSTMatch -> {'p': path, 'caps': {tag: {'t','cat','el'}}}; paths are tuples of (field, idx|None)."""
    from fst import FST
    from fst.view import FSTView
    from fst.match import FSTMatch

    def view_elems(v):
        base = _path(root, v.base)
        node = ref.get(root.a, base)
        els = ref.velems(node, v.field)
        if els is None:
            return None, 'other'
        start, stop = v.start, v.stop
        out = [tuple(None if c is None else base + c for c in el) for el in els[start:stop]]
        return out, ref.field_cat(node.__class__.__name__, v.field)

    caps = {}
    for tag, v in m.tags.items():
        if v is None:
            caps[tag] = dict(ref.MISSING)
        elif isinstance(v, FST):
            p = _path(root, v)
            caps[tag] = {'t': 'node', 'cat': ref.kind_cat(v.a.__class__.__name__), 'el': [(p,)]}
        elif isinstance(v, FSTView):
            els, cat = view_elems(v)
            caps[tag] = {'t': 'other', 'cat': 'other', 'el': []} if els is None else {'t': 'seq', 'cat': cat, 'el': els}
        elif isinstance(v, list):
            els, cats, bad = [], set(), False
            for mm in v:
                x = mm.matched if isinstance(mm, FSTMatch) else None
                if isinstance(x, FST):
                    p = _path(root, x)
                    els.append((p,))
                    par = ref.get(root.a, p[:-1])
                    fld = p[-1][0]
                    if par.__class__.__name__ in ('Call', 'ClassDef') and fld in ('args', 'bases', 'keywords'):
                        cats.add('arglike')
                    else:
                        cats.add(ref.field_cat(par.__class__.__name__, fld))
                elif isinstance(x, FSTView):
                    e2, c2 = view_elems(x)
                    if e2 is None:
                        bad = True
                    else:
                        els += e2
                        cats.add(c2)
                else:
                    bad = True
            if bad or len(cats) > 1:
                caps[tag] = {'t': 'other', 'cat': 'other', 'el': []}
            elif not els:
                caps[tag] = dict(ref.MISSING)     # empty quantifier capture = delete (match.py: "empty list is delete")
            else:
                caps[tag] = {'t': 'seq', 'cat': cats.pop(), 'el': els}
        else:
            caps[tag] = {'t': 'other', 'cat': 'other', 'el': []}
    p0 = _path(root, m.matched)
    return {'p': p0, 'caps': caps, 'ml': True if tree is None else _has_ml_docstr(ref.get(tree, p0))}


def _jpath(p):
    return [{'n': f, 'i': 1 if i is None else i + 1} for f, i in p]


def _has_ml_docstr(node) -> bool:
    return any(isinstance(n, ast.Expr) and isinstance(n.value, ast.Constant) and isinstance(n.value.value, str)
               and n.value.end_lineno > n.value.lineno for n in ast.walk(node))


def jmatch(mf) -> dict:
    return {'p': _jpath(mf['p']), 'ml': mf.get('ml', False),
            'caps': [{'tag': g, 't': c['t'], 'cat': c['cat'],
                      'el': [[{'h': comp is not None, 'p': _jpath(comp or ())} for comp in el] for el in c['el']]}
                     for g, c in sorted(mf['caps'].items())]}


def _positioned(root_ast, p):
    return hasattr(ref.get(root_ast, p), 'lineno')


def _pos(root_ast, p):
    n = ref.get(root_ast, p)
    return (n.lineno, n.col_offset)


def static_selection(root_ast, S, cfg, T):
    """Mirror of TemplateTrace!KRef (cross-checked by clause RefAgree): -> (sel indices, nested) or None."""
    paths = [m['p'] for m in S]
    outer = [i for i, p in enumerate(paths)
             if not any(j != i and paths[j] == p[:len(paths[j])] for j in range(len(paths)))]
    antichain = len(outer) == len(paths)
    count_ok = cfg['count'] == 0 or all(_positioned(root_ast, paths[i]) for i in outer)
    nn = not cfg['nested'] and cfg['on'] == 'enter' and cfg['loop'] == 0 and count_ok
    flat = antichain and cfg['shapeOnly'] and cfg['loop'] == 0 and count_ok
    if nn or flat:
        if cfg['count'] > 0:
            outer.sort(key=lambda i: _pos(root_ast, paths[i]), reverse=cfg['back'])
            outer = outer[:cfg['count']]
        return outer, False
    top_capture = any((g := ref.slot_tag(c)) not in (None, '')
                      or (isinstance(c, ast.Expr) and ref.slot_tag(c.value) not in (None, '')) for c in T)
    if cfg['nested'] and cfg['on'] == 'enter' and cfg['loop'] == 0 and cfg['count'] == 0 and not top_capture:
        return list(range(len(paths))), True
    return None


class Runaway(Exception):
    pass


def run_case(rec: Recorder, tid: int, src: str, pat_id: str, tmpl_src: str, cat: str, cfg: dict, pats=None,
             repl_as_fst: bool = False):
    """One subn() call.  Returns (trace, info) or None when the pattern does not occur in the program."""
    from fst import FST
    pats = pats or patterns()
    pat = pats[pat_id]()
    f0 = FST(src, 'exec')
    tree0 = try_parse(src)
    S = [match_facts(f0, m, tree0) for m in f0.search(pat, nested=True)]
    if not S:
        return None
    T = template_tops(tmpl_src, cat)
    t_sids = [rec.tab.sid(c) for c in T]
    cfg = dict(cfg, shapeOnly=SHAPE_ONLY, docstr=cfg.get('docstr', True), replModule=bool(repl_as_fst), cat=cat)

    try:    # fact: does the pattern match a node of the template itself (such nodes are never substituted)
        tf = FST(tmpl_src, 'arguments' if cat == 'arguments' else 'exec' if cat == 'stmt' else 'expr')
        tmpl_m = sum(1 for _ in tf.search(pat, nested=True))
    except Exception:  # noqa: BLE001
        tmpl_m = -1
    f = FST(src, 'exec')
    init = rec.state(f)
    root0 = ast.parse(init['_src'])
    steps = []
    cur = {'last': None, 'pre': None, 'n': 0, 'diverged': False}

    def ev_ref(pre_src, mf):
        tree = try_parse(pre_src)
        if tree is None or mf is None:
            return False, False, 0
        exp, valid, _ = ref.reference(tree, T, [mf], [0], False)
        if exp is None:
            return False, False, 0
        return True, valid, rec.tab.sid(exp)

    def cb(matched):
        cur['n'] += 1
        if cur['n'] > (2 * len(S) + 40 if cfg['loop'] < 0 else max(EVENT_CAP, 6 * len(S) + 40)):   # loop=True may run away by design
            cur['diverged'] = True
            raise Runaway()
        pre = rec.state(f)
        mm = matched.match(pat)
        mf = match_facts(f, mm, try_parse(pre['_src'])) if mm is not None else {'p': _path(f, matched), 'caps': {}, 'ml': True}
        cur['pre'] = (pre, mf, mm is not None, matched is cur['last'])
        return False

    def cba(replaced):
        pre, mf, ok, loopcont = cur['pre']
        post = rec.state(f)
        has_ref, valid, exp_s = ev_ref(pre['_src'], mf if ok else None)
        try:
            still = replaced is not None and replaced.match(pat) is not None    # what subn() itself asks before looping
        except Exception:  # noqa: BLE001
            still = False
        steps.append({'k': 'subst', 'still': still, 'pre': pre, 'm': jmatch(mf), 'matchedOk': ok, 'same': loopcont,
                      'hasRef': has_ref, 'expValid': valid, 'expS': exp_s, 'post': post})
        cur['last'] = replaced

    if not cfg.get('docstr', True):
        kw_opt = {'docstr': False}
    else:
        kw_opt = {}
    kw = dict(kw_opt, count=cfg['count'], loop=True if cfg['loop'] < 0 else cfg['loop'] if cfg['loop'] else False, on=cfg['on'], back=cfg['back'])
    if cfg['cb']:
        kw.update(callback=cb, callback_after=cba)
    if cat == 'arguments':          # a parameter list can only be given as a node
        repl, repl_as_fst = FST(tmpl_src, 'arguments'), False
    else:
        repl = FST(tmpl_src, 'exec' if cat == 'stmt' else 'expr') if repl_as_fst else tmpl_src
    outcome, exc, uniq, total = 'ok', '', 0, 0
    try:
        _, uniq, total = f.subn(pat, repl, cfg['nested'], **kw)
    except Runaway:
        outcome, exc = 'diverged', 'Runaway'
    except RecursionError:
        outcome, exc = 'diverged', 'RecursionError'
    except Exception as e:  # noqa: BLE001
        outcome, exc = 'raise', e.__class__.__name__
    final = rec.state(f)

    has_ref, valid, exp_s = False, False, 0
    sel = static_selection(root0, S, cfg, T)
    if sel is not None and init['srcOk']:
        exp, valid, _ = ref.reference(root0, T, S, sel[0], sel[1])
        if exp is not None:
            has_ref, exp_s = True, rec.tab.sid(exp)
    final_m = []
    if outcome == 'ok' and cfg['nested'] and cfg['on'] == 'enter' and cfg['count'] == 0:
        try:    # observation: what still matches in the result (pfst search, C17)
            final_m = [_jpath(_path(f, m.matched)) for m in f.search(pat, nested=True)]
        except Exception:  # noqa: BLE001
            final_m = [[{'n': '?', 'i': 1}]]
    steps.append({'k': 'done', 'finalM': final_m, 'outcome': outcome, 'exc': exc, 'uniq': uniq, 'total': total, 'hasRef': has_ref,
                  'expValid': valid, 'expS': exp_s, 'post': final})
    trace = {'id': tid, 'T': t_sids, 'tmplM': tmpl_m, 'cfg': cfg, 'init': init, 'S': [jmatch(m) for m in S], 'steps': steps}
    info = {'pattern': pat_id, 'template': tmpl_src, 'cfg': cfg, 'matches': len(S), 'events': len(steps) - 1,
            'outcome': outcome, 'exc': exc, 'uniq': uniq, 'total': total, 'static': None if sel is None else
            ('nested' if sel[1] else 'outermost'), 'pre_src': init['_src'], 'post_src': final['_src']}
    return trace, info


def strip_private(trace: dict) -> dict:
    """Drop the `_src` helper fields before the batch goes to TLC."""
    def st(s):
        return {k: v for k, v in s.items() if not k.startswith('_')}
    out = dict(trace, init=st(trace['init']))
    out['steps'] = [dict(e, post=st(e['post']), **({'pre': st(e['pre'])} if 'pre' in e else {})) for e in trace['steps']]
    return out


def batch(rec: Recorder, traces: list) -> dict:
    b = rec.tab.dump()
    b.pop('ttab', None)
    b['listf'] = ref.LIST_FIELDS
    b['kcat'] = ref.KIND_CAT
    b['tokElse'] = rec._tok.get(('NAME', 'else'), 0)
    b['tokColon'] = rec._tok.get(('COLON', ':'), 0)
    b['traces'] = [strip_private(t) for t in traces]
    return b


# ----------------------------------------------------------------------------------------------------------------------
# (G1) abstract cases of spec/TemplateMC.tla: A = List, B = Tuple

def parse_enc(s: str):
    """'A(B()A())' -> ('A', [('B', []), ('A', [])])"""
    pos = 0

    def node():
        nonlocal pos
        j = s.index('(', pos)
        k = s[pos:j]
        pos = j + 1
        kids = []
        while s[pos] != ')':
            kids.append(node())
        pos += 1
        return k, kids
    n = node()
    assert pos == len(s)
    return n


def conc(n) -> str:
    k, kids = n
    if k == 'S_':
        return '__FST_'
    if k.startswith('S_'):
        return '__FST_' + k[2:]
    inner = ', '.join(conc(c) for c in kids)
    if k == 'A':
        return '[' + inner + ']'
    return '(' + inner + (',' if len(kids) == 1 else '') + ')'


def abstract_of(a) -> str:
    if isinstance(a, ast.List):
        return 'A(' + ''.join(abstract_of(e) for e in a.elts) + ')'
    if isinstance(a, ast.Tuple):
        return 'B(' + ''.join(abstract_of(e) for e in a.elts) + ')'
    return '?' + a.__class__.__name__ + '()'


def abstract_pattern(labels):
    from fst import match as M
    m = M.M
    cls = {'A': M.MList, 'B': M.MTuple}
    alts = []
    for lab in sorted(labels):
        alts.append(cls[lab](elts=m(s=[m(a=...), M.MQSTAR])))
        alts.append(cls[lab](elts=m(s=[])))
    return M.MOR(*alts)
