"""C14 recorder: run every traversal API of the real pfst on one program and log what it answered, together with an
independent description of the tree (CPython's own parse of the same text + tokenize).

Observations (pfst): sequences yielded by walk() for parameter combinations, answers of next/prev/first_child/last_child/
next_child/prev_child/step_fwd/step_back/child_path/child_from_path for every node.
Oracle facts (stdlib only): node table of `ast.parse(src)` (kind, parent, field/index, children in *field* order, positions),
token anchors from `tokenize` for nodes the AST gives no position (operators, empty `arguments`).
Nothing here decides anything: the order of children "as their text appears", the expected sequences and every verdict
are computed by TLC from spec/Walk.tla + spec/WalkTrace.tla.

Node ids are 1..N in field-order depth-first order of the *independently parsed* tree; a node of the live pfst tree gets
the id of the node at the same child path (0 = None/False, -1 = a node that is not at any path of the tree).
"""

from __future__ import annotations

import ast
import bisect
import io
import random
import sys
import tokenize
from ast import AST

sys.setrecursionlimit(10000)

OPSYM = {
    'Add': '+', 'Sub': '-', 'Mult': '*', 'MatMult': '@', 'Div': '/', 'Mod': '%', 'Pow': '**', 'LShift': '<<',
    'RShift': '>>', 'BitOr': '|', 'BitXor': '^', 'BitAnd': '&', 'FloorDiv': '//',
    'Invert': '~', 'Not': 'not', 'UAdd': '+', 'USub': '-',
    'Eq': '==', 'NotEq': '!=', 'Lt': '<', 'LtE': '<=', 'Gt': '>', 'GtE': '>=', 'Is': 'is', 'IsNot': 'is', 'In': 'in',
    'NotIn': 'not',
}
SKIP_TOK = {tokenize.NL, tokenize.COMMENT, tokenize.NEWLINE, tokenize.INDENT, tokenize.DEDENT}


class OracleError(Exception):
    """The stdlib-only description of the program could not be built (program is skipped and counted)."""


class Oracle:
    """Node table of CPython's parse of `src` plus token anchors. Standard library only."""

    def __init__(self, src: str, mode: str = 'exec'):
        self.src = src
        self.mode = mode
        if mode == 'min':   # FST(src) without a mode: the minimal node (a lone expression / a lone statement)
            t = ast.parse(src)
            if len(t.body) == 1:
                t = t.body[0].value if isinstance(t.body[0], ast.Expr) else t.body[0]
            self.tree = t
        else:
            self.tree = ast.parse(src, mode=mode)
        self.lines = src.split('\n')
        self.objs = [None]  # 1-based
        self.kind = []
        self.par = []
        self.pf = []
        self.pos = []
        self.fkids = []
        self.tok = []
        self._visit(self.tree, 0, '', -1)
        self.n = len(self.kind)
        self._tokens()
        self._anchors()

    # -- node table ----------------------------------------------------------------------------------------------------
    def _visit(self, a, par, f, i):
        nid = len(self.kind) + 1
        self.objs.append(a)
        self.kind.append(a.__class__.__name__)
        self.par.append(par)
        self.pf.append({'f': f, 'i': i})
        if 'lineno' in a._attributes and getattr(a, 'lineno', None) is not None and getattr(a, 'end_lineno', None) is not None:
            self.pos.append([a.lineno, a.col_offset, a.end_lineno, a.end_col_offset])
        else:
            self.pos.append([])
        kids = []
        self.fkids.append(kids)
        self.tok.append([])
        for name in a._fields:
            v = getattr(a, name, None)
            if isinstance(v, list):
                for j, e in enumerate(v):
                    if isinstance(e, AST):
                        kids.append(self._visit(e, nid, name, j))
            elif isinstance(v, AST):
                kids.append(self._visit(v, nid, name, -1))
        return nid

    # -- tokens --------------------------------------------------------------------------------------------------------
    def _bytecol(self, line: int, col: int) -> int:
        s = self.lines[line - 1] if line - 1 < len(self.lines) else ''
        return len(s[:col].encode('utf-8'))

    def _tokens(self):
        try:
            toks = list(tokenize.generate_tokens(io.StringIO(self.src).readline))
        except (tokenize.TokenError, IndentationError, SyntaxError) as e:
            raise OracleError(f'tokenize: {e}') from e
        self.toks = []
        for t in toks:
            if t.type in SKIP_TOK or t.type == tokenize.ENDMARKER:
                continue
            self.toks.append(((t.start[0], self._bytecol(*t.start)), (t.end[0], self._bytecol(*t.end)), t.string))
        self.tstarts = [t[0] for t in self.toks]

    def _first_at(self, p):
        """Index of the first token starting at or after position p (line, bytecol)."""
        return bisect.bisect_left(self.tstarts, tuple(p))

    def _op_after(self, nid_left, want):
        """Start of the operator token that follows node `nid_left` (closing parentheses of the operand skipped)."""
        p = self.pos[nid_left - 1]
        if not p:
            raise OracleError('operand without position')
        i = self._first_at((p[2], p[3]))
        while i < len(self.toks) and self.toks[i][2] == ')':
            i += 1
        if i >= len(self.toks) or self.toks[i][2] != want:
            raise OracleError(f'operator token {want!r} not found after node {nid_left}: '
                              f'{self.toks[i][2] if i < len(self.toks) else None!r}')
        return list(self.toks[i][0])

    def table(self) -> dict:
        return {'n': self.n, 'kind': self.kind, 'par': self.par, 'pf': self.pf, 'pos': self.pos, 'tok': self.tok,
                'fkids': self.fkids}


# the operator objects of CPython's parser are singletons -> resolve child ids by path, not by object identity
def _child_id(o: Oracle, pid: int, field: str, idx: int = -1) -> int:
    for c in o.fkids[pid - 1]:
        f = o.pf[c - 1]
        if f['f'] == field and f['i'] == idx:
            return c
    raise OracleError(f'no child {field}[{idx}] under node {pid}')


def _anchors_by_path(self: Oracle):
    for nid in range(1, self.n + 1):
        k = self.kind[nid - 1]
        if k == 'BinOp':
            l, op = _child_id(self, nid, 'left'), _child_id(self, nid, 'op')
            self.tok[op - 1] = self._op_after(l, OPSYM[self.kind[op - 1]])
        elif k == 'AugAssign':
            l, op = _child_id(self, nid, 'target'), _child_id(self, nid, 'op')
            self.tok[op - 1] = self._op_after(l, OPSYM[self.kind[op - 1]] + '=')
        elif k == 'UnaryOp':
            op = _child_id(self, nid, 'op')
            p = self.pos[nid - 1]
            i = self._first_at((p[0], p[1]))
            if i >= len(self.toks) or self.toks[i][0] != (p[0], p[1]) or self.toks[i][2] != OPSYM[self.kind[op - 1]]:
                raise OracleError('unary operator token not at node start')
            self.tok[op - 1] = [p[0], p[1]]
        elif k == 'Compare':
            prev = _child_id(self, nid, 'left')
            nops = sum(1 for c in self.fkids[nid - 1] if self.pf[c - 1]['f'] == 'ops')
            for j in range(nops):
                op = _child_id(self, nid, 'ops', j)
                self.tok[op - 1] = self._op_after(prev, OPSYM[self.kind[op - 1]])
                prev = _child_id(self, nid, 'comparators', j)
        elif k == 'arguments' and not self.fkids[nid - 1]:
            pn = self.par[nid - 1]
            if not pn:
                raise OracleError('arguments root')
            pk = self.kind[pn - 1]
            p = self.pos[pn - 1]
            i = self._first_at((p[0], p[1]))
            if pk == 'Lambda':
                if i >= len(self.toks) or self.toks[i][2] != 'lambda':
                    raise OracleError('lambda keyword not at node start')
                self.tok[nid - 1] = list(self.toks[i][1])
            elif pk in ('FunctionDef', 'AsyncFunctionDef'):
                while i < len(self.toks) and self.toks[i][2] != 'def':
                    i += 1
                i += 2  # def NAME
                if i < len(self.toks) and self.toks[i][2] == '[':
                    depth = 0
                    while i < len(self.toks):
                        s = self.toks[i][2]
                        if s in ('(', '[', '{'):
                            depth += 1
                        elif s in (')', ']', '}'):
                            depth -= 1
                        i += 1
                        if depth == 0:
                            break
                if i >= len(self.toks) or self.toks[i][2] != '(':
                    raise OracleError('parameter list parenthesis not found')
                self.tok[nid - 1] = list(self.toks[i][1])
            else:
                raise OracleError(f'arguments under {pk}')


Oracle._anchors = _anchors_by_path


# ----------------------------------------------------------------------------------------------------------------------
# the recorder proper

ONS = ('enter', 'leave', 'both')
RAISED = -2   # the call raised (no clause of WalkTrace.tla accepts it)


def _safe(fn, *a, **k):
    try:
        return fn(*a, **k)
    except Exception:  # noqa: BLE001
        return _Raised


class _RaisedT:
    a = None


_Raised = _RaisedT()


class Live:
    """Identification of the nodes of the live pfst tree by child path (own traversal of the AST object graph)."""

    def __init__(self, o: Oracle, root_ast):
        self.objs = [None] * (o.n + 1)
        self.objs[1] = root_ast
        self.lk = ['None'] * o.n
        self.idmap = {}
        for nid in range(1, o.n + 1):
            if nid > 1:
                p = self.objs[o.par[nid - 1]]
                f = o.pf[nid - 1]
                v = getattr(p, f['f'], None) if p is not None else None
                if f['i'] >= 0:
                    v = v[f['i']] if isinstance(v, list) and len(v) > f['i'] else None
                self.objs[nid] = v if isinstance(v, AST) else None
            obj = self.objs[nid]
            if obj is not None:
                if id(obj) in self.idmap:
                    self.lk[nid - 1] = 'DUP'
                else:
                    self.idmap[id(obj)] = nid
                    self.lk[nid - 1] = obj.__class__.__name__

    def nid(self, f) -> int:
        if f is None or f is False:
            return 0
        if f is _Raised:
            return RAISED
        a = getattr(f, 'a', None)
        if a is None:
            return -1
        return self.idmap.get(id(a), -1)

    def fst(self, nid):
        return self.objs[nid].f


def _flt_arg(flt, rng):
    k = flt['k']
    if k == 'T':
        return True
    if k == 'F':
        return False
    if k == 'L':
        return 'loc'
    classes = [getattr(ast, n) for n in flt['s']]
    if k == 'C':
        cs = frozenset(classes)
        return lambda f: f.a.__class__ in cs
    if len(classes) == 1 and flt.get('single'):
        return classes[0]
    return rng.choice([set, frozenset, tuple, list])(classes)


def _pub(flt):
    return {'k': flt['k'], 's': list(flt['s'])}


def record(src: str, mode: str, pseed: int, tid: int, heavy_cap: int = 400, light: bool = False,
           focus: bool = False) -> dict:
    """One trace: the program's oracle table + every observation. Raises OracleError when the oracle cannot be built."""
    from fst import FST  # the code under test (never `from fst import *`)

    rng = random.Random(pseed)
    o = Oracle(src, mode)
    froot = FST(src) if mode == 'min' else FST(src, mode)
    lv = Live(o, froot.a)
    N = o.n
    nid = lv.nid
    items = []

    kinds = sorted(set(o.kind))
    k1 = [rng.choice(kinds)]
    common = [k for k in ('Name', 'Constant', 'arg', 'Call', 'Attribute', 'BinOp', 'Load', 'Add', 'keyword', 'Starred',
                          'arguments', 'Expr', 'Assign') if k in kinds]
    k3 = sorted(set(rng.sample(kinds, min(3, len(kinds))) + rng.sample(common, min(2, len(common)))))
    FLTS = [{'k': 'T', 's': []}, {'k': 'F', 's': []}, {'k': 'L', 's': []}, {'k': 'S', 's': k1, 'single': True},
            {'k': 'S', 's': k3}, {'k': 'C', 's': k3}]

    def do_walk(x, on, back, rec, self_, flt, full=False):
        f = lv.fst(x)
        seq, lvs = [], []
        try:
            for y in f.walk(_flt_arg(flt, rng), on, self_=self_, recurse=rec, back=back):
                if on == 'both':
                    seq.append(nid(y[0]))
                    lvs.append(bool(y[1]))
                else:
                    seq.append(nid(y))
        except Exception:  # noqa: BLE001 - a traversal call that raises on a valid tree is an observation, not a crash
            seq.append(RAISED)
            lvs.append(False)
        items.append({'call': 'walk', 'x': x, 'on': on, 'back': back, 'rec': rec, 'self': self_, 'flt': _pub(flt),
                      'seq': seq, 'lv': lvs, 'full': full})

    # shape of the live tree against the independent parse
    items.append({'call': 'shape', 'lk': lv.lk})
    if 'None' in lv.lk or 'DUP' in lv.lk:
        return dict(o.table(), id=tid, items=items)

    # (1) walks from the root: every parameter combination x every filter kind
    # focus (generated shape programs: many small programs whose point is the order of siblings): every combination
    # unfiltered, the six orders for all=False / 'loc', four random filtered combinations
    for flt in (FLTS[:3] if focus else FLTS):
        for on in ONS:
            for back in (False, True):
                for rec in (True, False):
                    for self_ in (True, False):
                        if focus and flt['k'] != 'T' and not (rec and self_):
                            continue
                        do_walk(1, on, back, rec, self_, flt, full=(flt['k'] == 'T' and rec and self_))
    if focus:
        for _ in range(4):
            do_walk(1, rng.choice(ONS), rng.random() < .5, rng.random() < .6, rng.random() < .6, rng.choice(FLTS[3:]))

    # (2) walks from every inner node (sampled above heavy_cap): all six orders unfiltered + random combinations
    inner = list(range(2, N + 1))
    if len(inner) > heavy_cap:
        inner = sorted(rng.sample(inner, heavy_cap))
    for x in inner:
        if focus and len(o.fkids[x - 1]) < 2:   # focus: only from nodes that have siblings to order
            continue
        for j, on in enumerate(ONS):
            for back in (False, True):
                if light and not focus and back != bool((x + j) % 2):   # quick tier: three of the six orders per node
                    continue
                do_walk(x, on, back, True, True, FLTS[0], full=(N <= heavy_cap))
        for _ in range(1 if focus else 2 if light else 3):
            do_walk(x, rng.choice(ONS), rng.random() < .5, rng.random() < .6, rng.random() < .6, rng.choice(FLTS))

    # (3) navigation: every node x filter  (a call that raises is recorded as RAISED)
    def W(f, *a, **k):
        try:
            return [nid(y) for y in f.walk(*a, **k)]
        except Exception:  # noqa: BLE001
            return [RAISED]

    def C(fn, *a, **k):
        return nid(_safe(fn, *a, **k))

    def iterate(step, start):
        s, c = [], start
        while True:
            c = _safe(step, c)
            if c is None:
                break
            s.append(nid(c))
            if c is _Raised or len(s) > N:
                break
        return s

    rng_all = range(1, N + 1)
    for flt in ([FLTS[0], FLTS[1 + pseed % 2]] if focus else FLTS[:3] + [FLTS[3 + pseed % 2]] if light else FLTS[:5]):
        arg = _flt_arg(flt, rng)
        fs = [None] + [lv.fst(x) for x in rng_all]
        it = {'call': 'nav', 'flt': _pub(flt)}
        it['w'] = W(froot, arg)
        it['wb'] = W(froot, arg, back=True)
        it['next'] = [C(fs[x].next, arg) for x in rng_all]
        it['prev'] = [C(fs[x].prev, arg) for x in rng_all]
        it['first'] = [C(fs[x].first_child, arg) for x in rng_all]
        it['last'] = [C(fs[x].last_child, arg) for x in rng_all]
        it['nchild'] = [iterate(lambda c, f=fs[x]: f.next_child(c, arg), None) for x in rng_all]
        it['pchild'] = [iterate(lambda c, f=fs[x]: f.prev_child(c, arg), None) for x in rng_all]
        it['cw'] = [W(fs[x], arg, self_=False, recurse=False) for x in rng_all]
        it['cwb'] = [W(fs[x], arg, self_=False, recurse=False, back=True) for x in rng_all]
        it['nc1'] = [0] + [C(fs[o.par[x - 1]].next_child, fs[x], arg) for x in range(2, N + 1)]
        it['pc1'] = [0] + [C(fs[o.par[x - 1]].prev_child, fs[x], arg) for x in range(2, N + 1)]
        it['sf'] = [C(fs[x].step_fwd, arg) for x in rng_all]
        it['sfn'] = [C(fs[x].step_fwd, arg, False) for x in rng_all]
        it['sb'] = [C(fs[x].step_back, arg) for x in rng_all]
        it['sbn'] = [C(fs[x].step_back, arg, False) for x in rng_all]
        tops = []
        for x in (inner if len(inner) <= 60 else sorted(rng.sample(inner, 60))) + [1]:
            f = fs[x]
            tops.append({'x': x,
                         'it': iterate(lambda c, f=f: c.step_fwd(arg, top=f), f),
                         'itb': iterate(lambda c, f=f: c.step_back(arg, top=f), f),
                         'wx': W(f, arg, self_=False), 'wxb': W(f, arg, self_=False, back=True)})
        it['tops'] = tops
        items.append(it)

    # (4) paths
    from fst.common import astfield  # constructor of path elements (public type of child_path's result)
    fs = [None] + [lv.fst(x) for x in rng_all]
    it = {'call': 'path', 'paths': [], 'strs': [], 'back': [], 'backs': [], 'beyond': [], 'rel': []}

    def pub_path(p):
        if p is _Raised:
            return [{'f': '!raised', 'i': -1}]
        return [{'f': af.name, 'i': -1 if af.idx is None else af.idx} for af in p]

    for x in rng_all:
        p = _safe(froot.child_path, fs[x])
        it['paths'].append(pub_path(p))
        it['back'].append(RAISED if p is _Raised else C(froot.child_from_path, p))
        s_ = _safe(froot.child_path, fs[x], as_str=True)
        it['strs'].append('!raised' if s_ is _Raised else s_ if s_.isascii() else '!nonascii')
        it['backs'].append(RAISED if s_ is _Raised else C(froot.child_from_path, s_))
    for x in rng_all:
        # a path that denotes no node: one index past the end of every list field
        a = o.objs[x]
        for name in a._fields:
            v = getattr(a, name, None)
            if isinstance(v, list) and (not v or isinstance(v[0], AST)) and rng.random() < .5:
                p = _safe(froot.child_path, fs[x])
                if p is _Raised:
                    continue
                it['beyond'].append({'p': it['paths'][x - 1] + [{'f': name, 'i': len(v)}],
                                     'r': C(froot.child_from_path, p + [astfield(name, len(v))])})
        # relative paths from an ancestor
        anc, d = o.par[x - 1], 0
        while anc and d < 2:
            if rng.random() < .5:
                p = _safe(fs[anc].child_path, fs[x])
                it['rel'].append({'a': anc, 'x': x, 'p': pub_path(p),
                                  'b': RAISED if p is _Raised else C(fs[anc].child_from_path, p)})
            anc, d = o.par[anc - 1], d + 1
    items.append(it)

    return dict(o.table(), id=tid, items=items)
