"""Random / scripted edit histories over corpus programs -> trace batches."""

from __future__ import annotations

import random
import sys
import os

sys.path.insert(0, os.path.dirname(os.path.dirname(os.path.abspath(__file__))))

from corpus.programs import PROGRAMS
from . import edits
from .edits import FST
from .proj import Tables


def run_history(rec: edits.Recorder, tid: int, seed: int, src: str, nsteps: int, hooks=None, mode='mixed') -> dict:
    rng = random.Random(seed)
    root = FST(src, 'exec')
    trace = {'id': tid, 'seed': seed, 'init': rec.state(root), 'steps': []}
    script = []
    prev_raised = False
    for _ in range(nsteps):
        if rng.random() < 0.12:
            m = edits.plan_misc(rng, root.a)
            if m is not None:
                pre_src = root.src
                exc = edits.execute_misc(m, root)
                post = rec.state(root)
                ev = edits.make_misc_event(m, exc, post)
                trace['steps'].append(ev)
                script.append({'pre_src': pre_src, 'plan': m.describe(), 'post_src': root.src,
                               'exc': None if exc is None else f'{type(exc).__name__}: {exc}'})
                prev_raised = False
                if not post['srcOk'] or post['srcP'] != post['liveP']:
                    break
                continue
        plan = None
        for _try in range(5):
            plan = edits.plan_edit(rng, root.a)
            if plan is not None:
                break
        if plan is None:
            break
        if mode == 'failing' and rng.random() < 0.55:
            plan = edits.corrupt_plan(rng, plan)
        pre_src = root.src
        pre_tree = edits.try_parse(pre_src)
        o = edits.oracle(plan, pre_src, rec.tab)
        if plan.corrupt:
            o.law, o.expValid, o.expS = False, True, 0  # no container law for invalid requests; Sync still judged if accepted
        if hooks and 'pre' in hooks:
            hooks['pre'](root, plan, o, rng)
        clean = None
        if mode == 'failing' and prev_raised and not plan.corrupt:
            # C12 "the next valid edit succeeds": the same request on a tree freshly built from the same source
            st = rng.getstate()
            clone = FST(pre_src, 'exec', indent=root.indent)  # root.indent is a documented, creation-time attribute
            cexc = edits.execute(plan, clone, o, rng)
            clean = {'outcome': 'ok' if cexc is None else 'raise', 'text': rec.tab.text(clone.src)}
            rng.setstate(st)
        exc = edits.execute(plan, root, o, rng)
        post = rec.state(root)
        ev = edits.make_event(plan, o, exc, post, pre_tree)
        ev['hasClean'] = clean is not None
        ev['clean'] = clean or {'outcome': '', 'text': 0}
        prev_raised = exc is not None
        if hooks and 'post' in hooks:
            hooks['post'](root, plan, o, ev, pre_src)
        trace['steps'].append(ev)
        script.append({'pre_src': pre_src, 'plan': plan.describe(), 'post_src': root.src,
                       'exc': None if exc is None else f'{type(exc).__name__}: {exc}'})
        if not post['srcOk'] or post['srcP'] != post['liveP']:
            break  # the tree left the domain (documented-invalid intermediate or a violation); judged, then stop
    trace['script'] = script
    return trace
