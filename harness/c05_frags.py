"""C05 input side: fragment generators.  Everything here produces INPUTS only (texts + the modes to try them in);
whether a text is valid for a mode is decided by the specification from CPython's parse of the embedding.
Standard library only."""

from __future__ import annotations

import ast
import io
import keyword
import random
import tokenize

TRIVIA = {tokenize.NL, tokenize.NEWLINE, tokenize.COMMENT, tokenize.INDENT, tokenize.DEDENT, tokenize.ENDMARKER}
OPEN, CLOSE = '([{', ')]}'


def _toks(src):
    try:
        return list(tokenize.generate_tokens(io.StringIO(src).readline))
    except (tokenize.TokenError, SyntaxError, IndentationError, ValueError):
        return None


class Prog:
    """A program with char-offset helpers."""

    def __init__(self, src):
        self.src = src
        self.tree = ast.parse(src)
        self.lines = src.split('\n')
        self.starts = [0]
        for ln in self.lines[:-1]:
            self.starts.append(self.starts[-1] + len(ln) + 1)
        self.toks = [t for t in (_toks(src) or []) if t.type not in TRIVIA]
        self.tpos = [(self.off(t.start[0], t.start[1], char=True), self.off(t.end[0], t.end[1], char=True), t)
                     for t in self.toks]

    def off(self, line, col, char=False):
        ln = self.lines[line - 1]
        if not char:
            col = len(ln.encode()[:col].decode())
        return self.starts[line - 1] + col

    def span(self, node):
        return self.off(node.lineno, node.col_offset), self.off(node.end_lineno, node.end_col_offset)

    def tok_index_at_or_after(self, off):
        for i, (s, e, t) in enumerate(self.tpos):
            if s >= off:
                return i
        return len(self.tpos)

    def tok_before(self, off):
        """index of the last token ending at or before off"""
        r = -1
        for i, (s, e, t) in enumerate(self.tpos):
            if e <= off:
                r = i
            else:
                break
        return r

    def balance(self, s, e):
        """extend [s, e) over enclosing parentheses that are only half inside"""
        i0 = self.tok_index_at_or_after(s)
        i1 = self.tok_before(e)
        depth = 0
        need_left = 0
        for s_, e_, t in self.tpos[i0:i1 + 1]:
            if t.string in OPEN and t.type == tokenize.OP:
                depth += 1
            elif t.string in CLOSE and t.type == tokenize.OP:
                if depth:
                    depth -= 1
                else:
                    need_left += 1
        j = i1 + 1
        while depth and j < len(self.tpos) and self.tpos[j][2].string in CLOSE:
            e = self.tpos[j][1]
            depth -= 1
            j += 1
        j = i0 - 1
        while need_left and j >= 0 and self.tpos[j][2].string in OPEN:
            s = self.tpos[j][0]
            need_left -= 1
            j -= 1
        return s, e

    def dedent(self, s, e):
        """text of [s, e) with the first line's column removed from the following lines where they are blank there"""
        text = self.src[s:e]
        col = s - (self.src.rfind('\n', 0, s) + 1)
        if col == 0 or '\n' not in text:
            return text
        first, *rest = text.split('\n')
        out = [first]
        for ln in rest:
            out.append(ln[col:] if ln[:col].strip() == '' else ln)
        return '\n'.join(out)

    def paren_close(self, iopen):
        depth = 0
        for j in range(iopen, len(self.tpos)):
            t = self.tpos[j][2]
            if t.type == tokenize.OP and t.string in OPEN:
                depth += 1
            elif t.type == tokenize.OP and t.string in CLOSE:
                depth -= 1
                if depth == 0:
                    return j
        return None


def _hull(prog, nodes):
    ss = [prog.span(n) for n in nodes if n is not None and hasattr(n, 'lineno')]
    if not ss:
        return None
    return prog.balance(min(s for s, e in ss), max(e for s, e in ss))


def program_fragments(src):
    """Yield (kind, text, hint) for every node of the program: kind = AST class name, or a list-mode name for sibling
    sequences; text = the exact source of the node / sequence.  hint: 'Import' / 'ImportFrom' for aliases."""
    try:
        prog = Prog(src)
    except (SyntaxError, ValueError):
        return
    for node in ast.walk(prog.tree):
        k = type(node).__name__
        if isinstance(node, ast.Module):
            yield 'Module', src, ''
            continue
        if isinstance(node, (ast.expr_context, ast.boolop, ast.operator, ast.unaryop, ast.cmpop)):
            continue
        if hasattr(node, 'lineno'):
            s, e = prog.span(node)
            if isinstance(node, (ast.FunctionDef, ast.AsyncFunctionDef, ast.ClassDef)) and node.decorator_list:
                ds = prog.span(node.decorator_list[0])[0]
                i = prog.tok_before(ds)
                while i >= 0 and prog.tpos[i][2].string != '@':
                    i -= 1
                if i >= 0:
                    yield '_decorator_list', prog.dedent(prog.tpos[i][0], prog.balance(ds, prog.span(node.decorator_list[-1])[1])[1]), ''
                    s = prog.tpos[i][0]
            hint = ''
            if isinstance(node, ast.alias):
                hint = 'star' if node.name == '*' else ''
            text = prog.dedent(s, e) if isinstance(node, (ast.stmt, ast.ExceptHandler)) else prog.src[s:e]
            yield k, text, hint
        # unpositioned kinds and sibling sequences
        if isinstance(node, ast.comprehension):
            h = _hull(prog, [node.target, node.iter] + node.ifs)
            i = prog.tok_before(h[0])
            while i >= 0 and prog.tpos[i][2].string not in ('for',):
                i -= 1
            if i > 0 and prog.tpos[i - 1][2].string == 'async':
                i -= 1
            if i >= 0:
                yield 'comprehension', src[prog.tpos[i][0]:h[1]], ''
            if node.ifs:
                hi = _hull(prog, node.ifs)
                j = prog.tok_before(hi[0])
                while j >= 0 and prog.tpos[j][2].string != 'if':
                    j -= 1
                if j >= 0:
                    yield '_comprehension_ifs', src[prog.tpos[j][0]:hi[1]], ''
        elif isinstance(node, (ast.ListComp, ast.SetComp, ast.GeneratorExp, ast.DictComp)):
            g0, gn = node.generators[0], node.generators[-1]
            h = _hull(prog, [g0.target, gn.iter] + gn.ifs)
            i = prog.tok_before(h[0])
            while i >= 0 and prog.tpos[i][2].string != 'for':
                i -= 1
            if i > 0 and prog.tpos[i - 1][2].string == 'async':
                i -= 1
            if i >= 0:
                yield '_comprehensions', src[prog.tpos[i][0]:h[1]], ''
        elif isinstance(node, ast.withitem):
            h = _hull(prog, [node.context_expr, node.optional_vars])
            yield 'withitem', src[h[0]:h[1]], ''
        elif isinstance(node, ast.match_case):
            h = _hull(prog, [node.pattern] + node.body)
            i = prog.tok_before(h[0])
            while i >= 0 and prog.tpos[i][2].string != 'case':
                i -= 1
            if i >= 0:
                yield 'match_case', prog.dedent(prog.tpos[i][0], h[1]), ''
        elif isinstance(node, (ast.FunctionDef, ast.AsyncFunctionDef)):
            i = prog.tok_index_at_or_after(prog.span(node)[0])
            while i < len(prog.tpos) and prog.tpos[i][2].string != 'def':
                i += 1
            i += 2
            if node.type_params and i < len(prog.tpos) and prog.tpos[i][2].string == '[':
                j = prog.paren_close(i)
                yield '_type_params', src[prog.tpos[i][1]:prog.tpos[j][0]], ''
                i = j + 1
            if i < len(prog.tpos) and prog.tpos[i][2].string == '(':
                j = prog.paren_close(i)
                if j is not None:
                    yield 'arguments', src[prog.tpos[i][1]:prog.tpos[j][0]], ''
        elif isinstance(node, ast.Lambda):
            s, e = prog.span(node)
            i = prog.tok_index_at_or_after(s)
            while i < len(prog.tpos) and prog.tpos[i][2].string != 'lambda':
                i += 1
            j = i + 1
            depth = 0
            while j < len(prog.tpos):
                t = prog.tpos[j][2]
                if t.type == tokenize.OP and t.string in OPEN:
                    depth += 1
                elif t.type == tokenize.OP and t.string in CLOSE:
                    depth -= 1
                elif t.string == ':' and depth == 0:
                    break
                j += 1
            if j < len(prog.tpos):
                yield 'arguments_lambda', src[prog.tpos[i][1]:prog.tpos[j][0]], ''
        elif isinstance(node, ast.Call):
            fe = prog.balance(*prog.span(node.func))[1]
            i = prog.tok_index_at_or_after(fe)
            if i < len(prog.tpos) and prog.tpos[i][2].string == '(':
                j = prog.paren_close(i)
                if j is not None:
                    yield '_arglikes', src[prog.tpos[i][1]:prog.tpos[j][0]], ''
        elif isinstance(node, ast.ClassDef):
            i = prog.tok_index_at_or_after(prog.span(node)[0])
            while i < len(prog.tpos) and prog.tpos[i][2].string != 'class':
                i += 1
            i += 2
            if node.type_params and i < len(prog.tpos) and prog.tpos[i][2].string == '[':
                j = prog.paren_close(i)
                yield '_type_params', src[prog.tpos[i][1]:prog.tpos[j][0]], ''
                i = j + 1
            if i < len(prog.tpos) and prog.tpos[i][2].string == '(':
                j = prog.paren_close(i)
                if j is not None:
                    yield '_arglikes', src[prog.tpos[i][1]:prog.tpos[j][0]], ''
        elif isinstance(node, ast.TypeAlias) and node.type_params:
            i = prog.tok_index_at_or_after(prog.span(node.name)[1])
            if i < len(prog.tpos) and prog.tpos[i][2].string == '[':
                j = prog.paren_close(i)
                yield '_type_params', src[prog.tpos[i][1]:prog.tpos[j][0]], ''
        elif isinstance(node, ast.Assign):
            s = prog.span(node)[0]
            ve = prog.balance(*prog.span(node.value))[0]
            i = prog.tok_before(ve)
            if i >= 0 and prog.tpos[i][2].string == '=':
                yield '_Assign_targets', src[s:prog.tpos[i][1]], ''
        elif isinstance(node, (ast.Try, ast.TryStar)) and node.handlers:
            s = prog.span(node.handlers[0])[0]
            e = prog.span(node.handlers[-1])[1]
            yield '_ExceptHandlers', prog.dedent(s, e), ''
        elif isinstance(node, ast.Match):
            c0, cn = node.cases[0], node.cases[-1]
            h0 = _hull(prog, [c0.pattern])
            i = prog.tok_before(h0[0])
            while i >= 0 and prog.tpos[i][2].string != 'case':
                i -= 1
            e = prog.span(cn.body[-1])[1]
            if i >= 0:
                yield '_match_cases', prog.dedent(prog.tpos[i][0], e), ''
        elif isinstance(node, ast.Import):
            yield '_Import_names', src[prog.span(node.names[0])[0]:prog.span(node.names[-1])[1]], ''
        elif isinstance(node, ast.ImportFrom):
            yield '_ImportFrom_names', src[prog.span(node.names[0])[0]:prog.span(node.names[-1])[1]], ''
        elif isinstance(node, (ast.With, ast.AsyncWith)):
            h = _hull(prog, [node.items[0].context_expr, node.items[-1].optional_vars or node.items[-1].context_expr])
            yield '_withitems', src[h[0]:h[1]], ''
        elif isinstance(node, ast.MatchClass):
            ce = prog.balance(*prog.span(node.cls))[1]
            i = prog.tok_index_at_or_after(ce)
            if i < len(prog.tpos) and prog.tpos[i][2].string == '(':
                j = prog.paren_close(i)
                if j is not None:
                    yield '_pattern_attrlikes', src[prog.tpos[i][1]:prog.tpos[j][0]], ''
        if isinstance(node, (ast.BinOp, ast.BoolOp, ast.Compare, ast.UnaryOp)):
            # operator text: the tokens between the operands (kept with the layout in between)
            if isinstance(node, ast.BinOp):
                a, b, kk = node.left, node.right, 'operator'
            elif isinstance(node, ast.BoolOp):
                a, b, kk = node.values[0], node.values[1], 'boolop'
            elif isinstance(node, ast.Compare):
                a, b, kk = node.left, node.comparators[0], 'cmpop'
            else:
                a, b, kk = None, node.operand, 'unaryop'
            lo = prog.balance(*prog.span(a))[1] if a is not None else prog.span(node)[0]
            hi = prog.balance(*prog.span(b))[0]
            i0 = prog.tok_index_at_or_after(lo)
            i1 = prog.tok_before(hi)
            if 0 <= i0 <= i1 and all(t.string not in OPEN + CLOSE for _, _, t in prog.tpos[i0:i1 + 1]):
                yield kk, src[prog.tpos[i0][0]:prog.tpos[i1][1]], ''


# ----------------------------------------------------------------------------------------------------------------------
# layout variants of one fragment

def _rename_nonascii(frag):
    toks = _toks(frag)
    if not toks:
        return None
    name = None
    for t in toks:
        if t.type == tokenize.NAME and not keyword.iskeyword(t.string) and t.string not in ('match', 'case', 'type', '_'):
            name = t.string
            break
    if name is None:
        return None
    lines = frag.split('\n')
    for t in reversed(toks):
        if t.type == tokenize.NAME and t.string == name:
            ln = lines[t.start[0] - 1]
            lines[t.start[0] - 1] = ln[:t.end[1]] + 'é\U0001d4b3' + ln[t.end[1]:]
    return '\n'.join(lines)


def _break_first_line(frag):
    toks = [t for t in (_toks(frag) or []) if t.type not in TRIVIA]
    if len(toks) < 2 or toks[0].end[0] != toks[1].start[0]:
        return None
    lines = frag.split('\n')
    ln = lines[toks[0].end[0] - 1]
    c = toks[0].end[1]
    lines[toks[0].end[0] - 1] = ln[:c] + ' \\'
    lines.insert(toks[0].end[0], ' ' + ln[c:].lstrip(' '))
    return '\n'.join(lines)


def variants(frag, stmtlike):
    """[(variant name, text)] - layouts the property quantifies over"""
    out = [('plain', frag)]
    out.append(('lead-comment', '# lead\n' + frag))
    out.append(('lead-comment-mb', '# ü\U0001d4b3 中\n' + frag))
    out.append(('trail-comment', frag + '  # trail'))
    out.append(('trail-comment-mb-nl', frag + '  # ü\U0001d4b3\n'))
    out.append(('lead-blank', '\n' + frag))
    out.append(('trail-nl', frag + '\n'))
    out.append(('trail-comment-line', frag + '\n# after'))
    v = _break_first_line(frag)
    if v:
        out.append(('cont-first-line', v))
    v = _rename_nonascii(frag)
    if v:
        out.append(('nonascii-name', v))
    if not stmtlike:
        out.append(('lead-space', '  ' + frag))
        out.append(('own-parens', '(' + frag + ')'))
        out.append(('own-parens-lines', '(  # open\n ' + frag + '\n)'))
        out.append(('mb-string-before', '"é中" if _ else ' + frag))
    out.append(('trail-cont', frag + ' \\\n'))
    return out


# ----------------------------------------------------------------------------------------------------------------------
# invalid inputs

def token_mutants(frag, rng, n=3):
    toks = [t for t in (_toks(frag) or []) if t.type not in TRIVIA]
    if not toks:
        return []
    lines = frag.split('\n')
    out = []
    for _ in range(n):
        t = rng.choice(toks)
        ls = list(lines)
        if rng.random() < 0.5:  # delete
            if t.start[0] != t.end[0]:
                continue
            ln = ls[t.start[0] - 1]
            ls[t.start[0] - 1] = ln[:t.start[1]] + ln[t.end[1]:]
            out.append(('mut-del', '\n'.join(ls)))
        else:  # insert
            ins = rng.choice([')', '(', ',', ':', '=', ']', '[', 'if', 'for', '*', '+', ';', '.', 'as', '#', '\\', '}',
                              'x', 'in', 'not', '@', '->', ':=', '|'])
            ln = ls[t.end[0] - 1]
            ls[t.end[0] - 1] = ln[:t.end[1]] + ' ' + ins + ' ' + ln[t.end[1]:]
            out.append(('mut-ins', '\n'.join(ls)))
    return out


_CLOSER = {'(': ')', '[': ']', '{': '}'}


def escapes(row, v1, v2):
    """wrapper-escape strings for one mode, generated from the delimiters of ITS embedding (spec table) and two
    fragments v1, v2"""
    out = []
    for alt in row['alts']:
        pre = '\n'.join(alt['pre'])
        suf = '\n'.join(alt['suf'])
        op = [c for c in pre if c in OPEN]
        if op:
            o = op[-1]
            c = _CLOSER[o]
            out += [('esc-close-op-open', f'{v1}{c} + {o}{v2}'), ('esc-close-comma-open', f'{v1}{c}, {o}{v2}'),
                    ('esc-close-nl-open', f'{v1}\n{c}\n{o}\n{v2}'), ('esc-close-open', f'{v1}{c}{o}{v2}'),
                    ('esc-close-only', f'{v1}{c}'), ('esc-open-only', f'{o}{v1}'),
                    ('esc-close-if-open', f'{v1},{c}if{o}{v2}'), ('esc-close-eq-open', f'{v1}{c}={o}{v2}'),
                    ('esc-bare', f'{c}+{o}'), ('esc-close-cont-open', f' #0\n {v1} #1\n {c} \\\n + \\\n {o} {v2}')]
        out += [('esc-reopen', f'{v1}{suf}\n{pre}{v2}'), ('esc-suffix', f'{v1}{suf}'), ('esc-prefix', f'{pre}{v1}')]
    out += [('sep-two', f'{v1}, {v2}'), ('sep-trail-comma', f'{v1},'), ('sep-lead-comma', f',{v1}'),
            ('sep-trail-colon', f'{v1}:'), ('sep-trail-eq', f'{v1} ='), ('sep-eq', f'{v1} = {v2}'),
            ('sep-semi', f'{v1}; {v2}'), ('sep-trail-semi', f'{v1};'), ('sep-nl', f'{v1}\n{v2}'),
            ('sep-space', f'{v1} {v2}'), ('sep-colon', f'{v1}: {v2}'), ('sep-arrow', f'{v1}) -> ({v2}'),
            ('sep-for', f'{v1} for {v2} in {v2}'), ('sep-if', f'{v1} if {v2}'), ('sep-star', f'*{v1}'),
            ('sep-dstar', f'**{v1}'), ('sep-lambda', f'{v1}: lambda'), ('empty', ''), ('only-comment', '# nothing'),
            ('only-cont', '\\\n')]
    return out


def invalid_src_inputs():
    """source strings (inputs only) of /repo/tests/data/data_parse_invalid_src.txt"""
    out = []
    try:
        fh = open('/repo/tests/data/data_parse_invalid_src.txt')
    except OSError:
        return out
    with fh:
        for ln in fh:
            if not ln or ln[0] not in '\'"':
                continue
            try:
                t = next(tokenize.generate_tokens(io.StringIO(ln).readline))
                if t.type == tokenize.STRING:
                    s = ast.literal_eval(t.string)
                    if isinstance(s, str) and s not in out:
                        out.append(s)
            except Exception:  # noqa: BLE001
                pass
    return out


OPERATOR_TEXTS = {
    'boolop': ['and', 'or'],
    'operator': ['+', '-', '*', '@', '/', '%', '**', '<<', '>>', '|', '^', '&', '//'],
    'unaryop': ['~', 'not', '+', '-'],
    'cmpop': ['==', '!=', '<', '<=', '>', '>=', 'is', 'is not', 'in', 'not in', 'is  not', 'not   in', 'is \\\n not',
              'not \\\n in'],
}

OP_TEXT = {'And': 'and', 'Or': 'or', 'Add': '+', 'Sub': '-', 'Mult': '*', 'MatMult': '@', 'Div': '/', 'Mod': '%',
           'Pow': '**', 'LShift': '<<', 'RShift': '>>', 'BitOr': '|', 'BitXor': '^', 'BitAnd': '&', 'FloorDiv': '//',
           'Invert': '~', 'Not': 'not', 'UAdd': '+', 'USub': '-', 'Eq': '==', 'NotEq': '!=', 'Lt': '<', 'LtE': '<=',
           'Gt': '>', 'GtE': '>=', 'Is': 'is', 'IsNot': 'is not', 'In': 'in', 'NotIn': 'not in'}


def token_facts(text):
    """tokenize-only description of a fragment, used to name the input class of a verdict:
    last non-trivia token, number of bracket-depth-0 commas, the set of depth-0 structural tokens"""
    toks = None
    for t in (text, text + '\n', text + ')', '(' + text):
        toks = _toks(t)
        if toks is not None:
            break
    if toks is None:
        return {'lastTok': '?', 'commas0': -1, 'struct0': '?', 'trailComment': False}
    depth = 0
    last = ''
    commas = 0
    st = set()
    tc = False
    for t in toks:
        if t.type == tokenize.COMMENT:
            tc = True
        if t.type in TRIVIA:
            continue
        tc = False
        last = t.string
        if t.type == tokenize.OP and t.string in OPEN:
            depth += 1
        elif t.type == tokenize.OP and t.string in CLOSE:
            depth -= 1
        elif depth <= 0:
            if t.string == ',':
                commas += 1
            if t.string in (',', 'if', 'for', '->', ':', '=', ';', 'as', 'lambda', 'else'):
                st.add(t.string)
    return {'lastTok': last[:8], 'commas0': commas, 'struct0': '|'.join(sorted(st)), 'trailComment': tc}


# ----------------------------------------------------------------------------------------------------------------------
# boundary family: wrapped fragments with multi-byte text on their first / last line
#
# Every fix-up a fragment parser makes after parsing a wrapped text (recomputing the span of an undelimited sequence,
# looking for a trailing separator / closing parenthesis / semicolon, un-indenting) works on the FIRST or LAST line of
# the fragment and has to convert between character columns and UTF-8 byte offsets there.  The family is the product
#   head (why the text cannot be parsed bare) x body (where the multi-byte element sits) x tail (what follows the last
#   element) x parenthesised-or-not, for every mode, with elements of 2-, 3- and 4-byte characters.

BND_HEADS = [('bare', ''), ('lead-space', '  '), ('lead-nl', '\n'), ('lead-comment', '# ü日\n'), ('lead-cont', ' \\\n')]

# mode group -> (modes, neutral elements, multi-byte elements, separator, may be parenthesised)
BND_GROUPS = [
    (('expr', 'expr_arglike', 'Tuple_elt', 'all', 'expr_all', 'expr_slice', 'Tuple', '_arglikes', '_arglike', 'List',
      'Starred'),
     ['a', 'f(b)'], ["'é'", "'日本'", 'xé\U0001d4b3', "f('é')", '-é', "*'日'", "'é' 'ü'"], ',', True),
    (('pattern', 'MatchSequence', 'all', 'MatchStar'),
     ['a', '1'], ["'é'", "'日本'", 'xé', "Cé('\U0001d4b3')", "['é']", '*é', "'é' | 'ü'"], ',', True),
    (('_withitems', 'withitem', 'all'), ['a'], ["fé('é') as xé", "'é'", 'é\U0001d4b3', "f('日本')"], ',', True),
    (('_type_params', 'type_param'), ['T'], ['Té', '*Tsé', "Té: '日本'", '**Pé'], ',', False),
    (('_Import_names', '_aliases', 'Import_name', 'alias'), ['a'], ['aé.bé', 'aé as bé', '日本'], ',', False),
    (('_ImportFrom_names', '_aliases', 'ImportFrom_name', 'alias'), ['a'], ['aé', 'aé as bé', '日本 as é'], ',', False),
    (('_Assign_targets',), ['a ='], ['bé =', "xé['日本'] =", 'é, ü ='], '', False),
    (('_decorator_list',), ['@a'], ["@dé('é')", '@é', "@f('日本').é"], '', False),
    (('_comprehension_ifs',), ['if a'], ["if 'é'", 'if é', "if f('日本')"], '', True),
    (('_comprehensions', 'comprehension', 'all'), ['for a in b'], ["for é in 'é'", "for é in ü if '日本'"], '', False),
    (('arguments', 'arguments_lambda', 'arg'), ['a'], ["bé='é'", '*é', "bé: '日本' = 'é'", 'é'], ',', False),
    (('_pattern_attrlikes',), ['a'], ["ké='é'", "'日本'", 'é'], ',', False),
    (('keyword', '_arglikes', '_arglike'), ['k=v'], ["ké='é'", "**'日本'", "ké=f('é')"], ',', False),
    (('_ExceptHandlers', 'ExceptHandler', 'all'), ['except A: pass'],
     ["except (Eé, '日本'): xé = 'é'", "except Eé as é: 'é'"], '', False),
    (('_match_cases', 'match_case', 'all'), ['case 1: pass'], ["case 'é', é: xé = '日本'", "case é if 'é': 'é'"], '', False),
    (('stmt', 'exec', 'single', 'strict', 'Expr', 'Assign'), ['a = 1'], ["é = 'é', '日本'", "'é', é", "x = 'é'; é"], ';', False),
    (('operator',), ['+'], ['+', '**'], '', False),
]


def boundary_cases(rng, quick, valid_modes):
    out = []
    for modes, neutral, mbs, sep, paren in BND_GROUPS:
        tails = [('none', ''), ('sep', sep), ('sp-sep', ' ' + sep), ('sep-comment-mb', sep + '  # 日本é'),
                 ('comment', '  # c'), ('sep-nl', sep + '\n'), ('nl-sep', '\n' + sep)]
        if not sep:
            tails = [('none', ''), ('comment-mb', '  # 日本é'), ('nl', '\n'), ('cont', ' \\\n')]
        glue = sep if sep else ''
        bodies = [('last-line', lambda e1, e2: e1 + glue + '\n' + e2),
                  ('same-line', lambda e1, e2: e1 + glue + ' ' + e2),
                  ('alone', lambda e1, e2: e2),
                  ('first-line', lambda e1, e2: e2 + glue + '\n' + e1),
                  ('three', lambda e1, e2: e2 + glue + '\n' + e1 + glue + '\n' + e2)]
        for mi, mode in enumerate(modes):
            if mode not in valid_modes:
                continue
            # quick tier: the full product for the modes that recompute spans themselves, a 20 % sample elsewhere
            keep = 1.0 if not quick or (modes[0] in ('expr', 'pattern') and mi < (4 if modes[0] == 'expr' else 2)) else 0.2
            k = rng.randrange(len(mbs))
            for hn, h in BND_HEADS:
                for bn, b in bodies:
                    for tn, t in tails:
                        for par in ((False, True) if paren else (False,)):
                            elems = mbs if not quick else [mbs[k % len(mbs)]]
                            k += 1
                            for e2 in elems:
                                e = '(' + e2 + ')' if par and not e2.startswith('*') else e2
                                text = h + b(neutral[k % len(neutral)], e) + t
                                if keep < 1.0 and rng.random() >= keep:
                                    continue
                                out.append((mode, text, f'bnd:{hn}:{bn}:{tn}' + (':par' if par else '')))
    return out


# ----------------------------------------------------------------------------------------------------------------------
# concretisation of the spec-side case tables (spec/ParseCases.tla, emitted by TLC)

def multiline_layouts(shape, sep, names):
    """Apply the multi-line layouts named by the spec at EVERY position of `shape` they can apply to."""
    toks = [t for t in (_toks(shape) or []) if t.type not in TRIVIA]
    lines = shape.split('\n')
    out = []

    def ins(line, col, what):
        ls = list(lines)
        ls[line - 1] = ls[line - 1][:col] + what + ls[line - 1][col:].lstrip(' ') if what.endswith(' ') or what.endswith('\n') \
            else ls[line - 1][:col] + what + ls[line - 1][col:]
        return '\n'.join(ls)

    for i, t in enumerate(toks):
        nxt = toks[i + 1] if i + 1 < len(toks) else None
        if nxt is not None and t.end[0] == nxt.start[0]:
            if 'cont-after-token' in names:
                out.append((f'cont-after-token@{i}', ins(t.end[0], t.end[1], ' \\\n ')))
            if 'cont-after-token-flush' in names:
                out.append((f'cont-after-token-flush@{i}', ins(t.end[0], t.end[1], ' \\\n')))
        if t.type == tokenize.OP and t.string in OPEN and 'break-after-open' in names:
            out.append((f'break-after-open@{i}', ins(t.end[0], t.end[1], '\n ')))
        if t.type == tokenize.OP and t.string in CLOSE and 'break-before-close' in names:
            ls = list(lines)
            ls[t.start[0] - 1] = ls[t.start[0] - 1][:t.start[1]] + '\n' + ls[t.start[0] - 1][t.start[1]:]
            out.append((f'break-before-close@{i}', '\n'.join(ls)))
    if sep and shape:
        w = len(lines[-1])
        for k in range(0, w + 1):
            if 'sep-on-later-line' in names:
                out.append((f'sep-on-later-line@{k}', shape + '\n' + ' ' * k + sep))
            if 'comment-then-sep-on-later-line' in names:
                out.append((f'comment-then-sep-on-later-line@{k}', shape + '  # c\n' + ' ' * k + sep))
    return out


def bridge_cases(e1, e2, bridges):
    """<valid element> closer filler opener <valid element>"""
    return [('br:' + b['name'], e1 + b['text'] + e2, b['core']) for b in bridges]
