"""C17, structural part: recorded executions of FST.match / M_Pattern.match / FST.search on corpus programs.

Only observations are produced here (what pfst answered, canonicalised with nodes named by child path); the clauses
StructureOnly / HistoryFree / OwnMatches / MutantRejected / SearchIsFilter / SearchTags are evaluated by TLC in
spec/MatchTrace.tla.
"""

from __future__ import annotations

import ast
import json
import random
import re

from harness import layouts
from harness.c17_quant import time_limit

FORMS_LAY = (1, 2, 3, 4, 5, 8)  # layout variants of harness/layouts.py used as re-layouts (8 = several combined); never 6/7 (renaming)


# ----------------------------------------------------------------------------------------------------------------------
# node numbering by child path (stdlib only)

def ast_nodes(tree):
    """[(path tuple, node, parent index)] in DFS order over every AST object (operators and ctx included)."""
    out = []

    def rec(node, path, par):
        me = len(out)
        out.append((path, node, par))
        for field in node._fields:
            v = getattr(node, field, None)
            if isinstance(v, ast.AST):
                rec(v, path + ((field, None),), me)
            elif isinstance(v, list):
                for i, c in enumerate(v):
                    if isinstance(c, ast.AST):
                        rec(c, path + ((field, i),), me)
    rec(tree, (), -1)
    return out


def by_path(tree, path):
    node = tree
    for field, idx in path:
        node = getattr(node, field)
        if idx is not None:
            node = node[idx]
    return node


def fst_path(f):
    p = []
    while f.parent is not None:
        pf = f.pfield
        p.append((pf.name, pf.idx))
        f = f.parent
    return tuple(reversed(p))


# ----------------------------------------------------------------------------------------------------------------------
# canonical description of an answer (observation)

class Canon:
    def __init__(self, pathmap_ast=None):
        self.pathmap_ast = pathmap_ast  # id(ast node) -> path for a pure-AST target tree

    def path_s(self, path):
        return '.'.join(f'{f}[{i}]' if i is not None else f for f, i in path) or '<root>'

    def val(self, v):
        from fst import FST
        from fst.view import FSTView
        from fst.match import FSTMatch
        if isinstance(v, FST):
            if not v.a._fields:  # operators / ctx: CPython's parser shares one object for all occurrences, no identity
                return 'K:' + type(v.a).__name__
            return 'N:' + self.path_s(fst_path(v))
        if isinstance(v, ast.AST):
            if not v._fields:
                return 'K:' + type(v).__name__
            p = self.pathmap_ast.get(id(v)) if self.pathmap_ast else None
            if p is None and getattr(v, 'f', None) is not None:
                return 'N:' + self.path_s(fst_path(v.f))
            return 'N:' + (self.path_s(p) if p is not None else '?' + type(v).__name__)
        if isinstance(v, FSTMatch):
            return ['M', self.val(v.matched), self.tags(v.tags)]
        if isinstance(v, FSTView):
            return ['L'] + [self.val(x) for x in v]
        if isinstance(v, (list, tuple)):
            return ['L'] + [self.val(x) for x in v]
        if isinstance(v, re.Match):
            return f'R:{v.span()}:{ascii(v.group(0))}'
        if v is None or isinstance(v, (str, bytes, int, float, complex, bool)) or v is ...:
            return 'P:' + type(v).__name__ + ':' + ascii(v)
        return 'O:' + type(v).__name__

    def tags(self, tags):
        return {str(k): self.val(v) for k, v in sorted(tags.items(), key=lambda kv: str(kv[0]))}

    def answer(self, m):
        if m is None:
            return False, ''
        return True, json.dumps(self.tags(m.tags), sort_keys=True, ensure_ascii=True)


# ----------------------------------------------------------------------------------------------------------------------
# patterns

OPS_SWAP = {ast.Add: ast.Sub, ast.Sub: ast.Add, ast.Mult: ast.Div, ast.Div: ast.Mult, ast.Mod: ast.Pow, ast.Pow: ast.Mod,
            ast.LShift: ast.RShift, ast.RShift: ast.LShift, ast.BitOr: ast.BitAnd, ast.BitAnd: ast.BitXor,
            ast.BitXor: ast.BitOr, ast.FloorDiv: ast.MatMult, ast.MatMult: ast.FloorDiv, ast.And: ast.Or, ast.Or: ast.And,
            ast.Not: ast.Invert, ast.Invert: ast.Not, ast.UAdd: ast.USub, ast.USub: ast.UAdd, ast.Eq: ast.NotEq,
            ast.NotEq: ast.Eq, ast.Lt: ast.LtE, ast.LtE: ast.Lt, ast.Gt: ast.GtE, ast.GtE: ast.Gt, ast.Is: ast.IsNot,
            ast.IsNot: ast.Is, ast.In: ast.NotIn, ast.NotIn: ast.In}

STR_LEAVES = {ast.Name: 'id', ast.arg: 'arg', ast.Attribute: 'attr', ast.keyword: 'arg', ast.alias: 'name',
              ast.FunctionDef: 'name', ast.AsyncFunctionDef: 'name', ast.ClassDef: 'name', ast.MatchAs: 'name',
              ast.MatchStar: 'name', ast.ExceptHandler: 'name', ast.TypeVar: 'name', ast.ParamSpec: 'name',
              ast.TypeVarTuple: 'name', ast.ImportFrom: 'module', ast.MatchMapping: 'rest'}


def in_fstring(tree_nodes, idx):
    while idx >= 0:
        path, node, par = tree_nodes[idx]
        if isinstance(node, (ast.JoinedStr, ast.FormattedValue)):
            return True
        idx = par
    return False


def leaf_sites(sub):
    """Mutable leaves of the pure AST `sub`: [(node, kind, field/index)]"""
    sites = []
    for n in ast.walk(sub):
        t = type(n)
        if isinstance(n, (ast.JoinedStr, ast.FormattedValue)):
            continue
        f = STR_LEAVES.get(t)
        if f and isinstance(getattr(n, f, None), str):
            sites.append((n, 'str', f))
        if t is ast.Constant and n.kind is None:
            sites.append((n, 'const', 'value'))
        if t in (ast.BinOp, ast.UnaryOp, ast.BoolOp, ast.AugAssign) and type(n.op) in OPS_SWAP:
            sites.append((n, 'op', 'op'))
        if t is ast.Compare:
            for i, o in enumerate(n.ops):
                if type(o) in OPS_SWAP:
                    sites.append((n, 'cmpop', i))
        if t in (ast.Global, ast.Nonlocal):
            for i in range(len(n.names)):
                sites.append((n, 'names', i))
        if t is ast.ImportFrom:
            sites.append((n, 'level', 'level'))
        if t is ast.MatchClass:
            for i in range(len(n.kwd_attrs)):
                sites.append((n, 'kwd_attrs', i))
        if t is ast.comprehension:
            sites.append((n, 'flag', 'is_async'))
    # f-string internals are out of scope: drop anything below a JoinedStr
    inside = set()
    for n in ast.walk(sub):
        if isinstance(n, ast.JoinedStr):
            for d in ast.walk(n):
                inside.add(id(d))
    return [s for s in sites if id(s[0]) not in inside]


def mutate_leaf(site, rng=None):
    n, kind, f = site
    if kind == 'str':
        old = getattr(n, f)
        if rng is not None and len(old) >= 2 and rng.random() < 0.4:
            setattr(n, f, old[:-1])  # a proper prefix
            kind = 'strprefix'
        else:
            setattr(n, f, old + '_x')
    elif kind == 'const':
        v = n.value
        retype = rng is not None and rng.random() < 0.5
        if v is None:
            n.value = 0
        elif v is True or v is False:
            n.value = (1 if v else 0) if retype else (not v)  # True -> 1 keeps ==, changes the type
            kind = 'const-retype' if retype else kind
        elif v is ...:
            n.value = None
        elif isinstance(v, int) and retype:
            n.value = bool(v) if v in (0, 1) else float(v)
            kind = 'const-retype'
        elif isinstance(v, float) and retype and v == int(v):
            n.value = int(v)
            kind = 'const-retype'
        elif isinstance(v, (int, float, complex)):
            n.value = v + 1
        elif isinstance(v, str):
            n.value = v + 'x'
        elif isinstance(v, bytes):
            n.value = v + b'x'
    elif kind == 'op':
        n.op = OPS_SWAP[type(n.op)]()
    elif kind == 'cmpop':
        n.ops[f] = OPS_SWAP[type(n.ops[f])]()
    elif kind in ('names', 'kwd_attrs'):
        getattr(n, kind)[f] += '_x'
    elif kind == 'level':
        n.level = (n.level or 0) + 1
    elif kind == 'flag':
        n.is_async = 0 if n.is_async else 1
    return f'{type(n).__name__}.{kind}'


class PatGen:
    """Structural patterns derived from a pure AST node, over every combinator."""

    def __init__(self, rng, others):
        import fst.match as fm
        self.fm = fm
        self.rng = rng
        self.others = others  # pure AST nodes of other shapes, for "wrong" alternatives
        self.ntag = 0
        self.src = False
        self.kinds = set()

    def tag(self):
        self.ntag += 1
        return f't{self.ntag}'

    def mcls(self, node):
        return getattr(self.fm, 'M' + type(node).__name__, None)

    def wrong(self, node):
        """a pattern that cannot match `node` at this position: a node class of another kind"""
        for _ in range(8):
            o = self.rng.choice(self.others)
            if type(o) is not type(node):
                return type(o) if self.rng.random() < 0.5 else (self.mcls(o) or type(o))
        return self.fm.MPass if not isinstance(node, ast.Pass) else self.fm.MBreak

    def exact(self, v, depth):
        """pattern that matches exactly the structure v (MAST classes instead of AST)"""
        if isinstance(v, ast.AST):
            cls = self.mcls(v)
            if cls is None or isinstance(v, (ast.JoinedStr, ast.FormattedValue, ast.expr_context)):
                return v if not isinstance(v, ast.expr_context) else ...
            kw = {}
            for f in v._fields:
                if f in ('ctx', 'type_comment', 'kind'):
                    continue
                if (f == 'names' and isinstance(v, (ast.Global, ast.Nonlocal))) or (f == 'kwd_attrs' and isinstance(v, ast.MatchClass)):
                    # lists of plain strings: their elements are handed to callbacks as FSTView on an FST and as str on an
                    # AST (documented: "the type of node passed to the callback depends on the type of tree"): no MCB here
                    names = list(getattr(v, f))
                    kw[f] = names if (self.rng.random() < 0.7 or not names) else [self.fm.MQSTAR, names[-1]]
                    continue
                kw[f] = self.gen(getattr(v, f, None), depth + 1)
            return cls(**kw)
        if isinstance(v, list):
            return [self.gen(x, depth + 1) for x in v]
        return v

    def gen(self, v, depth):
        """pattern that matches v (a superset of v), choosing a combinator at random"""
        fm, rng = self.fm, self.rng
        r = rng.random()
        p_gen = 0.10 + 0.06 * min(depth, 5)
        if isinstance(v, ast.AST):
            if isinstance(v, (ast.JoinedStr, ast.FormattedValue)):
                return ...
            if r > p_gen * 3.2:
                return self.exact(v, depth)
            k = rng.randrange(13)
            if k == 0:
                self.kinds.add('...')
                return ...
            if k == 1:
                self.kinds.add('type')
                return type(v) if rng.random() < 0.5 else (self.mcls(v) or type(v))
            if k == 2:
                self.kinds.add('MTYPES')
                w = self.wrong(v)
                w = w if isinstance(w, type) else type(v)
                ts = [type(v), w]
                rng.shuffle(ts)
                if rng.random() < 0.5:
                    return fm.MTYPES(ts)
                return fm.MTYPES(**{self.tag(): ts})
            if k == 3:
                self.kinds.add('MOR')
                alts = [self.wrong(v), self.exact(v, depth + 2)]
                if rng.random() < 0.5:
                    alts.reverse()
                if rng.random() < 0.5:
                    return fm.MOR(*alts)
                return fm.MOR(alts[0], **{self.tag(): alts[1]})
            if k == 4:
                self.kinds.add('MAND')
                return fm.MAND(type(v), **{self.tag(): self.exact(v, depth + 2)})
            if k == 5:
                self.kinds.add('MNOT')
                return fm.MNOT(self.wrong(v), **({self.tag(): True} if rng.random() < 0.5 else {}))
            if k == 6:
                self.kinds.add('M')
                return fm.M(**{self.tag(): self.exact(v, depth + 1)})
            if k == 7:
                self.kinds.add('Mstatic')
                return fm.M(self.exact(v, depth + 1), **{self.tag(): rng.choice([True, 0, 'sv', None])})
            if k == 8:
                self.kinds.add('MCB')
                tname = type(v).__name__
                t = self.tag()
                return fm.MCB(**{t: (lambda n, _t=tname: type(getattr(n, 'a', n)).__name__ == _t)})
            if k == 9:
                self.kinds.add('MMAYBE')
                return fm.MMAYBE(self.exact(v, depth + 1))
            if k == 10:
                self.kinds.add('MNOT(MNOT)')
                return fm.MNOT(fm.MNOT(self.exact(v, depth + 2)))
            if k == 11:
                self.kinds.add('MOR(tagged)')
                return fm.MOR(**{self.tag(): self.wrong(v), self.tag(): self.exact(v, depth + 2)})
            return self.exact(v, depth)
        if isinstance(v, list):
            if v and all(isinstance(x, ast.AST) for x in v) and r < p_gen * 2.5:
                i = rng.randrange(len(v))
                k = rng.randrange(5)
                self.kinds.add('quant')
                if k == 0:
                    return [fm.MQSTAR, self.gen(v[i], depth + 1), fm.MQSTAR]
                if k == 1:
                    return [*[self.gen(x, depth + 1) for x in v[:i]], fm.MQSTAR(**{self.tag(): ...})]
                if k == 2:
                    return [fm.MQSTAR.NG(**{self.tag(): ...}), *[self.gen(x, depth + 1) for x in v[i:]]]
                if k == 3:
                    return [fm.MQN(..., len(v))]
                return [fm.MQMIN(**{self.tag(): fm.MNOT(self.wrong(v[i]))}, min=len(v))]
            if r < p_gen:
                self.kinds.add('...')
                return ...
            if r < p_gen * 1.5:
                self.kinds.add('M(list)')
                return fm.M(**{self.tag(): [self.gen(x, depth + 1) for x in v]})
            return [self.gen(x, depth + 1) for x in v]
        # primitive
        if r < p_gen:
            self.kinds.add('...')
            return fm.M(...)
        if isinstance(v, str) and r < p_gen * 2:
            self.kinds.add('MRE')
            t = self.tag()
            return rng.choice([fm.MRE(re.escape(v) + '$'), fm.MRE(**{t: re.escape(v[:1])}), re.compile(re.escape(v) + r'\Z'),
                               fm.MRE(re.escape(v[-1:]) + '$', search=True)])
        if r < p_gen * 2.6 and v is not None:
            self.kinds.add('MCB')
            return fm.MCB(lambda x, _v=v: type(x) is type(_v) and x == _v)
        if r < p_gen * 3 and v is None:
            self.kinds.add('MMAYBE')
            return fm.MMAYBE(self.fm.MName)
        if r < p_gen * 3.3:
            self.kinds.add('M')
            return fm.M(**{self.tag(): v})
        if isinstance(v, str) and r < p_gen * 3.6:
            self.kinds.add('MOR')
            return fm.MOR(v + '_no', v)
        return v

    def unify(self, a, b, depth=0):
        """Anti-unification of two pure ASTs: a pattern that accepts both, is exact where they agree, and where they differ
        is an alternation whose first branch captures a tag (so the tags depend on which target is matched).  At every
        unified node the first agreeing field is wrapped in M(sub, sK=True) - static tags only, no pattern tag."""
        fm, rng = self.fm, self.rng
        self.kinds.add('unify')
        if isinstance(a, ast.AST) and isinstance(b, ast.AST) and type(a) is type(b) and self.mcls(a) is not None \
                and not isinstance(a, (ast.JoinedStr, ast.FormattedValue, ast.expr_context)) and ast.dump(a) != ast.dump(b):
            kw = {}
            static_done = False
            for f in a._fields:
                if f in ('ctx', 'type_comment', 'kind'):
                    continue
                va, vb = getattr(a, f, None), getattr(b, f, None)
                same = (ast.dump(va) == ast.dump(vb)) if isinstance(va, ast.AST) and isinstance(vb, ast.AST) else \
                    (isinstance(va, list) and isinstance(vb, list) and len(va) == len(vb)
                     and all(isinstance(x, ast.AST) and isinstance(y, ast.AST) and ast.dump(x) == ast.dump(y) for x, y in zip(va, vb))) \
                    if isinstance(va, (ast.AST, list)) or isinstance(vb, (ast.AST, list)) else (type(va) is type(vb) and va == vb)
                if same:
                    sub = self._plain(va)
                    if not static_done and not (f == 'names' and isinstance(a, (ast.Global, ast.Nonlocal))):
                        static_done = True
                        sub = fm.M(sub, **{'s' + self.tag(): rng.choice([True, 1, 'st'])})
                    kw[f] = sub
                elif isinstance(va, list) and isinstance(vb, list) and len(va) == len(vb) and va \
                        and all(isinstance(x, ast.AST) for x in va + vb):
                    kw[f] = [self.unify(x, y, depth + 1) for x, y in zip(va, vb)]
                else:
                    kw[f] = self.unify(va, vb, depth + 1)
            return self.mcls(a)(**kw)
        if (isinstance(a, ast.AST) and isinstance(b, ast.AST) and ast.dump(a) == ast.dump(b)) or \
                (not isinstance(a, (ast.AST, list)) and not isinstance(b, (ast.AST, list)) and type(a) is type(b) and a == b):
            return self._plain(a)
        pa, pb = self._plain(a), self._plain(b)
        if rng.random() < 0.5:
            return fm.MOR(fm.M(**{self.tag(): pa}), pb)
        return fm.MOR(**{self.tag(): pa}, **{'z' + self.tag(): fm.M(pb)}) if rng.random() < 0.3 else fm.MOR(pb, fm.M(**{self.tag(): pa}))

    def _plain(self, v):
        """exact pattern without any tag or callback (plain MAST structure)"""
        if isinstance(v, ast.AST):
            cls = self.mcls(v)
            if cls is None or isinstance(v, (ast.JoinedStr, ast.FormattedValue)):
                return v
            if isinstance(v, ast.expr_context):
                return ...
            return cls(**{f: self._plain(getattr(v, f, None)) for f in v._fields if f not in ('ctx', 'type_comment', 'kind')})
        if isinstance(v, list):
            return [self._plain(x) for x in v]
        return v

    def top(self, v, kind):
        """a pattern with the requested combinator at top level (for search's pre-filter)"""
        fm, rng = self.fm, self.rng
        self.kinds.add('top:' + kind)
        ex = self.exact(v, 1)
        gen = self.gen(v, 1)
        mc = self.mcls(v) or type(v)
        if kind == 'M':
            return fm.M(**{self.tag(): gen})
        if kind == 'MNOT':
            return fm.MNOT(self.wrong(v))
        if kind == 'MNOT2':
            return fm.MNOT(fm.MOR(self.wrong(v), self.wrong(v), self.wrong(v)))
        if kind == 'MNOTx':   # MNOT of a non-type pattern: accepts every node that is not structurally v
            return fm.MNOT(ex)
        if kind == 'MANDx':
            return fm.MAND(fm.MNOT(ex), mc)
        if kind == 'MOR3':    # an alternative whose type cannot be known in advance
            tname = type(v).__name__
            return fm.MOR(self.wrong(v), fm.MCB(lambda n, _t=tname: type(getattr(n, 'a', n)).__name__ == _t))
        if kind == 'MOR4':
            return fm.MOR(fm.MAND(self.wrong(v), self.wrong(v)), fm.MNOT(fm.MNOT(mc)), 1)
        if kind == 'MOR':
            return fm.MOR(self.wrong(v), **{self.tag(): gen})
        if kind == 'MOR2':
            return fm.MOR(fm.MNOT(type(v)), ex) if rng.random() < 0.5 else fm.MOR(mc, fm.MCB(lambda n: False))
        if kind == 'MAND':
            return fm.MAND(type(v), gen)
        if kind == 'MAND2':
            return fm.MAND(fm.MNOT(self.wrong(v)), mc)
        if kind == 'MTYPES':
            w = self.wrong(v)
            return fm.MTYPES([type(v), w if isinstance(w, type) else type(v)])
        if kind == 'MTYPESf':
            f0 = [f for f in type(v)._fields if f not in ('ctx', 'type_comment', 'kind')]
            if f0:
                f = rng.choice(f0)
                return fm.MTYPES([type(v)], **{f: self.gen(getattr(v, f), 2)})
            return fm.MTYPES([type(v)])
        if kind == 'MRE':
            self.src = True
            return fm.MRE(r'\w+$') if rng.random() < 0.5 else fm.MRE(**{self.tag(): r'[a-z_]+\('})
        if kind == 'MCB':
            tname = type(v).__name__
            return fm.MCB(lambda n, _t=tname: type(getattr(n, 'a', n)).__name__ == _t)
        if kind == 'MTAG':
            return fm.MOR(fm.MAND(mc, fm.M(**{'bt': ...}), fm.MTAG('bt')), fm.MTAG('bt'))
        if kind == 'type':
            return type(v)
        if kind == 'mtype':
            return mc
        if kind == 'base':
            for b in (ast.expr, ast.stmt, ast.operator, ast.cmpop, ast.pattern):
                if isinstance(v, b):
                    return b
            return type(v)
        if kind == '...':
            return ...
        if kind == 'str':
            self.src = True
            return ast.unparse(v) if not isinstance(v, (ast.expr_context, ast.operator, ast.cmpop, ast.boolop, ast.unaryop)) else '+'
        if kind == 're':
            self.src = True
            return re.compile(r'[a-z]\w*( |$)')
        if kind == 'prim':
            return rng.choice([1, 'x', None, 2.0, b'b', True])
        if kind == 'backref':
            f0 = [f for f in type(v)._fields if isinstance(getattr(v, f, None), ast.AST) and not isinstance(getattr(v, f), ast.expr_context)]
            if len(f0) >= 2:
                a, b = rng.sample(f0, 2)
                if type(v)._fields.index(a) > type(v)._fields.index(b):
                    a, b = b, a
                return fm.MTYPES([type(v)], **{a: fm.M(**{'br': ...}), b: fm.MTAG('br')})
            return fm.MBinOp(fm.M(br=...), ..., fm.MTAG('br'))
        if kind == 'ast':
            return v
        return gen


TOP_KINDS = ['M', 'MNOT', 'MNOT2', 'MNOTx', 'MANDx', 'MOR3', 'MOR4', 'MOR', 'MOR2', 'MAND', 'MAND2', 'MTYPES', 'MTYPESf', 'MRE', 'MCB', 'MTAG', 'type', 'mtype',
             'base', '...', 'str', 're', 'prim', 'backref', 'ast', 'gen']


# ----------------------------------------------------------------------------------------------------------------------
# one program -> one trace

EXTRA_PROGRAMS = [
    # equal sub-trees written differently, for back-references; nested same-class nodes for MNOT / pre-filter cases
    'r = (a+b) * (a + b)\ns = f(x, y) == f(x,y)\nt = [i for i in j] or [i  for  i  in  j]\nu = p.q if p . q else (p.q)\n',
    'd = {k: g(1, 2), j: g(1,2)}\nv = x[1:2] + x[1 : 2]\nw = (lambda a: a) is (lambda a:a)\nz = not y and not  y\n',
    'def f(a, b=(1, 2), *c, d=(1,2), **e): return a\nfor q in q: q = q\nwhile n-1 > n - 1: n -= 1\nassert k, k\n',
]


class Program:
    def __init__(self, src, seed):
        from fst import FST
        self.src = src
        self.tree = ast.parse(src)
        self.nodes = ast_nodes(self.tree)
        self.ids = {p: i + 1 for i, (p, n, par) in enumerate(self.nodes)}
        self.par = [par + 1 for (p, n, par) in self.nodes]
        self.forms = {}
        self.canon = {}
        f = FST(src, 'exec')
        self.forms['fmt'] = f
        self.canon['fmt'] = Canon()
        seen_src = {src}
        for v in FORMS_LAY:
            if v == 8:
                r8 = random.Random(seed * 31 + 8)
                s2 = src
                for fn in (layouts.redundant_parens, layouts.continuations, layouts.own_line_comments, layouts.trailing_comments):
                    s2 = fn(s2, r8)
            else:
                s2 = layouts.variant(src, v, seed)
            if s2 not in seen_src and layouts._same(src, s2):  # same structure, checked with CPython's parser
                seen_src.add(s2)
                try:
                    self.forms[f'lay{v}'] = FST(s2, 'exec')
                    self.canon[f'lay{v}'] = Canon()
                except Exception:  # noqa: BLE001 - a layout pfst cannot parse is C05's business, not used here
                    pass
        t2 = ast.parse(src)
        self.forms['ast'] = t2
        self.canon['ast'] = Canon({id(n): p for p, n, par in ast_nodes(t2)})

    def target(self, form, path):
        root = self.forms[form]
        if form == 'ast':
            return by_path(root, path)
        return by_path(root.a, path).f

    def tid(self, f):
        return self.ids[fst_path(f)]


def _exc_s(ex):
    return ascii(f'{type(ex).__name__}: {ex}')[1:-1][:160].replace('\\', '/').replace('"', "'")


def run_match(prog, pat, form, path, use_fst_method, ctx=False):
    """one Match event's observation"""
    tgt = prog.target(form, path)
    try:
      with time_limit(30):
        if form != 'ast' and (use_fst_method or not hasattr(pat, 'match') or isinstance(pat, (type, re.Pattern))):
            m = tgt.match(pat, ctx=ctx) if ctx else tgt.match(pat)
        elif hasattr(pat, 'match') and not isinstance(pat, (type, re.Pattern)):
            m = pat.match(tgt, ctx=ctx) if ctx else pat.match(tgt)
        else:
            import fst.match as fm
            m = fm.M(pat).match(tgt)  # non-M patterns on a pure AST go through the anonymous M() wrapper
      acc, tags = prog.canon[form].answer(m)
      return acc, tags, ''
    except Exception as ex:  # noqa: BLE001
        return False, '', _exc_s(ex)


def run_search(prog, pat, form, path, nested, on, back, self_, recurse, scope):
    root = prog.target(form, path)
    canon = prog.canon[form]
    kw = dict(on=on, self_=self_, recurse=recurse, scope=scope, back=back)
    ev = {'walk': [], 'lv': [], 'ci': [], 'acc': [], 'wtags': [], 'found': [], 'flv': [], 'ftags': [], 'exc': ''}
    try:
      with time_limit(60):
        for y in root.search(pat, nested, **kw):
            m, lv = y if on == 'both' else (y, False)
            ev['found'].append(prog.tid(m.matched))
            ev['flv'].append(bool(lv))
            ev['ftags'].append(canon.answer(m)[1])
        for y in root.walk(True, **kw):
            f, lv = y if on == 'both' else (y, False)
            ev['walk'].append(prog.tid(f))
            ev['lv'].append(bool(lv))
            fp = fst_path(f)  # oracle fact from the child path: inside the first iterator of a comprehension
            ev['ci'].append(any(fp[i] == ('generators', 0) and fp[i + 1] == ('iter', None) for i in range(len(fp) - 1)))
            acc, tags = canon.answer(f.match(pat))
            ev['acc'].append(acc)
            ev['wtags'].append(tags)
    except Exception as ex:  # noqa: BLE001
        ev['exc'] = _exc_s(ex)
    return ev


def record_program(pi, src, seed, n_targets, n_search, quick=True, n_pairs=3):
    """Returns (trace dict, stats dict).  The trace's steps are self-contained observations."""
    rng = random.Random(seed * 1000003 + pi)
    prog = Program(src, seed)
    forms = list(prog.forms)
    cand = [i for i, (p, n, par) in enumerate(prog.nodes)
            if not isinstance(n, ast.expr_context) and not in_fstring(prog.nodes, i)]
    others = [prog.nodes[i][1] for i in rng.sample(cand, min(40, len(cand)))]
    chosen = rng.sample(cand, min(n_targets, len(cand)))
    if 0 not in chosen:
        chosen.append(0)
    pats = []  # (pattern object, src flag, class)
    steps = []
    plan = []  # (pattern idx, path, form, exp)
    stats = {'kinds': set(), 'leafkinds': set()}

    def add_pat(p, src_flag, cls):
        pats.append((p, src_flag, cls))
        return len(pats)

    for i in chosen:
        path, node, par = prog.nodes[i]
        ncls = type(node).__name__
        # own AST (a fresh pure parse, never the target object itself)
        own = by_path(ast.parse(src), path)
        k = add_pat(own, False, 'own:' + ncls)
        for form in forms:
            plan.append((k, path, form, 'own'))
        # one-leaf mutants
        sites = leaf_sites(by_path(ast.parse(src), path))
        for _ in range(min(2, len(sites))):
            mt = by_path(ast.parse(src), path)
            ss = leaf_sites(mt)
            lk = mutate_leaf(rng.choice(ss), rng)
            stats['leafkinds'].add(lk)
            k = add_pat(mt, False, 'mut:' + lk)
            for form in forms:
                plan.append((k, path, form, 'mut'))
        # generated structural patterns
        for _ in range(2):
            g = PatGen(rng, others)
            try:
                p = g.gen(by_path(ast.parse(src), path), rng.randrange(3))
            except Exception:  # noqa: BLE001 - pattern constructor refused (e.g. quantifier placement): not a case
                continue
            stats['kinds'] |= g.kinds
            k = add_pat(p, g.src, 'gen:' + ncls)
            for form in forms:
                plan.append((k, path, form, 'none'))
            # and against a node of another place (mostly rejects)
            j = rng.choice(cand)
            for form in rng.sample(forms, min(2, len(forms))):
                plan.append((k, prog.nodes[j][0], form, 'none'))
    # back-references on nodes that really have two structurally equal children (differently laid out in some forms)
    for i in cand:
        path, node, par = prog.nodes[i]
        fs = [f for f in node._fields if isinstance(getattr(node, f, None), ast.AST) and getattr(node, f)._fields]
        eq = [(a, b) for x, a in enumerate(fs) for b in fs[x + 1:] if ast.dump(getattr(node, a)) == ast.dump(getattr(node, b))]
        if eq:
            import fst.match as fm
            a, b = eq[0]
            k = add_pat(fm.MTYPES([type(node)], **{a: fm.M(br=...), b: fm.MTAG('br')}), False, 'backref:' + type(node).__name__)
            stats['kinds'].add('backref-hit')
            for form in forms:
                plan.append((k, path, form, 'none'))
    # anti-unified patterns of two different nodes of one class: both are accepted, with different tags; the SAME pattern
    # object is matched on both, on every form, and every one of these calls is repeated later (history)
    forced = []
    byc = {}
    for i in cand:
        n = prog.nodes[i][1]
        if sum(1 for f in n._fields if isinstance(getattr(n, f, None), (ast.AST, list))) >= 2:
            byc.setdefault(type(n).__name__, []).append(i)
    pools = [v for v in byc.values() if len(v) >= 2]
    rng.shuffle(pools)
    for pool in pools[:n_pairs]:
        ia, ib = rng.sample(pool, 2)
        (pa, na, _), (pb, nb, _) = prog.nodes[ia], prog.nodes[ib]
        if ast.dump(na) == ast.dump(nb) or in_fstring(prog.nodes, ia) or in_fstring(prog.nodes, ib):
            continue
        g = PatGen(rng, others)
        try:
            p = g.unify(by_path(ast.parse(src), pa), by_path(ast.parse(src), pb))
        except Exception:  # noqa: BLE001
            continue
        stats['kinds'] |= g.kinds
        k = add_pat(p, False, 'unify:' + type(na).__name__)
        for form in forms:
            for path in (pa, pb):
                plan.append((k, path, form, 'none'))
                forced.append((k, path, form, 'none'))
    # patterns with every combinator at top level, used for match and search
    tops = []
    topkind = {}
    for kind in TOP_KINDS:
        i = rng.choice(cand)
        path, node, par = prog.nodes[i]
        g = PatGen(rng, others)
        try:
            p = g.top(by_path(ast.parse(src), path), kind)
        except Exception:  # noqa: BLE001
            continue
        stats['kinds'] |= g.kinds
        k = add_pat(p, g.src or kind in ('str', 're', 'MRE'), 'top:' + kind)
        tops.append(k)
        topkind[k] = kind
        for form in forms:
            plan.append((k, path, form, 'none'))
    rng.shuffle(plan)
    # history: repeat a sample of the calls later, after other calls
    repeats = rng.sample(plan, max(1, len(plan) // 4)) + forced
    searches = []
    fst_forms = [f for f in forms if f != 'ast']
    for _ in range(n_search):
        k = rng.choice(tops)
        root_i = 0 if rng.random() < 0.6 else rng.choice(cand)
        nested = rng.random() < 0.6
        on = rng.choice(['enter', 'enter', 'leave', 'both']) if nested else 'enter'
        scope = on == 'enter' and rng.random() < 0.2
        searches.append((k, prog.nodes[root_i][0], rng.choice(fst_forms), nested, on, rng.random() < 0.3,
                         rng.random() < 0.8, rng.random() < 0.85, scope))
    # the pre-filter is type based: every type-shaped top-level pattern is searched once from the module root as well
    for k in tops:
        if topkind[k] in ('base', 'type', 'mtype', 'MTYPES', 'MTYPESf', 'MNOT', 'MNOT2', 'MOR3', 'MOR4', 'MAND2', 'MTAG', 'backref'):
            searches.append((k, (), rng.choice(fst_forms), True, rng.choice(['enter', 'leave']), rng.random() < 0.3, True, True, False))
    script = [('m', x) for x in plan] + [('s', x) for x in searches]
    rng.shuffle(script)
    ins = [('m', x) for x in repeats]
    for x in ins:
        script.insert(rng.randrange(len(script) // 2, len(script) + 1), x)
    for kind, x in script:
        if kind == 'm':
            k, path, form, exp = x
            p, src_flag, cls = pats[k - 1]
            acc, tags, exc = run_match(prog, p, form, path, rng.random() < 0.5)
            steps.append({'k': 'match', 'p': k, 't': prog.ids[path], 'form': form, 'src': bool(src_flag), 'exp': exp,
                          'cls': cls, 'acc': acc, 'tags': tags, 'exc': exc})
        else:
            k, path, form, nested, on, back, self_, recurse, scope = x
            p, src_flag, cls = pats[k - 1]
            ev = run_search(prog, p, form, path, nested, on, back, self_, recurse, scope)
            ev.update({'k': 'search', 'p': k, 't': prog.ids[path], 'form': form, 'nested': nested, 'on': on, 'scope': bool(scope), 'cls': cls,
                       'params': [back, self_, recurse, scope]})
            steps.append(ev)
    stats['patterns'] = len(pats)
    stats['forms'] = forms
    return {'id': pi + 1, 'prog': pi, 'par': prog.par, 'steps': steps}, stats
