"""C17, quantifier part: concretisation of the instances of spec/Quant.tla into real pfst patterns and targets,
recording of pfst's and `re`'s answers (observations only - TLC decides in spec/QuantTrace.tla).

An instance row (emitted by TLC, spec/QuantGen.tla) is {id:[i1,i2,i3,wn], rx, word, dom, acc, u, ev, obs}.  Items are decoded by
TLC too (`items` table), so this module never re-implements the numbering of the universe.
"""

from __future__ import annotations

import ast
import json
import os
import random
import re
import signal
import tempfile
import threading
from concurrent.futures import ThreadPoolExecutor

from harness import tlc

LET = {1: 'a', 2: 'b', 3: 'c'}
INF = 99


# ----------------------------------------------------------------------------------------------------------------------
# containers: how a word becomes a real list field, and how "an element equal to x" is written as a pattern

def _fm():
    import fst.match as fm
    return fm


class Cont:
    """One list field (real or virtual) of one node kind, on an FST or a pure-AST target."""

    def __init__(self, name, minlen, src, mode, field, wrap, lits, pure_ast=False, path=None, virtual=False):
        self.name = name
        self.minlen = minlen
        self.src = src  # word (list of letters) -> source
        self.mode = mode  # parse mode for FST(src, mode) or None
        self.field = field
        self.wrap = wrap  # (fm, list pattern, rng) -> whole pattern
        self.lits = lits  # (fm, letter) -> list of equivalent element patterns
        self.pure_ast = pure_ast
        self.path = path  # for pure AST: function module -> node
        self.virtual = virtual
        self._cache = {}

    def target(self, word):
        """(target object, index function) - cached per word; matching never mutates the target."""
        key = tuple(word)
        hit = self._cache.get(key)
        if hit is None:
            from fst import FST
            src = self.src([LET[x] for x in word])
            if self.pure_ast:
                node = self.path(ast.parse(src))
                elems = getattr(node, self.field)
                imap = {id(e): i for i, e in enumerate(elems)}
                hit = (node, imap, elems)
            else:
                f = FST(src, self.mode) if self.mode else FST(src)
                elems = list(getattr(f, self.field))
                imap = {id(e): i for i, e in enumerate(elems)}
                hit = (f, imap, elems)
            self._cache[key] = hit
        return hit


def _index(obj, imap):
    """index of a captured element in the list field (FSTView elements carry their own start)"""
    from fst.view import FSTView
    if isinstance(obj, FSTView):
        return obj.start
    i = imap.get(id(obj))
    if i is None:
        raise LookupError(f'captured object {obj!r} is not an element of the target list')
    return i


def containers():
    fm = _fm()

    def name_lits(fm, ch):
        return [fm.MName(ch), ast.Name(id=ch), fm.MName(id=ch, ctx=...), ch, re.compile(re.escape(ch)), fm.M(fm.MName(ch))]

    def expr_lits(fm, ch):
        return [fm.MExpr(fm.MName(ch)), ast.Expr(value=ast.Name(id=ch)), fm.MExpr(value=ast.Name(id=ch)), ch]

    def kw_lits(fm, ch):
        return [fm.Mkeyword(ch), fm.Mkeyword(arg=ch, value=...), ast.keyword(arg=ch, value=...)]

    def dict_lits(fm, ch):
        return [fm.MDict([fm.MName(ch)], ...), fm.MDict(keys=[ast.Name(id=ch)]), fm.MDict([fm.MName(ch)], [...])]

    def arg_lits(fm, ch):
        return [fm.Marguments(args=[fm.Marg(ch)]), fm.Marguments(args=[fm.Marg(arg=ch)], defaults=...),
                fm.Marguments(args=[ast.arg(arg=ch, annotation=...)])]

    def str_lits(fm, ch):
        return [ch, re.compile(re.escape(ch) + '$')]

    def alias_lits(fm, ch):
        return [fm.Malias(ch), ast.alias(name=ch, asname=...), fm.Malias(name=ch, asname=None)]

    def mas_lits(fm, ch):
        return [fm.MMatchAs(name=ch), fm.MMatchAs(pattern=None, name=ch), ast.MatchAs(pattern=..., name=ch)]

    def w(cls_name, field, positional=False):
        def wrap(fm, lst, rng):
            cls = getattr(fm, cls_name)
            if positional and rng.random() < 0.5:
                return cls(lst)
            return cls(**{field: lst})
        return wrap

    def w_ast(cls, field, **other):
        def wrap(fm, lst, rng):
            return cls(**{field: lst}, **other)
        return wrap

    C = [
        Cont('List.elts', 0, lambda s: '[' + ', '.join(s) + ']', None, 'elts', w('MList', 'elts', True), name_lits),
        Cont('List.elts/astpat', 0, lambda s: '[' + ',\n '.join(s) + ']', None, 'elts', w_ast(ast.List, 'elts', ctx=...), name_lits),
        Cont('Tuple.elts', 0, lambda s: '(' + ', '.join(s) + (',)' if len(s) == 1 else ')'), None, 'elts',
             w('MTuple', 'elts', True), name_lits),
        Cont('Set.elts', 1, lambda s: '{' + ', '.join(s) + '}', None, 'elts', w('MSet', 'elts', True), name_lits),
        Cont('Module.body', 0, lambda s: '\n'.join(s), 'exec', 'body', w('MModule', 'body'), expr_lits),
        Cont('Call.args', 0, lambda s: 'f(' + ', '.join(s) + ')', None, 'args', w('MCall', 'args'), name_lits),
        Cont('Call._args', 0, lambda s: 'f(' + ', '.join('**c' if x == 'c' else x + '=1' for x in s) + ')', None, '_args',
             w('MCall', '_args'), kw_lits, virtual=True),
        Cont('Dict._all', 0, lambda s: '{' + ', '.join('**c' if x == 'c' else x + ': 1' for x in s) + '}', None, '_all',
             w('MDict', '_all'), dict_lits, virtual=True),
        Cont('arguments._all', 0, lambda s: ', '.join(s), 'arguments', '_all', w('Marguments', '_all'), arg_lits, virtual=True),
        Cont('Compare._all', 2, lambda s: ' < '.join(s), None, '_all', w('MCompare', '_all'), name_lits, virtual=True),
        Cont('Global.names', 1, lambda s: 'global ' + ', '.join(s), None, 'names', w('MGlobal', 'names', True), str_lits),
        Cont('Delete.targets', 1, lambda s: 'del ' + ', '.join(s), None, 'targets', w('MDelete', 'targets', True), name_lits),
        Cont('Import.names', 1, lambda s: 'import ' + ', '.join(s), None, 'names', w('MImport', 'names', True), alias_lits),
        Cont('MatchSequence.patterns', 0, lambda s: '[' + ', '.join(s) + ']', 'pattern', 'patterns',
             w('MMatchSequence', 'patterns', True), mas_lits),
        # pure AST targets (no source at all)
        Cont('AST:List.elts', 0, lambda s: '[' + ', '.join(s) + ']', None, 'elts', w('MList', 'elts', True), name_lits,
             pure_ast=True, path=lambda m: m.body[0].value),
        Cont('AST:Module.body', 0, lambda s: '\n'.join(s), None, 'body', w('MModule', 'body'), expr_lits,
             pure_ast=True, path=lambda m: m),
        Cont('AST:Call.args', 0, lambda s: 'f(' + ', '.join(s) + ')', None, 'args', w('MCall', 'args'), name_lits,
             pure_ast=True, path=lambda m: m.body[0].value),
    ]
    return C


# ----------------------------------------------------------------------------------------------------------------------
# pattern construction

def has_cap(it):
    return it['k'] == 'cap' or any(has_cap(b) for b in it['body'])


def _mkq(fm, body, mn, mx, greedy, tag, rng, bare_ok, qid, statics):
    """One of the equivalent spellings of a quantifier."""
    mxv = None if mx == INF else mx
    cands = ['MQ']
    if mxv is None and mn == 0:
        cands += ['MQSTAR', 'MQSTAR']
    if mxv is None and mn == 1:
        cands += ['MQPLUS', 'MQPLUS']
    if mxv == 1 and mn == 0:
        cands += ['MQOPT', 'MQOPT']
    if mxv is None:
        cands.append('MQMIN')
    if mn == 0 and mxv is not None:
        cands.append('MQMAX')
    if mxv == mn:
        cands.append('MQN')
    name = rng.choice(cands)
    cls = getattr(fm, name)
    if not greedy:
        cls = cls.NG
    static = {f's{qid}': True} if rng.random() < 0.25 else {}
    if static:
        statics.append(qid)
    if bare_ok and not static and tag is None and name in ('MQSTAR', 'MQPLUS', 'MQOPT') and rng.random() < 0.5:
        return cls  # the class itself is a pattern: MQSTAR == MQSTAR(...)
    extra = {'MQ': {'min': mn, 'max': mxv}, 'MQMIN': {'min': mn}, 'MQMAX': {'max': mxv}, 'MQN': {'n': mn}}.get(name, {})
    if tag is None:
        return cls(body, **extra, **static)
    return cls(**extra, **{tag: body}, **static)


def build_item(fm, cont, it, qid, rng, anon, statics):
    k = it['k']
    if k == 'lit':
        return rng.choice(cont.lits(fm, LET[it['x']]))
    if k == 'any':
        return ... if rng.random() < 0.8 else fm.M(...)
    if k == 'cap':
        return rng.choice([fm.M(u=...), fm.M(u=...), fm.MOR(u=...), fm.MAND(u=...), fm.M(fm.M(u=...))])
    if k == 'back':
        return fm.MTAG('u')
    assert k == 'q'
    if it['one']:
        b = it['body'][0]
        body = build_item(fm, cont, b, qid, rng, anon, statics)
        bare_ok = b['k'] == 'any' and body is ...
    else:
        body = [build_item(fm, cont, b, qid + j + 1, rng, anon, statics) for j, b in enumerate(it['body'])]
        bare_ok = False
    tag = None if (anon or has_cap(it)) else f'q{qid}'
    return _mkq(fm, body, it['mn'], it['mx'], it['g'], tag, rng, bare_ok, qid, statics)


def build_pattern(fm, cont, pats, rng, anon, statics):
    lst = [build_item(fm, cont, it, 10 * (i + 1), rng, anon, statics) for i, it in enumerate(pats)]
    return cont.wrap(fm, lst, rng)


# ----------------------------------------------------------------------------------------------------------------------
# observation

def _span(matched, imap):
    if isinstance(matched, list):
        idx = [_index(x, imap) for x in matched]
        if not idx or idx != list(range(idx[0], idx[0] + len(idx))):
            raise LookupError(f'iteration does not cover a contiguous range: {idx}')
        return idx[0], idx[-1] + 1
    from fst.view import FSTView
    if isinstance(matched, FSTView):
        return matched.start, matched.stop
    i = _index(matched, imap)
    return i, i + 1


class CallTimeout(Exception):
    pass


class time_limit:
    """A call of pfst that does not return within `secs` is an observation (exc = CallTimeout), not a hang of the check."""

    def __init__(self, secs):
        self.secs = secs
        self.on = threading.current_thread() is threading.main_thread()

    def _raise(self, *a):
        time_limit.tripped += 1
        raise CallTimeout(f'no answer within {self.secs} s')

    tripped = 0  # per process: after a few timeouts the remaining calls are not attempted any more (bounded run time)

    def __enter__(self):
        if time_limit.tripped >= 4:
            raise CallTimeout('not attempted: calls of this run keep timing out')
        if self.on:
            self.old = signal.signal(signal.SIGALRM, self._raise)
            signal.setitimer(signal.ITIMER_REAL, self.secs)

    def __exit__(self, *a):
        if self.on:
            signal.setitimer(signal.ITIMER_REAL, 0)
            signal.signal(signal.SIGALRM, self.old)
        return False


def observe(fm, cont, pats, word, rng, anon):
    """Run the real matcher; returns the observation record for QuantTrace."""
    tgt, imap, _ = cont.target(word)
    o = {'cont': cont.name, 'anon': bool(anon), 'static': [], 'exc': '', 'acc': False, 'u': 0, 'its': []}
    try:
        pat = build_pattern(fm, cont, pats, rng, anon, o['static'])
        with time_limit(30):
            m = tgt.match(pat) if (isinstance(pat, ast.AST) or (not cont.pure_ast and rng.random() < 0.5)) else pat.match(tgt)
        if m is None:
            return o
        o['acc'] = True
        tags = m.tags
        if 'u' in tags:
            o['u'] = _index(tags['u'], imap) + 1
        its = []
        for i, it in enumerate(pats):
            qid = 10 * (i + 1)
            lst = tags.get(f'q{qid}')
            if lst is None:
                continue
            for mm in lst:
                s, e = _span(mm.matched, imap)
                if not it['one']:
                    for j, b in enumerate(it['body']):
                        inner = mm.tags.get(f'q{qid + j + 1}')
                        if inner is not None:
                            for m3 in inner:
                                s3, e3 = _span(m3.matched, imap)
                                its.append([qid + j + 1, s3, e3])
                its.append([qid, s, e])
        o['its'] = its
    except Exception as ex:  # noqa: BLE001 - an exception is an observation, judged by TLC (PfstAccept)
        o['exc'] = ascii(f'{type(ex).__name__}: {ex}')[1:-1][:200].replace('\\', '/').replace('"', "'")
        o['acc'] = False
        o['u'] = 0
        o['its'] = []
    return o


def re_answer(row):
    """Python's re on the regular expression that the *specification* wrote for the instance."""
    r = {'ok': True, 'acc': False, 'u': 0, 'spans': []}
    try:
        m = re.fullmatch(row['rx'], row['word'])
    except re.error:
        r['ok'] = False
        return r
    if m is None:
        return r
    r['acc'] = True
    for g in m.re.groupindex:
        s, e = m.span(g)
        if g == 'u':
            r['u'] = s + 1 if s >= 0 else 0
        else:
            r['spans'].append([int(g[1:]), s, e])
    return r


# ----------------------------------------------------------------------------------------------------------------------
# TLC table generation (G), in parallel JVMs

def gen_tables(jobs, nproc=16, timeout=900, heap='2g'):
    """jobs: list of {'prods': [...], 'ids': [...]}.  Returns (rows, items{i: item}, stats)."""
    d = tempfile.mkdtemp(prefix='c17gen-', dir=tlc.scratch())

    def one(k):
        pin, pout = os.path.join(d, f'in{k}.json'), os.path.join(d, f'out{k}.json')
        with open(pin, 'w') as f:
            json.dump(jobs[k], f)
        r = tlc.run_model('QuantGen', 'QuantGen', workers=1, timeout=timeout, heap=heap,
                          env={'QUANT_IN': pin, 'QUANT_OUT': pout})
        if r['violated']:
            raise tlc.TLCError('QuantGen: ' + str(r['violated']) + r['out'][-1500:])
        with open(pout) as f:
            out = json.load(f)
        os.unlink(pout)
        return out, r['wall_s']

    rows, items, asked, wall, consts = [], {}, 0, 0.0, set()
    with ThreadPoolExecutor(max_workers=nproc) as ex:
        for out, w_s in ex.map(one, range(len(jobs))):
            rows += out['rows']
            asked += out['asked']
            consts.add((out.get('nflat'), out.get('nitems'), out.get('nwords')))
            wall = max(wall, w_s)
            for e in out['items']:
                items[e['i']] = e['it']
    return rows, items, {'asked': asked, 'rows': len(rows), 'jvms': len(jobs), 'max_wall_s': wall, 'consts': sorted(consts)}


# ----------------------------------------------------------------------------------------------------------------------
# replay into pfst (multi-process) -> trace steps

_W = {}


def _init_worker(items, seed, ncont):
    _W['fm'] = _fm()
    _W['conts'] = containers()
    _W['items'] = items
    _W['seed'] = seed
    _W['ncont'] = ncont


def _steps_for(chunk):
    fm, conts, items = _W['fm'], _W['conts'], _W['items']
    out = []
    for row in chunk:
        rid = row['id']
        rng = random.Random(hash((tuple(rid), _W['seed'])))
        pats = [items[i] for i in rid[:3] if i]
        word = [LET_INV[c] for c in row['word']]
        ok = [c for c in conts if len(word) >= c.minlen]
        chosen = rng.sample(ok, min(_W['ncont'], len(ok)))
        obs = []
        for c in chosen:
            obs.append(observe(fm, c, pats, word, rng, anon=rng.random() < 0.2))
        out.append({'id': rid, 're': re_answer(row), 'obs': obs})
    return out


LET_INV = {'a': 1, 'b': 2, 'c': 3}


def replay_rows(rows, items, seed, ncont, nproc=16, chunk=400):
    import multiprocessing as mp
    items = {int(k): v for k, v in items.items()}
    chunks = [rows[i:i + chunk] for i in range(0, len(rows), chunk)]
    if nproc <= 1 or len(chunks) <= 1:
        _init_worker(items, seed, ncont)
        return [s for ch in chunks for s in _steps_for(ch)]
    ctxm = mp.get_context('fork')
    with ctxm.Pool(nproc, initializer=_init_worker, initargs=(items, seed, ncont)) as pool:
        res = pool.map(_steps_for, chunks)
    return [s for ch in res for s in ch]
