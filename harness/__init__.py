"""pfst model-based verification harness (stdlib only + pfst under test via PYTHONPATH=/repo/src)."""
