"""Edit-history driver: plans abstract container requests, executes them through pfst's entry points, and records one
event per public call with facts computed independently of pfst (CPython `ast` only).

Shared by C01, C02, C03, C04, C12 (and as a substrate by C15, C20).
"""

from __future__ import annotations

import ast
import copy as _copy
import random
import sys
import warnings

from . import grammar, snippets
from .proj import Tables, try_parse

from fst import FST  # the implementation under test (PYTHONPATH=/repo/src)

try:
    from fst import fst_core as _fst_core
except Exception:  # pragma: no cover
    _fst_core = None


def registry_empty() -> bool:
    """Auxiliary observation of the modification registry (private; degrades to True if refactored away)."""
    reg = getattr(_fst_core, '_MODIFYING', None)
    try:
        return not reg
    except Exception:
        return True


# ----------------------------------------------------------------------------------------------------------------------
# bounds

def bound(v):
    if v == 'end':
        return {'k': 'end', 'v': 0}
    if v is None:
        return {'k': 'none', 'v': 0}
    return {'k': 'int', 'v': int(v)}


# ----------------------------------------------------------------------------------------------------------------------
# recorder

class Recorder:
    def __init__(self, tables: Tables | None = None):
        self.tab = tables or Tables()
        self._roots = {}
        self._keep = []

    def root_serial(self, root) -> int:
        k = id(root)
        if k not in self._roots or self._roots[k][1] is not root:
            self._keep.append(root)
            self._roots[k] = (len(self._keep), root)
        return self._roots[k][0]

    def state(self, root, mode='exec') -> dict:
        src = root.src
        ls, lp = self.tab.node(root.a)
        t = try_parse(src, mode)
        if t is None:
            ss = sp = 0
        else:
            ss, sp = self.tab.node(t)
        return {'rootObj': self.root_serial(root), 'liveS': ls, 'liveP': lp, 'srcOk': t is not None, 'srcS': ss,
                'srcP': sp, 'text': self.tab.text(src), 'reg': registry_empty()}


# ----------------------------------------------------------------------------------------------------------------------
# targets: (node, path) of the live AST, by pure-AST walking

def walk_paths(tree):
    """Yield (node, path) with path = [(field, idx|None), ...] for every AST node under `tree` (ctx / ops included)."""
    stack = [(tree, ())]
    while stack:
        node, path = stack.pop()
        yield node, path
        for name in node._fields:
            v = getattr(node, name, None)
            if isinstance(v, ast.AST):
                if not isinstance(v, (ast.Load, ast.Store, ast.Del)):
                    stack.append((v, path + ((name, None),)))
            elif isinstance(v, list):
                for i, e in enumerate(v):
                    if isinstance(e, ast.AST):
                        stack.append((e, path + ((name, i),)))


def path_json(path):
    return [{'n': f, 'i': (1 if i is None else i + 1)} for f, i in path]


def node_at(tree, path):
    n = tree
    for f, i in path:
        n = getattr(n, f)
        if i is not None:
            n = n[i]
    return n


# ----------------------------------------------------------------------------------------------------------------------
# slot catalogue: which list-like / single fields are exercised and how a slice of them is written as source

def _in_ftstr(path):
    return any(f in ('values', 'format_spec') and False for f, _ in path)


STMT_FIELDS = {'body', 'orelse', 'finalbody'}

# (kind, field) -> element pool type for list fields
def elem_type(kind, field, node=None):
    if field == '_body':
        return 'stmt'
    if field == '_all' and kind == 'Dict':
        return 'dictelt'
    if field in ('_args', '_bases'):
        return 'arglike'
    if field == '_all' and kind == 'Compare':
        return 'cmpelt'
    if field == '_all' and kind == 'MatchMapping':
        return 'mmapelt'
    if field == '_attrs':
        return 'attrelt'
    if field == '_all' and kind == 'arguments':
        return 'argelt'
    info = grammar.field_info(kind, field)
    if info is None:
        return None
    t, q = info
    if kind == 'ImportFrom' and field == 'names':
        return 'alias_from'
    if kind == 'TryStar' and field == 'handlers':
        return 'excepthandler_star'
    if t == 'expr' and (field in ('targets', 'target', 'optional_vars') or
                        (node is not None and isinstance(getattr(node, 'ctx', None), (ast.Store, ast.Del))
                         and field in ('elts', 'value'))):
        return 'target'
    return t


POOLS = {
    'expr': snippets.EXPR, 'target': snippets.TARGET, 'stmt': snippets.STMT, 'arg': snippets.ARG,
    'keyword': snippets.KEYWORD, 'alias': snippets.ALIAS_IMPORT, 'alias_from': snippets.ALIAS_FROM,
    'withitem': snippets.WITHITEM, 'excepthandler': snippets.HANDLER, 'excepthandler_star': snippets.HANDLER_STAR,
    'match_case': snippets.MATCH_CASE, 'pattern': snippets.PATTERN, 'comprehension': snippets.COMPREHENSION,
    'type_param': snippets.TYPE_PARAM, 'identifier': snippets.IDENT, 'dictelt': snippets.DICT_ELT,
    'arglike': ['x', 'f(y)', 'p + q', '*st', 'kw=1', 'k2=a + b', '**kws', '(i, j)', 'lambda: z', 'ü', '*(a or b)'],
    'mmapelt': ['1: pa', "'k': [x, y]", 'A.b: _', '-2: None', '**rr', '3: C(q)'],
    'attrelt': ['pp', '1', 'kk=1', 'k2=[a, b]', '_', 'k3=C(x=1)', "'s'"],
    'argelt': ['na', 'nb: int', 'nc=1', 'nd: str = "s"', '*va', '**kwa', 'ü=2'],
    'cmpelt': ['x', 'f(y)', 'p + q', '-n', 'a.b', '(p < q)', '(i, j)', 'not n', 'p and q', 'c[d]'],
}

PARSE_AS = {'target': 'expr', 'excepthandler_star': 'excepthandler'}

# list fields whose slice puts are refused by design in favour of a virtual field (RealFieldEditable = FALSE)
VIRTUAL_ONLY = {('Dict', 'keys'), ('Dict', 'values'), ('arguments', 'posonlyargs'), ('arguments', 'args'),
                ('arguments', 'defaults'), ('arguments', 'kwonlyargs'), ('arguments', 'kw_defaults'),
                ('MatchMapping', 'keys'), ('MatchMapping', 'patterns'), ('Compare', 'ops'), ('Compare', 'comparators'),
                ('MatchClass', 'kwd_attrs'), ('MatchClass', 'kwd_patterns'), ('JoinedStr', 'values'),
                ('Module', 'type_ignores')}

FST_SLICE_MODE = {
    'stmt': 'exec', 'alias': '_Import_names', 'alias_from': '_ImportFrom_names', 'withitem': '_withitems',
    'excepthandler': '_ExceptHandlers', 'excepthandler_star': '_ExceptHandlers', 'match_case': '_match_cases',
    'comprehension': '_comprehensions', 'type_param': '_type_params',
}
FST_ONE_MODE = {
    'expr': 'expr', 'target': 'expr', 'stmt': 'stmt', 'arg': 'arg', 'keyword': 'keyword', 'alias': 'Import_name',
    'alias_from': 'ImportFrom_name', 'withitem': 'withitem', 'excepthandler': 'ExceptHandler',
    'excepthandler_star': 'ExceptHandler', 'match_case': 'match_case', 'pattern': 'pattern',
    'comprehension': 'comprehension', 'type_param': 'type_param',
}


def parse_elem(et, src):
    """-> list of AST values this element contributes as a tuple (dict elements are (key, value) pairs)."""
    if et == 'dictelt':
        d = ast.parse('{' + src + '}', mode='eval').body
        if not isinstance(d, ast.Dict) or len(d.keys) != 1:
            raise SyntaxError('not a single dict element')
        return (d.keys[0], d.values[0])
    if et == 'arglike':
        c = ast.parse('f(' + src + ')', mode='eval').body
        if not isinstance(c, ast.Call) or len(c.args) + len(c.keywords) != 1:
            raise SyntaxError('not a single arglike')
        return ((c.args or c.keywords)[0],)
    if et == 'cmpelt':
        return (snippets.parse_elem('expr', src),)
    if et == 'mmapelt':
        m = ast.parse('match x:\n case {' + src + '}: pass').body[0].cases[0].pattern
        if not isinstance(m, ast.MatchMapping) or len(m.keys) + (m.rest is not None) != 1:
            raise SyntaxError('not a single mapping pattern element')
        return (m.rest,) if m.rest is not None else (m.keys[0], m.patterns[0])
    if et == 'attrelt':
        m = ast.parse('match x:\n case C(' + src + '): pass').body[0].cases[0].pattern
        if not isinstance(m, ast.MatchClass) or len(m.patterns) + len(m.kwd_attrs) != 1:
            raise SyntaxError('not a single class pattern argument')
        return (m.patterns[0],) if m.patterns else (m.kwd_attrs[0], m.kwd_patterns[0])
    if et == 'argelt':
        a = ast.parse('def f(' + src + '): pass').body[0].args  # validity only; no structural law for arguments._all
        return (a,)
    return (snippets.parse_elem(PARSE_AS.get(et, et), src),)


_LOW = (ast.Tuple, ast.NamedExpr, ast.Yield, ast.YieldFrom, ast.Lambda, ast.IfExp, ast.Starred)


def needs_wrap(et, node, kind='', field='', src=''):
    """Must this element's source be parenthesised so that the *joined* slice source denotes exactly these elements?
    (Harness-side only: decided from CPython's parse of the element, never by asking pfst.)"""
    if src.lstrip().startswith(('(', '[', '{')) and src.rstrip().endswith((')', ']', '}')) and \
            isinstance(node, (ast.Tuple, ast.List, ast.Set, ast.Dict, ast.ListComp, ast.GeneratorExp, ast.SetComp,
                              ast.DictComp, ast.MatchSequence, ast.MatchMapping)):
        return False
    if et in ('expr', 'target', 'cmpelt'):
        if isinstance(node, ast.Starred):
            return False
        if kind == 'BoolOp':
            return isinstance(node, _LOW + (ast.BoolOp,))
        if field == 'ifs':
            return isinstance(node, _LOW)
        if kind == 'Compare':
            return isinstance(node, _LOW + (ast.BoolOp, ast.Compare, ast.UnaryOp)) and not (
                isinstance(node, ast.UnaryOp) and not isinstance(node.op, ast.Not))
        return isinstance(node, (ast.Tuple, ast.NamedExpr, ast.Yield, ast.YieldFrom))
    if et == 'withitem':  # `with yield y: pass` / `with w := 1: pass` are not valid as written, `with (yield y): pass` is
        return isinstance(getattr(node, 'context_expr', None), (ast.Yield, ast.YieldFrom, ast.NamedExpr)) and \
            getattr(node, 'optional_vars', None) is None and not src.lstrip().startswith('(')
    if et == 'pattern' and kind == 'MatchOr':
        return isinstance(node, (ast.MatchOr, ast.MatchAs)) and not (isinstance(node, ast.MatchAs) and node.pattern is None)
    if et == 'pattern':
        return isinstance(node, ast.MatchAs) and node.pattern is not None and False
    return False


def join_slice_src(kind, field, et, node, srcs):
    if et in ('stmt', 'excepthandler', 'excepthandler_star', 'match_case'):
        return '\n'.join(srcs)
    if field == 'decorator_list':
        return '\n'.join('@' + s for s in srcs)
    if kind == 'Assign' and field == 'targets':
        return ''.join(s + ' = ' for s in srcs).rstrip()
    if kind == 'BoolOp':
        return (' and ' if isinstance(node.op, ast.And) else ' or ').join(srcs)
    if field == 'ifs':
        return ' '.join('if ' + s for s in srcs)
    if field == 'generators':
        return ' '.join(srcs)
    if kind == 'MatchOr':
        return ' | '.join(srcs)
    if kind == 'Compare':
        return ' != '.join(srcs)
    return ', '.join(srcs)


# ----------------------------------------------------------------------------------------------------------------------
# options

OPTION_POOL = [
    {}, {}, {}, {'trivia': False}, {'trivia': 'all'}, {'trivia': ('block', 'line')}, {'trivia': ('all+1', 'block-1')},
    {'pep8space': False}, {'pep8space': 1}, {'elif_': False}, {'docstr': False}, {'docstr': 'strict'},
    {'pars': True}, {'norm': True}, {'op_side': 'right'}, {'pars_walrus': True}, {'pars_arglike': False},
    {'trivia': (False, 'all')}, {'trivia': ('block', False)}, {'norm': True, 'trivia': 'all'},
]


def opts_json(opts):
    return {'pars': str(opts.get('pars', 'auto')), 'norm': str(opts.get('norm', False)), 'op': str(opts.get('op', '')),
            'raw': str(opts.get('raw', False)), 'trivia': repr(opts.get('trivia', True)),
            'all': repr(sorted(opts.items(), key=lambda kv: kv[0]))}


# ----------------------------------------------------------------------------------------------------------------------
# planning

class Plan:
    __slots__ = ('path', 'kind', 'field', 'vfield', 'form', 'start', 'stop', 'idx', 'et', 'srcs', 'codeform', 'op',
                 'opts', 'quant', 'lo', 'length', 'desc', 'corrupt', 'view', 'delim')

    def describe(self):
        return {k: getattr(self, k, None) for k in ('path', 'kind', 'field', 'form', 'start', 'stop', 'idx', 'et',
                                                     'srcs', 'codeform', 'op', 'opts', 'corrupt', 'view')}


def has_docstr(node):
    b = getattr(node, 'body', None)
    return (isinstance(node, (ast.Module, ast.FunctionDef, ast.AsyncFunctionDef, ast.ClassDef)) and b
            and isinstance(b[0], ast.Expr) and isinstance(b[0].value, ast.Constant) and isinstance(b[0].value.value, str))


def candidates(tree):
    """All (node, path, field, form-class) the driver may target in this live tree."""
    out = []
    for node, path in walk_paths(tree):
        kind = node.__class__.__name__
        if kind in ('JoinedStr', 'FormattedValue', 'TemplateStr', 'Interpolation'):
            continue
        if any(f in ('format_spec',) for f, _ in path):
            continue
        # f-string internals are outside every generator (DESIGN 2.6)
        skip = False
        n = tree
        for f, i in path:
            if n.__class__.__name__ in ('JoinedStr', 'FormattedValue'):
                skip = True
                break
            n = getattr(n, f)
            if i is not None:
                n = n[i]
        if skip:
            continue
        for fname, ftype, q in grammar.FIELDS.get(kind, ()):
            if ftype in grammar.OP_TYPES or ftype in ('expr_context', 'constant', 'string', 'int', 'arguments'):
                continue
            if ftype == 'identifier' and q != '*':
                continue
            if fname == 'type_ignores':
                continue
            if q == '*':
                if (kind, fname) in VIRTUAL_ONLY:
                    continue
                out.append((node, path, fname, 'list'))
                if fname == 'body' and kind in ('Module', 'FunctionDef', 'AsyncFunctionDef', 'ClassDef'):
                    out.append((node, path, '_body', 'list'))
            else:
                if kind in ('Dict', 'Compare', 'arguments', 'MatchMapping', 'MatchClass', 'comprehension') and \
                        fname in ('left', 'vararg', 'kwarg', 'rest'):
                    pass
                out.append((node, path, fname, 'single' + q))
        if kind == 'Dict':
            out.append((node, path, '_all', 'list'))
        elif kind == 'Call':
            out.append((node, path, '_args', 'list'))
        elif kind == 'ClassDef':
            out.append((node, path, '_bases', 'list'))
        elif kind == 'Compare':
            out.append((node, path, '_all', 'list'))
            out.append((node, path, '_all', 'list'))
        elif kind == 'MatchMapping':
            out.append((node, path, '_all', 'list'))
            out.append((node, path, '_all', 'list'))
        elif kind == 'MatchClass':
            out.append((node, path, '_attrs', 'list'))
            out.append((node, path, '_attrs', 'list'))
        elif kind == 'arguments':
            out.append((node, path, '_all', 'list'))
    return out


def rand_bound(rng, n):
    r = rng.random()
    if r < 0.12:
        return 'end'
    if r < 0.80:
        return rng.randint(0, n)
    if r < 0.92:
        return rng.randint(-n - 2, -1)
    return rng.randint(n + 1, n + 3)


_ELEM_KIND = {}


def _elem_kind(et, src):
    """Class name of the node a snippet denotes as an element of type `et` (by CPython's parse), '' if it has none."""
    k = (et, src)
    if k not in _ELEM_KIND:
        try:
            _ELEM_KIND[k] = parse_elem(et, src)[0].__class__.__name__
        except (SyntaxError, ValueError):
            _ELEM_KIND[k] = ''
    return _ELEM_KIND[k]


def plan_edit(rng: random.Random, tree, weights=None) -> Plan | None:
    cands = candidates(tree)
    if not cands:
        return None
    node, path, field, fclass = rng.choice(cands)
    kind = node.__class__.__name__
    p = Plan()
    p.path, p.kind, p.field = path, kind, field
    p.opts = dict(rng.choice(OPTION_POOL))
    p.et = elem_type(kind, field, node)
    if p.et not in POOLS:
        return None
    pool = POOLS[p.et]
    p.quant = fclass
    p.start = p.stop = p.idx = None
    if fclass == 'list':
        if field == '_body':
            p.lo = 1 if has_docstr(node) else 0
            n = len(node.body) - p.lo
        elif field == '_all' and kind == 'Compare':
            p.lo = 0
            n = 1 + len(node.comparators)
        elif field == '_all' and kind == 'MatchMapping':
            p.lo = 0
            n = len(node.keys) + (node.rest is not None)
        elif field == '_attrs':
            p.lo = 0
            n = len(node.patterns) + len(node.kwd_attrs)
        elif field == '_all' and kind == 'arguments':
            p.lo = 0
            n = (len(node.posonlyargs) + len(node.args) + (node.vararg is not None) + len(node.kwonlyargs)
                 + (node.kwarg is not None))
        elif field == '_all':
            p.lo = 0
            n = len(node.keys)
        elif field in ('_args', '_bases'):
            p.lo = 0
            n = len(node.args if kind == 'Call' else node.bases) + len(node.keywords)
        else:
            p.lo = 0
            n = len(getattr(node, field))
        p.length = n
        r = rng.random()
        if r < 0.55:
            p.form = 'slice'
            p.start, p.stop = rand_bound(rng, n), rand_bound(rng, n)
            if rng.random() < 0.7 and isinstance(p.start, int) and isinstance(p.stop, int):  # bias to well-ordered
                a, b = sorted((p.start if p.start >= 0 else max(0, p.start + n), p.stop if p.stop >= 0 else max(0, p.stop + n)))
                if rng.random() < 0.5:
                    p.start, p.stop = a, b
            k = rng.choice((0, 0, 1, 1, 1, 2, 2, 3))
            if rng.random() < 0.25:  # pure insertion at any (also negative / out-of-range) position
                p.stop = p.start = rand_bound(rng, n)
                k = rng.choice((1, 1, 2))
            p.srcs = [rng.choice(pool) for _ in range(k)]
            # an element of the container's own sequence type would be spliced, not nested (d06 "put as one"): the
            # abstract request is only unambiguous for elements of other kinds
            if kind in ('BoolOp', 'MatchOr', 'Compare'):
                p.srcs = [s for s in p.srcs if _elem_kind(p.et, s) != kind]
        elif r < 0.8:
            p.form = 'one'
            p.idx = rng.randint(-n - 1, n) if rng.random() < 0.3 else (rng.randrange(n) if n else 0)
            p.srcs = [rng.choice(pool)]
        else:
            p.form = 'del'
            p.idx = rng.randint(-n - 1, n) if rng.random() < 0.3 else (rng.randrange(n) if n else 0)
            p.srcs = []
    else:
        p.lo = 0
        p.length = 1
        p.form = 'opt'
        if rng.random() < 0.3:
            p.srcs = []  # delete
        else:
            p.srcs = [rng.choice(pool)]
    p.view = None
    if fclass == 'list' and p.et not in ('cmpelt', 'argelt') and rng.random() < 0.22:
        # the same kind of request made through a sub-view `field[vlo:vhi]`: indices are then relative to the view
        n = p.length
        vlo = rng.choice((None, 0, rng.randint(0, n), rng.randint(0, n), rng.randint(-n - 1, -1) if n else 0))
        vhi = rng.choice((None, n, rng.randint(0, n), rng.randint(0, n + 1), rng.randint(-n, -1) if n else None))
        r = range(n)[vlo:vhi]
        if r.stop >= r.start:  # (an inverted view bound is refused by pfst like an inverted slice; not exercised here)
            m = r.stop - r.start
            p.view = (vlo, vhi)
            if p.form == 'slice':
                p.start, p.stop = rand_bound(rng, m), rand_bound(rng, m)
                if rng.random() < 0.6 and isinstance(p.start, int) and isinstance(p.stop, int):
                    a, b = sorted((p.start if p.start >= 0 else max(0, p.start + m), p.stop if p.stop >= 0 else max(0, p.stop + m)))
                    p.start, p.stop = a, b
                if p.srcs and rng.random() < 0.35:
                    p.stop = p.start = rand_bound(rng, m)
            else:
                p.idx = rng.randint(-m - 1, m) if rng.random() < 0.3 else (rng.randrange(m) if m else 0)
    p.codeform = rng.choice(('src', 'src', 'ast', 'fst'))
    if p.et in ('arglike', 'cmpelt', 'mmapelt', 'attrelt', 'argelt'):
        p.codeform = 'src'
    if p.et == 'cmpelt' and p.form == 'slice' and p.srcs:
        # an insertion needs an extra operator (d06 "an extra operator MUST be added"): give one via the `op` option
        if rng.random() < 0.8:
            p.opts = dict(p.opts, op=rng.choice(('==', '<', 'is not', 'in', '>=')))
    p.op = None
    p.corrupt = None
    return p


def list_len(node, kind, field):
    """(lo, n) of a (virtual) list field as plan_edit computes them."""
    if field == '_body':
        lo = 1 if has_docstr(node) else 0
        return lo, len(node.body) - lo
    if field == '_all' and kind == 'Compare':
        return 0, 1 + len(node.comparators)
    if field == '_all' and kind == 'MatchMapping':
        return 0, len(node.keys) + (node.rest is not None)
    if field == '_attrs':
        return 0, len(node.patterns) + len(node.kwd_attrs)
    if field == '_all' and kind == 'arguments':
        return 0, (len(node.posonlyargs) + len(node.args) + (node.vararg is not None) + len(node.kwonlyargs)
                   + (node.kwarg is not None))
    if field == '_all':
        return 0, len(node.keys)
    if field in ('_args', '_bases'):
        return 0, len(node.args if kind == 'Call' else node.bases) + len(node.keywords)
    return 0, len(getattr(node, field))


def plan_field_sweep(tree, rng: random.Random, per_class=2):
    """Systematic deletion requests over one program (each meant to be run on a fresh tree): for every node x field
    (real and virtual) the deletion of the single-valued field, the deletion of the TAIL of the list field (the last one,
    the last two, all elements), and of its first / last element - at most `per_class` nodes per (kind, field, shape).
    Many are refused (required fields, minimum lengths): those exercise atomicity (C12); the accepted ones exercise the
    end-of-block / end-of-sequence position fix-ups (C01) and the container laws (C03)."""
    seen = {}
    out = []
    cands = candidates(tree)
    rng.shuffle(cands)
    for node, path, field, fclass in cands:
        kind = node.__class__.__name__
        et = elem_type(kind, field, node)
        if et not in POOLS:
            continue
        shapes = []
        if fclass == 'list':
            lo, n = list_len(node, kind, field)
            if n <= 0:
                continue
            for k in sorted({n - 1, max(0, n - 2), 0}):
                shapes.append(('tail%d' % (n - k if n - k < 3 else 9), 'slice', k, 'end', None))
            shapes.append(('dellast', 'del', None, None, n - 1))
            shapes.append(('delfirst', 'del', None, None, 0))
        else:
            lo, n = 0, 1
            shapes.append(('opt', 'opt', None, None, None))
        for name, form, start, stop, idx in shapes:
            key = (kind, field, name)
            if seen.get(key, 0) >= per_class:
                continue
            seen[key] = seen.get(key, 0) + 1
            p = Plan()
            p.path, p.kind, p.field, p.et, p.quant = path, kind, field, et, fclass
            p.opts = dict(rng.choice(OPTION_POOL))
            p.lo, p.length, p.form = lo, n, form
            p.start, p.stop, p.idx = start, stop, idx
            p.srcs = []
            p.view = None
            p.codeform = 'src'
            p.op = None
            p.corrupt = None
            out.append(p)
    return out


# ----------------------------------------------------------------------------------------------------------------------
# invalid requests (C12): each makes a request that must raise and leave the tree untouched

GARBAGE = ['x +', '(', ')', 'a b', '1 2', 'if:', 'import', 'def', '[', 'lambda', 'x = = 1', '@', ':', 'a,,b', '*', '**',
           'for', '"unterminated', 'a if', 'f(', '{a:}', '\\', 'case', 'except', '\x00', 'x y z', '1 +\n2']
BAD_OPTS = [{'trivia': 'bogus'}, {'nosuchoption': 1}, {'pars': 'x'}, {'pep8space': 7}, {'norm': 'bad'},
            {'trivia': ('line', False)}, {'elif_': 2}, {'op_side': 'middle'}, {'docstr': 'maybe'}, {'raw': 'sometimes'},
            {'trivia': (1, 2, 3)}, {'set_norm': 'x'}, {'args_as': 'nonsense'}, {'coerce': False}]
WRONG_POOL = {'expr': ('stmt', 'pattern', 'keyword', 'comprehension'), 'target': ('stmt', 'comprehension'),
              'stmt': ('keyword', 'comprehension', 'withitem', 'match_case', 'excepthandler'),
              'arg': ('stmt', 'keyword', 'expr'), 'keyword': ('stmt', 'comprehension', 'expr', 'expr'), 'alias': ('stmt', 'keyword', 'expr'),
              'arglike': ('stmt', 'comprehension', 'withitem'), 'cmpelt': ('stmt', 'keyword'), 'mmapelt': ('stmt', 'keyword', 'expr'),
              'attrelt': ('stmt', 'comprehension'), 'argelt': ('stmt', 'comprehension'),
              'alias_from': ('stmt', 'keyword'), 'withitem': ('stmt', 'keyword'), 'excepthandler': ('match_case', 'expr'),
              'excepthandler_star': ('match_case', 'expr'), 'match_case': ('excepthandler', 'expr'),
              'pattern': ('stmt', 'comprehension', 'keyword'), 'comprehension': ('stmt', 'keyword'),
              'type_param': ('stmt', 'keyword'), 'identifier': ('stmt',), 'dictelt': ('stmt', 'comprehension')}
CORRUPTIONS = ('badsrc', 'badsrc', 'wrongcat', 'wrongcat', 'badopt', 'badopt', 'badopt', 'consumed', 'nonroot',
               'ownroot', 'ownchild', 'one_false', 'badidx', 'inverted', 'below_min')
# out-of-range *values* of options that matter for the slot being edited are the interesting ones: a value that passes a
# lax early check is only rejected deep inside the handler
BAD_OPTS_STMT = [{'pep8space': 2}, {'pep8space': 3}, {'pep8space': -1}, {'pep8space': 7}, {'elif_': 2}, {'docstr': 'maybe'},
                 {'trivia': 'bogus'}, {'trivia': ('all', 'line', 1)}, {'trivia': 'block+x'}, {'trivia': 2.5}]
BAD_OPTS_EXPR = [{'pars': 'x'}, {'pars': 2}, {'op_side': 'middle'}, {'norm': 'bad'}, {'pars_walrus': 'x'},
                 {'pars_arglike': 3}, {'set_norm': 'x'}, {'norm_self': 'y'}, {'args_as': 'nonsense'}, {'op': '=>'}]


def corrupt_plan(rng: random.Random, p: Plan):
    """Turn a planned request into one that pfst must refuse (or, for 'wrongcat' with coercion on, may coerce)."""
    c = rng.choice(CORRUPTIONS)
    n = p.length
    if c == 'badsrc':
        if p.form == 'del' or not p.srcs:
            p.form, p.idx = ('one', p.idx) if p.form == 'del' else (p.form, p.idx)
        p.srcs = [rng.choice(GARBAGE)]
        p.codeform = 'src'
    elif c == 'wrongcat':
        pools = WRONG_POOL.get(p.et)
        if not pools or p.form == 'del':
            return corrupt_plan(rng, p)
        p.srcs = [rng.choice(POOLS[rng.choice(pools)])]
        p.codeform = rng.choice(('src', 'fst'))
        if rng.random() < 0.4:
            p.opts = dict(p.opts, coerce=False)
    elif c == 'badopt':
        r = rng.random()
        if r < 0.45:
            p.opts = dict(rng.choice(BAD_OPTS_STMT if p.et in ('stmt', 'excepthandler', 'excepthandler_star', 'match_case') else BAD_OPTS_EXPR))
        elif r < 0.6:
            p.opts = dict(rng.choice(BAD_OPTS_STMT + BAD_OPTS_EXPR))
        else:
            p.opts = dict(rng.choice(BAD_OPTS))
    elif c in ('consumed', 'nonroot', 'ownroot', 'ownchild'):
        if p.form == 'del' or not p.srcs:
            return corrupt_plan(rng, p)
        p.codeform = 'fst'
    elif c == 'one_false':
        if p.form not in ('one', 'opt') or not p.srcs:
            return corrupt_plan(rng, p)
    elif c == 'badidx':
        if p.form not in ('one', 'del'):
            return corrupt_plan(rng, p)
        p.idx = rng.choice((n, n + 1, -n - 1, -n - 2, 99, -99))
    elif c == 'inverted':
        if p.form != 'slice' or n < 1:
            return corrupt_plan(rng, p)
        a = rng.randint(1, n)
        p.start, p.stop = a, rng.randint(0, a - 1)
    elif c == 'below_min':
        if p.form != 'slice':
            return corrupt_plan(rng, p)
        p.start, p.stop, p.srcs = 0, 'end', []
        p.opts = dict(p.opts, norm=True)
    p.corrupt = c
    return p


def _arg_triple(a: ast.arguments, tab):
    """[sid(arg), sid(default) or 0, 0 plain | 1 *vararg | 2 **kwarg] of a one-parameter `arguments`, else None."""
    n = len(a.posonlyargs) + len(a.args) + len(a.kwonlyargs) + (a.vararg is not None) + (a.kwarg is not None)
    if n != 1:
        return None
    if a.vararg is not None:
        return [tab.sid(a.vararg), 0, 1]
    if a.kwarg is not None:
        return [tab.sid(a.kwarg), 0, 2]
    if a.kwonlyargs:
        d = a.kw_defaults[0]
        return [tab.sid(a.kwonlyargs[0]), tab.sid(d) if d is not None else 0, 0]
    arg = (a.posonlyargs + a.args)[0]
    return [tab.sid(arg), tab.sid(a.defaults[0]) if a.defaults else 0, 0]


# ----------------------------------------------------------------------------------------------------------------------
# oracle: the same request carried out on a pure AST with Python's own list operations

class Oracle:
    __slots__ = ('law', 'newS', 'expValid', 'expS', 'elems', 'note', 'expCompiles')


def oracle(plan: Plan, pre_src: str, tab: Tables, mode='exec') -> Oracle:
    o = Oracle()
    o.law, o.newS, o.expValid, o.expS, o.elems, o.note, o.expCompiles = False, [], False, 0, None, '', False
    try:
        elems = [parse_elem(plan.et, s) for s in plan.srcs]
    except (SyntaxError, ValueError) as e:
        o.note = 'unparsable element: ' + str(e)
        return o
    o.elems = elems
    o.newS = [[tab.sid(x) for x in el] for el in elems]
    if plan.form == 'opt' and not elems:
        o.newS = [[0]]
    o.law = True
    o.expValid = True
    if plan.et == 'argelt':
        # arguments._all: the *category* a new parameter lands in depends on the markers around the slot (d06 "arguments
        # slices") and is not judged; the sequence of parameters (arg node, its default, star kind) is: NodeTab!VFieldSeq
        # gives the same triples for the tree, so SliceLaw / NothingElse apply. Refusals are always allowed (validity of
        # the spliced list - default ordering, lambda annotations - is not decided here), see documented_refusal.
        o.expCompiles = True
        trip = [_arg_triple(el[0], tab) for el in elems]
        if any(t is None for t in trip):
            o.law = False
            o.newS = []
        else:
            o.newS = trip
        return o
    if plan.et in ('arglike', 'cmpelt', 'mmapelt', 'attrelt'):
        # the merged order / the operator choice is not determined by a pure AST: SliceLaw + NothingElse judge the field,
        # the spec (ArglikeOrderOk / OpsLaw) judges ordering and operators; no whole-tree expectation
        o.expCompiles = True
        return o
    tree = ast.parse(pre_src, mode=mode)
    node = node_at(tree, plan.path)
    f = plan.field
    try:
        if plan.form in ('slice', 'one', 'del'):
            if f == '_all':
                lists = [node.keys, node.values]
            elif f == '_body':
                lists = [node.body]
            else:
                lists = [getattr(node, f)]
            for li, lst in enumerate(lists):
                sub = lst[plan.lo:]
                new = [_copy.deepcopy(el[li]) for el in elems]
                if plan.view is not None:  # Python's own semantics of a sub-list edited in place
                    r = range(len(sub))[plan.view[0]:plan.view[1]]
                    va, vb = r.start, max(r.start, r.stop)
                    tgt = sub[va:vb]
                else:
                    tgt = sub
                n = len(tgt)
                if plan.form == 'slice':
                    s = n if plan.start == 'end' else plan.start
                    t = n if plan.stop == 'end' else plan.stop
                    tgt[s:t] = new
                elif plan.form == 'one':
                    tgt[plan.idx] = new[0]
                else:
                    del tgt[plan.idx]
                if plan.view is not None:
                    sub[va:vb] = tgt
                lst[plan.lo:] = sub
        else:
            setattr(node, f, _copy.deepcopy(elems[0][0]) if elems else None)
            # grammar-forced companions (spec: EditLaws!Dependent)
            if not elems and plan.kind == 'Raise' and f == 'exc':
                node.cause = None
            if not elems and plan.kind == 'ExceptHandler' and f == 'type':
                node.name = None
            if plan.kind == 'AnnAssign' and f == 'target':
                node.simple = int(isinstance(node.target, ast.Name))
    except IndexError:
        o.note = 'IndexError in oracle'
        return o  # ill-formed index: validity of the result is not the question (spec: ~WellFormed)
    try:
        ast.fix_missing_locations(tree)
        src2 = ast.unparse(tree)
        t2 = ast.parse(src2, mode=mode)
    except Exception as e:  # noqa: BLE001  (unparse raises assorted errors on ungrammatical trees)
        o.expValid = False
        o.note = f'result invalid: {type(e).__name__}: {e}'
        return o
    s1, s2 = tab.sid(tree), tab.sid(t2)
    if s1 != s2:
        o.expValid = False  # the requested tree is not what its own source denotes -> not a valid request
        o.note = 'result does not round-trip through unparse/parse'
        return o
    o.expS = s2
    o.expCompiles = compiles(src2, mode) and compiles(pre_src, mode)  # lenient when the program already fails
    return o


def compiles(src, mode='exec'):
    """Does CPython's compiler accept it (symbol-table and starred/await/yield placement checks included)?"""
    try:
        with warnings.catch_warnings():
            warnings.simplefilter('ignore')
            compile(src, '<verif>', mode, dont_inherit=True)
        return True
    except (SyntaxError, ValueError):
        return False


# ----------------------------------------------------------------------------------------------------------------------
# execution through pfst entry points

def _py(b):
    return None if b == 'end' else b


def _pys(b, n):
    return n if b == 'end' else b


# only the key: value containers splice a delimited source of their own kind (a `[a, b]` put to List.elts is ONE element)
_OWN_DELIMS = {('Dict', '_all'): '{}', ('MatchMapping', '_all'): '{}'}


def build_code(plan: Plan, node, o: Oracle, rng):
    """The code argument in the planned form. Returns (code, one) where one is the `one` argument for slice puts, or
    raises _Skip when the form does not exist for this slot."""
    cf = plan.codeform
    et = plan.et
    srcs = list(plan.srcs)
    if plan.corrupt in ('consumed', 'nonroot', 'ownroot', 'ownchild'):
        return _bad_fst(plan, node, rng), plan.form != 'slice'
    if plan.form == 'slice':
        if not srcs:
            return None, False
        if o.elems is not None:
            srcs = ['(' + s + ')' if needs_wrap(et, el[0], plan.kind, plan.field, s) else s
                    for s, el in zip(srcs, o.elems)]
        joined = join_slice_src(plan.kind, plan.field, et, node, srcs)
        if et in ('expr', 'target') and len(srcs) == 1 and plan.kind not in ('BoolOp',) and \
                plan.field not in ('decorator_list', 'ifs') and not (plan.kind == 'Assign' and plan.field == 'targets'):
            joined += ','  # a single undelimited element of a comma sequence
        if cf == 'src' or o.elems is None:
            # the same elements written as a DELIMITED sequence of the container's own kind (documented: spliced, not
            # nested): the result must not depend on that layout of the new code
            delim = _OWN_DELIMS.get((plan.kind, plan.field))
            want = getattr(plan, 'delim', None)
            if delim and o.elems is not None and plan.corrupt is None and (rng.random() < 0.35 if want is None else want):
                return delim[0] + joined + delim[1], False
            return joined, False
        if cf == 'ast':
            if et in ('expr', 'target') and plan.kind in ('Tuple', 'List', 'Set', 'Delete', 'Call', 'ClassDef', 'Assign'):
                if plan.field in ('decorator_list',) or (plan.kind == 'Assign'):
                    return joined, False
                return ast.Tuple(elts=[_copy.deepcopy(el[0]) for el in o.elems], ctx=ast.Load()), False
            if et == 'stmt':
                return ast.Module(body=[_copy.deepcopy(el[0]) for el in o.elems], type_ignores=[]), False
            return joined, False
        # fst
        if et in ('expr', 'target') and plan.kind in ('Tuple', 'List', 'Set', 'Delete', 'Call') and plan.field != 'keywords':
            return FST(joined, 'Tuple'), False
        m = FST_SLICE_MODE.get(et)
        if m is None or (plan.kind == 'Dict'):
            return joined, False
        return FST(joined, m), False
    # one / opt
    if not srcs:
        return None, True
    s = _one_src(plan, o, srcs[0])
    if cf == 'src' or o.elems is None or et in ('identifier', 'dictelt'):
        return s, True
    if cf == 'ast':
        return _copy.deepcopy(o.elems[0][0]), True
    m = FST_ONE_MODE.get(et)
    if m is None:
        return s, True
    return FST(s, m), True


def _bad_fst(plan, node, rng):
    """An FST that may not be used as code: consumed, not a root, the target's own root, a node of the target tree."""
    c = plan.corrupt
    src = plan.srcs[0] if plan.srcs else 'x'
    if c == 'consumed':
        try:
            donor = FST(src, FST_ONE_MODE.get(plan.et, 'exec'))
        except Exception:  # noqa: BLE001
            donor = FST('x', 'expr')
        try:
            FST('[a]', 'exec').body[0].value.elts[0].replace(donor)  # consume it in a scratch tree
        except Exception:  # noqa: BLE001
            try:
                FST('a', 'exec').put_slice(donor, 0, 0)
            except Exception:  # noqa: BLE001
                pass
        return donor
    if c == 'nonroot':
        other = FST('[qq + 1, f(rr)]\nss = 2', 'exec')
        return other.body[0].value.elts[0] if plan.et in ('expr', 'target') else other.body[1]
    if c == 'ownroot':
        return node.f.root
    kids = [k for k in ast.iter_child_nodes(node) if hasattr(k, 'f') and not isinstance(k, (ast.expr_context,))]
    return (rng.choice(kids).f if kids else node.f)


ENTRY_SLICE = ('put_slice', 'put', 'view_set', 'attr')
ENTRY_ONE = ('put', 'view_set', 'replace')
ENTRY_DEL = ('remove', 'view_del', 'cut', 'replace_none', 'put_none')
ENTRY_OPT = ('put', 'attr', 'replace')


def choose_entry_view(plan: Plan, rng):
    k = len(plan.srcs)
    if plan.form == 'slice':
        ents = ['sv_set']
        if k == 0:
            ents += ['sv_del']
            if plan.start == 0 and plan.stop == 'end':
                ents += ['sv_remove', 'sv_cut', 'sv_remove']
        if plan.start == 0 and plan.stop == 'end' and k:
            ents += ['sv_replace', 'sv_replace']
        if plan.start == plan.stop and k >= 1:
            ents += ['sv_insert', 'sv_insert', 'sv_insert']
            if plan.start == 'end':
                ents += ['sv_extend', 'sv_extend']
            if plan.start == 0:
                ents += ['sv_prextend', 'sv_prextend']
            if k == 1:
                ents += ['sv_insert_one']
                if plan.start == 'end':
                    ents += ['sv_append', 'sv_append']
                if plan.start == 0:
                    ents += ['sv_prepend', 'sv_prepend']
        return rng.choice(ents)
    if plan.form == 'one':
        return 'sv_set1'
    return 'sv_del1'


def choose_entry(plan: Plan, node, rng):
    n = plan.length
    if plan.view is not None:
        return choose_entry_view(plan, rng)
    if plan.form == 'slice':
        ents = ['put_slice', 'put', 'view_set']
        k = len(plan.srcs)
        if plan.start in (0,) and plan.stop == 'end':
            ents += ['attr_set', 'attr_set']
            if k == 0:
                ents += ['attr_del']
        if k == 0:
            ents += ['view_del', 'cut_slice']
        if plan.start == plan.stop and k >= 1:
            ents += ['insert', 'insert']
            if plan.start == 'end':
                ents += ['extend', 'extend']
            if plan.start == 0:
                ents += ['prextend', 'prextend']
            if k == 1:
                if plan.start == 'end':
                    ents += ['append', 'append']
                if plan.start == 0:
                    ents += ['prepend', 'prepend']
                ents += ['insert_one']
        return rng.choice(ents)
    valid_idx = plan.idx is not None and -n <= plan.idx < n and plan.et not in ('identifier', 'arglike', 'mmapelt', 'attrelt', 'argelt')
    if plan.corrupt == 'one_false':
        return 'put'
    if plan.form == 'one':
        ents = ['put', 'view_set']
        if valid_idx:
            ents.append('replace')
        return rng.choice(ents)
    if plan.form == 'del':
        ents = ['view_del', 'put_none']
        if valid_idx:
            ents += ['remove', 'cut', 'replace_none']
        return rng.choice(ents)
    ents = ['put', 'attr_set']
    child = getattr(node, plan.field, None)
    if isinstance(child, ast.AST):
        ents.append('replace' if plan.srcs else 'remove')
    if not plan.srcs:
        ents.append('attr_del')
    return rng.choice(ents)


def execute(plan: Plan, root, o: Oracle, rng):
    """Run the planned request through the chosen entry point. Returns None (ok) or the exception."""
    node = node_at(root.a, plan.path)
    f = node.f
    plan.op = op = choose_entry(plan, node, rng)
    code, _ = build_code(plan, node, o, rng)
    opts = plan.opts
    fld = plan.field
    lo = plan.lo
    try:
        if plan.view is not None:
            with FST.options(**opts):
                sub = getattr(f, fld)[plan.view[0]:plan.view[1]]
                s, t, i = plan.start, plan.stop, plan.idx
                if op == 'sv_set':
                    sub[_pys(s, 1 << 30):_py(t)] = code
                elif op == 'sv_del':
                    del sub[_pys(s, 1 << 30):_py(t)]
                elif op == 'sv_remove':
                    sub.remove()
                elif op == 'sv_cut':
                    sub.cut()
                elif op == 'sv_replace':
                    sub.replace(code, one=False)
                elif op == 'sv_insert':
                    sub.insert(code, s, one=False)
                elif op == 'sv_insert_one':
                    sub.insert(build_one(plan, o), s)
                elif op == 'sv_extend':
                    sub.extend(code)
                elif op == 'sv_prextend':
                    sub.prextend(code)
                elif op == 'sv_append':
                    sub.append(build_one(plan, o))
                elif op == 'sv_prepend':
                    sub.prepend(build_one(plan, o))
                elif op == 'sv_set1':
                    sub[i] = code
                elif op == 'sv_del1':
                    del sub[i]
                else:
                    raise AssertionError(op)
        elif plan.form == 'slice':
            s, t = plan.start, plan.stop
            if op == 'put_slice':
                f.put_slice(code, s, t, fld, **opts)
            elif op == 'put':
                f.put(code, s, t, fld, one=False, **opts)
            elif op == 'view_set':
                with FST.options(**opts):
                    getattr(f, fld)[_pys(s, plan.length):_py(t)] = code
            elif op == 'view_del':
                with FST.options(**opts):
                    del getattr(f, fld)[_pys(s, plan.length):_py(t)]
            elif op == 'attr_set':
                with FST.options(**opts):
                    setattr(f, fld, code)
            elif op == 'attr_del':
                with FST.options(**opts):
                    delattr(f, fld)
            elif op == 'cut_slice':
                f.get_slice(s, t, fld, cut=True, **opts)
            elif op == 'insert':
                f.insert(code, s, fld, one=False, **opts)
            elif op == 'insert_one':
                f.insert(build_one(plan, o), s, fld, **opts)
            elif op == 'extend':
                f.extend(code, fld, **opts)
            elif op == 'prextend':
                f.prextend(code, fld, **opts)
            elif op == 'append':
                f.append(build_one(plan, o), fld, **opts)
            elif op == 'prepend':
                f.prepend(build_one(plan, o), fld, **opts)
            else:
                raise AssertionError(op)
        elif plan.form == 'one':
            i = plan.idx
            if op == 'put':
                if plan.corrupt == 'one_false':
                    f.put(code, i, field=fld, one=False, **opts)
                else:
                    f.put(code, i, field=fld, **opts)
            elif op == 'view_set':
                with FST.options(**opts):
                    getattr(f, fld)[i] = code
            elif op == 'replace':
                child_fst(f, fld, i).replace(code, **opts)
            else:
                raise AssertionError(op)
        elif plan.form == 'del':
            i = plan.idx
            if op == 'view_del':
                with FST.options(**opts):
                    del getattr(f, fld)[i]
            elif op == 'put_none':
                f.put(None, i, field=fld, **opts)
            elif op == 'remove':
                child_fst(f, fld, i).remove(**opts)
            elif op == 'cut':
                child_fst(f, fld, i).cut(**opts)
            elif op == 'replace_none':
                child_fst(f, fld, i).replace(None, **opts)
            else:
                raise AssertionError(op)
        else:
            if op == 'put':
                if plan.corrupt == 'one_false':
                    f.put(code, field=fld, one=False, **opts)
                else:
                    f.put(code, field=fld, **opts)
            elif op == 'attr_set':
                with FST.options(**opts):
                    setattr(f, fld, code)
            elif op == 'attr_del':
                with FST.options(**opts):
                    delattr(f, fld)
            elif op == 'replace':
                getattr(f.a, fld).f.replace(code, **opts)
            elif op == 'remove':
                getattr(f.a, fld).f.remove(**opts)
            else:
                raise AssertionError(op)
    except Exception as e:  # noqa: BLE001
        return e
    return None


def _one_src(plan, o, s):
    """Source text of a single element as a valid fragment of the slot's category: a bare `yield` is not a valid
    argument / base as written (`f(yield)`), it needs its parentheses there."""
    if o.elems is not None and plan.kind in ('Call', 'ClassDef') and plan.et in ('expr', 'arglike') and \
            isinstance(o.elems[0][0], (ast.Yield, ast.YieldFrom)) and not s.lstrip().startswith('('):
        return '(' + s + ')'
    if o.elems is not None and plan.et == 'withitem' and needs_wrap('withitem', o.elems[0][0], plan.kind, plan.field, s):
        return '(' + s + ')'
    return s


def build_one(plan, o):
    s = _one_src(plan, o, plan.srcs[0])
    if plan.codeform == 'ast' and o.elems is not None and plan.et != 'dictelt' and plan.et != 'identifier':
        return _copy.deepcopy(o.elems[0][0])
    if plan.codeform == 'fst' and o.elems is not None and plan.et in FST_ONE_MODE:
        return FST(s, FST_ONE_MODE[plan.et])
    return s


def child_fst(f, fld, i):
    """The FST of element i of (virtual) field fld of f, for entry points that start from the child."""
    v = getattr(f, fld)
    r = v[i]
    return r


# ----------------------------------------------------------------------------------------------------------------------
# documented refusals (DESIGN 4-C03 `RefuseDocumented`): classified from the *request*, not from the message

def documented_refusal(plan: Plan, pre_tree, o: Oracle) -> bool:
    """RefuseDocumented, classified from the request (never from the message):
    - the real fields Call.args / Call.keywords / ClassDef.bases / ClassDef.keywords of a node that has both
      positional and keyword arglikes are edited through `_args` / `_bases` (d07_views "you can't break syntax ordering
      rules"; the two real lists do not determine the syntax order of the merged list)."""
    if plan.et == 'argelt':
        return True  # validity of the spliced parameter list is not decided by the harness (see oracle())
    if plan.kind == 'Compare' and plan.field == '_all' and 'op' not in plan.opts:
        return True  # d06: "If inserting to a Compare an extra operator MUST be added ... or as a separate `op` option"
    if plan.kind in ('Call', 'ClassDef') and plan.field in ('args', 'keywords', 'bases') and pre_tree is not None:
        node = node_at(pre_tree, plan.path)
        pos = node.args if plan.kind == 'Call' else node.bases
        if pos and node.keywords:
            return True
    return False


def make_event(plan: Plan, o: Oracle, exc, post, pre_tree) -> dict:
    if plan.form in ('append', 'prepend'):
        raise AssertionError
    e = {
        'call': 'edit', 'op': plan.op, 'form': plan.form, 'path': path_json(plan.path), 'field': plan.field,
        'start': bound(plan.start), 'stop': bound(plan.stop), 'idx': bound(plan.idx),
        'isView': plan.view is not None,
        'vlo': bound(plan.view[0] if plan.view else None), 'vhi': bound(plan.view[1] if plan.view else None),
        'newS': o.newS, 'law': o.law, 'expValid': o.expValid, 'expS': o.expS, 'expCompiles': o.expCompiles,
        'outcome': 'ok' if exc is None else 'raise',
        'exc': '' if exc is None else type(exc).__name__,
        'msg': '' if exc is None else str(exc)[:200].encode('ascii', 'replace').decode(),
        'documented': documented_refusal(plan, pre_tree, o) if exc is not None else False,
        'opts': opts_json(plan.opts), 'codeform': plan.codeform, 'kind': plan.kind,
        'srcs': [s.encode('ascii', 'backslashreplace').decode() for s in plan.srcs], 'note': o.note,
        'codePar': any(s.lstrip().startswith('(') for s in plan.srcs),
        'codePar0': bool(plan.srcs) and plan.srcs[0].lstrip().startswith('('), 'corrupt': plan.corrupt or '',
        'post': post,
    }
    return e


# ----------------------------------------------------------------------------------------------------------------------
# other edits of C01's list: docstring / line-comment accessors, par()

DOC_TEXTS = ['doc', 'multi\nline doc', 'with "quotes" inside', "with \'\'\'triple", 'back\\slash', '\u00fcn\u00ef \u2603',
             'ends with quote"', 'line one\n\n    indented third\nlast', 'tab\there', None, None]
COMMENTS = ['new comment', 'c', '\u00fc comment', 'has # hash', None, None]


PRIM_CONST = [0, 1, 5, 1.5, 'q', b'b', None, True, False, '\u00fc', 10 ** 20, 'two words']
PRIM_IDENT = ['nm', 'if_', '\u00fc2', 'x']
PRIM_FIELDS = {'Name': ('id',), 'arg': ('arg',), 'keyword': ('arg',), 'alias': ('asname',), 'Attribute': ('attr',),
               'FunctionDef': ('name',), 'AsyncFunctionDef': ('name',), 'ClassDef': ('name',), 'ExceptHandler': ('name',),
               'MatchAs': ('name',), 'MatchStar': ('name',), 'TypeVar': ('name',), 'ParamSpec': ('name',),
               'TypeVarTuple': ('name',)}


def _prim_slots(tree, nodes):
    out = []
    for n, p in nodes:
        k = n.__class__.__name__
        if _under_ftstr(tree, p):
            continue
        if k == 'Constant':
            if any(f == 'format_spec' for f, _ in p):
                continue
            par = node_at(tree, p[:-1]) if p else None
            pool = PRIM_CONST  # below a pattern many of these are refused (literal pattern rules): atomicity is judged then
            if n.value is ...:
                pool = ['q', '\u00fc', 'two words']
            if isinstance(par, ast.Expr) and isinstance(n.value, str):
                continue  # docstring positions: put_docstr has its own events
            out.append((n, p, 'value', pool))
        elif k in PRIM_FIELDS:
            for fld in PRIM_FIELDS[k]:
                cur = getattr(n, fld, None)
                if cur is None:
                    continue  # absent optional identifiers (`**kw`, no asname, bare except): setting them is an insertion
                if k == 'MatchAs' and (n.pattern is None and cur == '_' or cur is None):
                    continue
                out.append((n, p, fld, PRIM_IDENT))
    return out


def plan_prim_sweep(tree, rng: random.Random, per_class=2):
    """Systematic primitive puts over one program (each on a fresh tree): every Constant / identifier slot class
    (node kind, field, kind of the parent) gets `per_class` puts with values cycling through the pools."""
    nodes = [(n, p) for n, p in walk_paths(tree)]
    slots = _prim_slots(tree, nodes)
    rng.shuffle(slots)
    seen, out = {}, []
    for n, p, fld, pool in slots:
        par = node_at(tree, p[:-1]).__class__.__name__ if p else ''
        key = (n.__class__.__name__, fld, par, p[-1][0] if p else '')
        j = seen.get(key, 0)
        if j >= per_class:
            continue
        seen[key] = j + 1
        val = pool[(len(out) + j) % len(pool)]
        m = MiscPlan()
        m.op, m.arg, m.path, m.kind = 'prim_put', repr(val), p, n.__class__.__name__
        m.extra = {'field': fld, 'val': val}
        out.append(m)
    return out


FV_POOL = ['b', 'a + 1', '{1, 2}', '{k: v}', '[e for e in s]', '{e for e in s}', 'f(x)', 'x if y else z', 'n.m[0]',
           '{k: v for k, v in d}', '(p, q)', 'not z', 'ü', '-1']


class MiscPlan:
    __slots__ = ('op', 'path', 'kind', 'arg', 'extra')

    def describe(self):
        return {'op': self.op, 'path': self.path, 'kind': self.kind, 'arg': self.arg, 'extra': self.extra, 'misc': True}


def _redundant_par_nodes(tree, src):
    """Expression nodes directly wrapped in a pair of grouping parentheses whose removal denotes the same tree
    (decided with CPython's parser only)."""
    lines = src.split('\n')
    out = []
    t = Tables()
    base = None
    for n, p in walk_paths(tree):
        if not isinstance(n, ast.expr) or not hasattr(n, 'end_col_offset') or _under_ftstr(tree, p):
            continue
        try:
            l0 = lines[n.lineno - 1].encode()
            l1 = lines[n.end_lineno - 1].encode()
        except IndexError:
            continue
        pre = l0[:n.col_offset].rstrip()
        post = l1[n.end_col_offset:].lstrip()
        if not pre.endswith(b'(') or not post.startswith(b')'):
            continue
        a = len(pre) - 1
        b = len(l1) - len(post)
        trial = [x.encode() for x in lines]
        if n.lineno == n.end_lineno:
            trial[n.lineno - 1] = l0[:a] + b' ' + l0[a + 1:b] + b' ' + l0[b + 1:]
        else:
            trial[n.lineno - 1] = l0[:a] + b' ' + l0[a + 1:]
            trial[n.end_lineno - 1] = l1[:b] + b' ' + l1[b + 1:]
        try:
            t2 = ast.parse(b'\n'.join(trial).decode())
        except (SyntaxError, ValueError, UnicodeDecodeError):
            continue
        if base is None:
            base = t.sid(ast.parse(src))
        if t.sid(t2) == base:
            out.append((n, p))
    return out


def plan_misc(rng: random.Random, tree, src=None, unpar_p=0.3):
    nodes = [(n, p) for n, p in walk_paths(tree)]
    r = rng.random()
    m = MiscPlan()
    m.extra = {}
    if rng.random() < 0.18:
        # a primitive field is assigned through put(value, field=...): Constant.value, identifiers (DESIGN 9.4: these
        # slots were outside every generator of C01/C03/C12 until round 3)
        c = _prim_slots(tree, nodes)
        if c:
            n, p, fld, pool = rng.choice(c)
            val = rng.choice(pool)
            m.op, m.arg, m.path, m.kind = 'prim_put', repr(val), p, n.__class__.__name__
            m.extra = {'field': fld, 'val': val}
            return m
    fvs = [(n, p) for n, p in nodes if isinstance(n, ast.FormattedValue) and not any(f == 'format_spec' for f, _ in p)]
    if fvs and rng.random() < 0.3:
        # an edit INSIDE an f-string: the expression of a replacement field is replaced (self-documenting fields
        # `{x = }` make pfst rewrite the preceding literal text as well). Judged by Sync / observational equality only.
        n, p = rng.choice(fvs)
        m.op, m.arg = 'fv_replace', rng.choice(FV_POOL)
        m.path, m.kind = p, 'FormattedValue'
        return m
    if src is not None and rng.random() < unpar_p:
        c = _redundant_par_nodes(tree, src)
        if not c:
            return None
        n, p = rng.choice(c)
        m.op, m.arg = 'unpar', None
    elif r < 0.4:
        c = [(n, p) for n, p in nodes if isinstance(n, (ast.Module, ast.FunctionDef, ast.AsyncFunctionDef, ast.ClassDef))]
        n, p = rng.choice(c)
        m.op, m.arg = 'put_docstr', rng.choice(DOC_TEXTS)
        m.extra = {'reput': rng.random() < 0.3}
    elif r < 0.75:
        c = [(n, p) for n, p in nodes if isinstance(n, ast.stmt)]
        if not c:
            return None
        n, p = rng.choice(c)
        m.op, m.arg = 'put_line_comment', rng.choice(COMMENTS)
        fields = [None]
        for fld in ('body', 'orelse', 'finalbody'):
            if getattr(n, fld, None):
                fields.append(fld)
        m.extra = {'field': rng.choice(fields)}
    else:
        c = [(n, p) for n, p in nodes if isinstance(n, ast.expr) and isinstance(getattr(n, 'ctx', ast.Load()), ast.Load)
             and not any(f in ('format_spec',) for f, _ in p)]
        c = [(n, p) for n, p in c if not _under_ftstr(tree, p) and not _under_pattern(tree, p)
             and not _annassign_target_head(tree, p)]
        if not c:
            return None
        n, p = rng.choice(c)
        m.op, m.arg = 'par', None
        m.extra = {'force': rng.random() < 0.3}
    m.path, m.kind = p, n.__class__.__name__
    return m


def plan_misc_sweep(rng: random.Random, tree, src, k):
    """Systematic layout-only edits for C02 (see c02_hist.run_lockstep(sweep=True)): line-comment puts on the statements
    that are the last statement of the most enclosing blocks (their trailing comment is part of every enclosing block's
    `bloc`), a few other statements, and docstring puts on the deepest definitions. Paths stay valid because none of
    these edits changes the structure (put_docstr comes last)."""
    stmts = [(n, p) for n, p in walk_paths(tree) if isinstance(n, ast.stmt) and p]

    def lastness(p):
        n, c = tree, []
        for f, i in p:
            n2 = getattr(n, f)
            c.append(i is not None and i == len(n2) - 1)
            n = n2[i] if i is not None else n2
        r = 0
        for x in reversed(c):
            if not x:
                break
            r += 1
        return r

    fvs = [(n, p) for n, p in walk_paths(tree) if isinstance(n, ast.FormattedValue)
           and not any(f == 'format_spec' for f, _ in p)]
    if fvs:
        # programs with f-strings: the sweep replaces the expression of every replacement field in turn (deepest
        # first so that paths stay valid), alternating expressions that start with `{` (pfst must insert a blank after
        # the field's own brace) with plain ones
        fout = []
        args = ['{1, 2}', 'b', '{k: v}', 'a + 1', '[e for e in s]']
        for j, (n, p) in enumerate(sorted(fvs, key=lambda t: (-len(t[1]), t[1]))):
            m = MiscPlan()
            m.op, m.arg, m.path, m.kind, m.extra = 'fv_replace', args[j % len(args)], p, 'FormattedValue', {}
            fout.append(m)
        return fout[:max(k, 12)]
    ranked = sorted(stmts, key=lambda t: (-lastness(t[1]), -len(t[1]), rng.random()))
    pick = ranked[:max(1, k // 2)]
    rest = ranked[len(pick):]
    rng.shuffle(rest)
    pick += rest[:max(0, k - len(pick) - 1)]
    out = []
    texts = ['a much longer replacement comment than the one before it', 'c', None, 'x' * 40]
    for j, (n, p) in enumerate(pick):
        m = MiscPlan()
        m.op, m.arg, m.path, m.kind = 'put_line_comment', texts[j % len(texts)], p, n.__class__.__name__
        m.extra = {'field': None}
        out.append(m)
        if j % 2 == 0:  # replace it again by something of another length: the first put may have been an insertion
            m2 = MiscPlan()
            m2.op, m2.arg, m2.path, m2.kind = 'put_line_comment', texts[(j + 1) % len(texts)], p, m.kind
            m2.extra = {'field': None}
            out.append(m2)
    defs = [(n, p) for n, p in walk_paths(tree) if isinstance(n, (ast.FunctionDef, ast.AsyncFunctionDef, ast.ClassDef))]
    if defs:
        n, p = max(defs, key=lambda t: len(t[1]))
        m = MiscPlan()
        m.op, m.arg, m.path, m.kind, m.extra = 'put_docstr', 'swept\ndoc', p, n.__class__.__name__, {'reput': False}
        out.append(m)
    return out[:k]


def _under(tree, path, kinds):
    n = tree
    for f, i in path:
        if n.__class__.__name__ in kinds:
            return True
        n = getattr(n, f)
        if i is not None:
            n = n[i]
    return n.__class__.__name__ in kinds


def _annassign_target_head(tree, path):
    """The leftmost primary of an annotated Attribute / Subscript target: CPython (not the grammar in the language
    reference) rejects redundant parentheses there, '(t)[i]: int' is "illegal target for annotation" while '(t)[i] = 1'
    and '((t)[i]): int' are fine - a parser quirk outside what C01 is about, par(force=True) is not asked there."""
    n = tree
    for k, (f, i) in enumerate(path):
        if n.__class__.__name__ == 'AnnAssign' and f == 'target':
            return len(path) > k + 1 and all(g == 'value' for g, _ in path[k + 1:])
        n = getattr(n, f)
        if i is not None:
            n = n[i]
    return False


def _under_ftstr(tree, path):
    return _under(tree, path, ('JoinedStr', 'FormattedValue', 'TemplateStr', 'Interpolation'))


def _under_pattern(tree, path):
    return _under(tree, path, ('MatchValue', 'MatchSingleton', 'MatchSequence', 'MatchMapping', 'MatchClass', 'MatchStar',
                               'MatchAs', 'MatchOr'))


def execute_misc(m: MiscPlan, root):
    try:
        f = node_at(root.a, m.path).f
        if m.op == 'put_docstr':
            f.put_docstr(m.arg, **m.extra)
        elif m.op == 'put_line_comment':
            f.put_line_comment(m.arg, **m.extra)
        elif m.op == 'par':
            f.par(**m.extra)
        elif m.op == 'unpar':
            f.unpar()
        elif m.op == 'fv_replace':
            f.value.replace(m.arg)
        elif m.op == 'prim_put':
            f.put(m.extra['val'], field=m.extra['field'])
        else:
            raise AssertionError(m.op)
    except Exception as e:  # noqa: BLE001
        return e
    return None


def make_misc_event(m: MiscPlan, exc, post) -> dict:
    return {'call': 'misc', 'op': m.op, 'path': path_json(m.path), 'kind': m.kind,
            'arg': 'None' if m.arg is None else m.arg.encode('ascii', 'backslashreplace').decode(),
            'outcome': 'ok' if exc is None else 'raise', 'exc': '' if exc is None else type(exc).__name__,
            'msg': '' if exc is None else str(exc)[:200].encode('ascii', 'replace').decode(),
            'form': 'misc', 'field': m.extra.get('field') or '' if m.op == 'prim_put' else '', 'codeform': '',
            'start': bound(None), 'stop': bound(None), 'idx': bound(None),
            'post': post}
