"""Layout mutators: re-lay-out a program without changing what it denotes (checked with CPython's parser).

Standard library only (`ast`, `tokenize`). A mutation is accepted only if the mutated text still parses to a tree with
the same structure (field values, ctx-insensitive, position-insensitive); otherwise the original text is returned.
"""

from __future__ import annotations

import ast
import io
import random
import tokenize

from .proj import Tables

N_VARIANTS = 10


def _same(a: str, b: str) -> bool:
    try:
        ta, tb = ast.parse(a), ast.parse(b)
    except (SyntaxError, ValueError):
        return False
    t = Tables()
    return t.sid(ta) == t.sid(tb)


def _toks(src):
    return list(tokenize.generate_tokens(io.StringIO(src).readline))


def trailing_comments(src: str, rng: random.Random, p=0.5) -> str:
    """`# cN` after logical-line ends and after commas that end a physical line inside brackets."""
    lines = src.split('\n')
    try:
        toks = _toks(src)
    except (tokenize.TokenError, IndentationError, SyntaxError):
        return src
    has_comment = {t.start[0] for t in toks if t.type == tokenize.COMMENT}
    in_string = set()
    for t in toks:
        if t.type in (tokenize.STRING, getattr(tokenize, 'FSTRING_MIDDLE', -1)) and t.start[0] != t.end[0]:
            in_string.update(range(t.start[0], t.end[0]))  # all but the last physical line of a multi-line string
    fs_depth = 0
    for t in toks:
        if t.type == getattr(tokenize, 'FSTRING_START', -1):
            fs_depth += 1
            fs_line = t.start[0]
        elif t.type == getattr(tokenize, 'FSTRING_END', -2):
            fs_depth -= 1
            in_string.update(range(fs_line, t.end[0]))
    n = 0
    for t in toks:
        if t.type in (tokenize.NEWLINE, tokenize.NL):
            ln = t.start[0]
            if ln in has_comment or ln in in_string or ln > len(lines):
                continue
            text = lines[ln - 1]
            if not text.strip() or text.rstrip().endswith('\\'):
                continue
            if rng.random() < p:
                n += 1
                lines[ln - 1] = text.rstrip() + f'  # tc{n}'
    out = '\n'.join(lines)
    return out if _same(src, out) else src


def own_line_comments(src: str, rng: random.Random, p=0.35) -> str:
    """Comment lines (at the indentation of the following statement) before statements."""
    try:
        tree = ast.parse(src)
    except SyntaxError:
        return src
    lines = src.split('\n')
    starts = set()
    for n in ast.walk(tree):
        if isinstance(n, ast.stmt):
            ln = n.lineno
            if getattr(n, 'decorator_list', None):
                ln = min(d.lineno for d in n.decorator_list)
            starts.add(ln)
    out = []
    k = 0
    for i, text in enumerate(lines, 1):
        if i in starts and text.strip() and text[:len(text) - len(text.lstrip())] == text[:len(text) - len(text.lstrip())]:
            first = text.lstrip()
            # only when the statement starts its own physical line (not after `;` or `:`)
            col = len(text) - len(first)
            if all(getattr(s, 'col_offset', col) == col or s.lineno != i for s in ast.walk(tree) if isinstance(s, ast.stmt) and s.lineno == i and s.col_offset < col + 1) and rng.random() < p:
                k += 1
                out.append(text[:col] + f'# oc{k}')
        out.append(text)
    res = '\n'.join(out)
    return res if _same(src, res) else src


def redundant_parens(src: str, rng: random.Random, p=0.25) -> str:
    """Wrap some single-line Load expressions in redundant parentheses."""
    try:
        tree = ast.parse(src)
    except SyntaxError:
        return src
    lines = src.split('\n')
    cands = []
    skip = set()
    for n in ast.walk(tree):
        if isinstance(n, (ast.JoinedStr, ast.FormattedValue)):
            for m in ast.walk(n):
                skip.add(id(m))
        if isinstance(n, (ast.FunctionDef, ast.AsyncFunctionDef, ast.ClassDef)):
            for d in n.decorator_list:
                skip.add(id(d))
        if isinstance(n, ast.pattern):
            for m in ast.walk(n):
                skip.add(id(m))
    for n in ast.walk(tree):
        if id(n) in skip or not isinstance(n, (ast.Name, ast.Call, ast.BinOp, ast.Attribute, ast.Constant, ast.Subscript)):
            continue
        if not isinstance(getattr(n, 'ctx', ast.Load()), ast.Load):
            continue
        if n.lineno != n.end_lineno:
            continue
        if not lines[n.lineno - 1].isascii():
            continue
        cands.append(n)
    rng.shuffle(cands)
    chosen = []
    used_lines = set()
    for n in cands:
        if n.lineno in used_lines or rng.random() > p:
            continue
        used_lines.add(n.lineno)
        chosen.append(n)
    for n in chosen:
        text = lines[n.lineno - 1]
        new = text[:n.col_offset] + '(' + text[n.col_offset:n.end_col_offset] + ')' + text[n.end_col_offset:]
        trial = lines[:]
        trial[n.lineno - 1] = new
        if _same(src, '\n'.join(trial)):
            lines = trial
    return '\n'.join(lines)


def continuations(src: str, rng: random.Random, p=0.3) -> str:
    """Backslash continuations before binary operators / after `=` outside brackets."""
    try:
        toks = _toks(src)
    except (tokenize.TokenError, IndentationError, SyntaxError):
        return src
    lines = src.split('\n')
    depth = 0
    spots = []
    fs = 0
    for t in toks:
        if t.type == getattr(tokenize, 'FSTRING_START', -1):
            fs += 1
        elif t.type == getattr(tokenize, 'FSTRING_END', -2):
            fs -= 1
        if fs:
            continue
        if t.type == tokenize.OP:
            if t.string in '([{':
                depth += 1
            elif t.string in ')]}':
                depth -= 1
            elif depth == 0 and t.string in ('+', '-', '*', '/', '==', 'and', 'or', '=', '<', '>', '|', '&', '.'):
                spots.append(t)
        elif t.type == tokenize.NAME and depth == 0 and t.string in ('and', 'or', 'in', 'is', 'if', 'else'):
            spots.append(t)
    done = set()
    for t in reversed(spots):
        ln = t.start[0]
        if ln in done or rng.random() > p:
            continue
        text = lines[ln - 1]
        if not text.isascii() or '#' in text or text.rstrip().endswith('\\'):
            continue
        col = t.start[1]
        if not text[:col].strip():
            continue
        indent = text[:len(text) - len(text.lstrip())]
        trial = lines[:]
        trial[ln - 1:ln] = [text[:col].rstrip() + ' \\', indent + '    ' + text[col:]]
        if _same(src, '\n'.join(trial)):
            lines = trial
            done.add(ln)
    return '\n'.join(lines)


def semicolons(src: str, rng: random.Random, p=0.5) -> str:
    """Join consecutive simple one-line statements of the same block with `; `."""
    try:
        tree = ast.parse(src)
    except SyntaxError:
        return src
    lines = src.split('\n')
    simple = (ast.Assign, ast.AugAssign, ast.Expr, ast.Pass, ast.Return, ast.Delete, ast.Import, ast.ImportFrom,
              ast.Global, ast.Nonlocal, ast.Assert, ast.Raise, ast.Break, ast.Continue, ast.AnnAssign)
    joins = []
    for n in ast.walk(tree):
        for fld in ('body', 'orelse', 'finalbody'):
            b = getattr(n, fld, None)
            if not isinstance(b, list):
                continue
            for a, c in zip(b, b[1:]):
                if isinstance(a, simple) and isinstance(c, simple) and a.lineno == a.end_lineno and \
                        c.lineno == c.end_lineno == a.lineno + 1 and a.col_offset == c.col_offset and rng.random() < p:
                    joins.append((a.lineno, c.lineno))
    used = set()
    for la, lc in sorted(joins, reverse=True):
        if la in used or lc in used:
            continue
        ta, tc = lines[la - 1], lines[lc - 1]
        if '#' in ta or ta.rstrip().endswith('\\') or not ta.strip() or not tc.strip():
            continue
        # statement must start its physical line
        trial = lines[:]
        trial[la - 1:lc] = [ta.rstrip() + '; ' + tc.lstrip()]
        if _same(src, '\n'.join(trial)):
            lines = trial
            used.update((la, lc))
    return '\n'.join(lines)


def tabs(src: str, rng: random.Random) -> str:
    try:
        toks = _toks(src)
    except (tokenize.TokenError, IndentationError, SyntaxError):
        return src
    lines = src.split('\n')
    instr = set()
    for t in toks:
        if t.type == tokenize.STRING and t.start[0] != t.end[0]:
            instr.update(range(t.start[0] + 1, t.end[0] + 1))
    fs = None
    for t in toks:
        if t.type == getattr(tokenize, 'FSTRING_START', -1):
            fs = t.start[0]
        elif t.type == getattr(tokenize, 'FSTRING_END', -2) and fs is not None:
            instr.update(range(fs + 1, t.end[0] + 1))
    out = []
    for i, text in enumerate(lines, 1):
        if i in instr:
            out.append(text)
            continue
        stripped = text.lstrip(' ')
        n = len(text) - len(stripped)
        out.append('\t' * (n // 4) + ' ' * (n % 4) + stripped)
    res = '\n'.join(out)
    return res if _same(src, res) else src


def nonascii(src: str, rng: random.Random, p=0.4) -> str:
    """Rename some identifiers to non-ASCII ones (consistently) and add non-ASCII comments."""
    try:
        toks = _toks(src)
        tree = ast.parse(src)
    except (tokenize.TokenError, IndentationError, SyntaxError):
        return src
    import keyword
    names = sorted({n.id for n in ast.walk(tree) if isinstance(n, ast.Name)} - {'print', 'range', 'len', 'sum', 'str'})
    attrs = {n.attr for n in ast.walk(tree) if isinstance(n, ast.Attribute)}
    kws = {k.arg for n in ast.walk(tree) if isinstance(n, (ast.Call, ast.ClassDef)) for k in n.keywords if k.arg}
    ren = {}
    pool = ['ä', 'ö', 'ü', 'ß', 'é', 'ñ', 'λ', 'Ω', 'ж', '日', '本', '語']
    for nm in names:
        if keyword.iskeyword(nm) or nm in attrs or nm in kws or nm.startswith('_'):
            continue
        if rng.random() < p:
            ren[nm] = nm + rng.choice(pool)
    if not ren:
        return src
    out = []
    lines = src.split('\n')
    edits = []
    fs = 0
    for t in toks:
        if t.type == getattr(tokenize, 'FSTRING_START', -1):
            fs += 1
        elif t.type == getattr(tokenize, 'FSTRING_END', -2):
            fs -= 1
        if t.type == tokenize.NAME and t.string in ren and not fs:
            edits.append(t)
    # a NAME token may be an attribute / keyword / import name: apply, then verify by re-parse with expected renames
    for t in reversed(edits):
        ln, col = t.start
        text = lines[ln - 1]
        # skip attribute accesses `.name` and keyword args `name=` and import-related lines
        before = text[:col].rstrip()
        if before.endswith('.') or text.lstrip().startswith(('import ', 'from ')):
            continue
        lines[ln - 1] = text[:col] + ren[t.string] + text[col + len(t.string):]
    res = '\n'.join(lines)
    try:
        t2 = ast.parse(res)
    except SyntaxError:
        return src
    # same shape?  (compare node-kind sequence; names differ by construction)
    k1 = [type(n).__name__ for n in ast.walk(tree)]
    k2 = [type(n).__name__ for n in ast.walk(t2)]
    try:
        compile(res, '<nonascii>', 'exec')
    except SyntaxError:
        return src
    return res if k1 == k2 else src


def tight(src: str, rng: random.Random, p=0.6) -> str:
    """Remove the whitespace between a closing bracket / string and a following keyword or name, and between a keyword
    and an opening bracket / string (`x if (a) else y` -> `x if(a)else y`) where the text still denotes the same tree."""
    try:
        toks = _toks(src)
    except (tokenize.TokenError, IndentationError, SyntaxError):
        return src
    lines = src.split('\n')
    spots = []
    fs = 0
    for a, b in zip(toks, toks[1:]):
        if a.type == getattr(tokenize, 'FSTRING_START', -1):
            fs += 1
        elif a.type == getattr(tokenize, 'FSTRING_END', -2):
            fs -= 1
        if fs or a.end[0] != b.start[0] or a.end[1] >= b.start[1]:
            continue
        left_closed = (a.type == tokenize.OP and a.string in ')]}') or a.type == tokenize.STRING
        right_open = (b.type == tokenize.OP and b.string in '([{') or b.type == tokenize.STRING
        if (left_closed and b.type in (tokenize.NAME, tokenize.NUMBER)) or (a.type == tokenize.NAME and right_open
                                                                            and a.string in ('if', 'else', 'and', 'or', 'not', 'in', 'is', 'return', 'yield', 'assert', 'del', 'for', 'while', 'elif', 'lambda', 'await', 'from', 'with', 'as', 'raise', 'except', 'case', 'match')):
            spots.append((a.end[0], a.end[1], b.start[1]))
    for ln, c0, c1 in sorted(spots, reverse=True):
        if rng.random() > p:
            continue
        text = lines[ln - 1]
        if not text[c0:c1].strip() == '' or not text.isascii():
            continue
        trial = lines[:]
        trial[ln - 1] = text[:c0] + text[c1:]
        if _same(src, '\n'.join(trial)):
            lines = trial
    return '\n'.join(lines)


def mixed_indent(src: str, rng: random.Random, p=0.6) -> str:
    """Re-indent the blocks of some top-level compound statements with another width (2 / 3 / 8 spaces), so that the
    file's blocks do not all use the indentation the root infers. Multi-line strings are left alone."""
    try:
        tree = ast.parse(src)
        toks = _toks(src)
    except (SyntaxError, tokenize.TokenError, IndentationError):
        return src
    lines = src.split('\n')
    instr = set()
    for t in toks:
        if t.type == tokenize.STRING and t.start[0] != t.end[0]:
            instr.update(range(t.start[0] + 1, t.end[0] + 1))
    fs = None
    for t in toks:
        if t.type == getattr(tokenize, 'FSTRING_START', -1):
            fs = t.start[0]
        elif t.type == getattr(tokenize, 'FSTRING_END', -2) and fs is not None:
            instr.update(range(fs + 1, t.end[0] + 1))
    first = True
    for st in tree.body:
        if not hasattr(st, 'body') or st.end_lineno == st.lineno:
            continue
        if first:
            first = False  # keep the first block as written: it is what the root's default indentation is inferred from
            continue
        if rng.random() > p:
            continue
        w = rng.choice((2, 3, 8, 1))
        trial = lines[:]
        ok = True
        for ln in range(st.lineno, st.end_lineno + 1):
            text = trial[ln - 1]
            if ln in instr or not text.strip():
                continue
            stripped = text.lstrip(' ')
            n = len(text) - len(stripped)
            if text[:1] == '\t':
                ok = False
                break
            if n % 4:
                ok = False
                break
            trial[ln - 1] = ' ' * (n // 4 * w) + stripped
        if ok and _same(src, '\n'.join(trial)):
            lines = trial
    return '\n'.join(lines)


def variant(src: str, v: int, seed: int) -> str:
    """Deterministic layout variant `v` of `src` (0 = as written)."""
    rng = random.Random(seed * 31 + v)
    if v == 0:
        return src
    if v == 1:
        return trailing_comments(own_line_comments(src, rng), rng)
    if v == 2:
        return redundant_parens(src, rng)
    if v == 3:
        return continuations(src, rng)
    if v == 4:
        return semicolons(src, rng)
    if v == 5:
        return tabs(src, rng)
    if v == 6:
        return nonascii(src, rng)
    if v == 7:
        s = src
        for f in rng.sample([trailing_comments, own_line_comments, redundant_parens, continuations, semicolons,
                             nonascii, tight], 3):
            s = f(s, rng)
        return s
    if v == 8:
        return tight(redundant_parens(src, rng, p=0.5), rng)
    if v == 9:
        return mixed_indent(src, rng)
    return src
