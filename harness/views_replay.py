"""Direction G for the FSTView state machine (spec/Views.tla).

TLC (`ViewsSim`, -simulate) generates behaviours: an initial field and a sequence of actions (operations through a view,
edits behind its back, uses, view creation) with the model's post-states.  `replay()` concretises one behaviour on a
container kind of the catalogue below, performs every action on REAL `FSTView` objects and records, per step, what the
real code reports (`view.start`, `view.stop`, `len(view)`, the items, the tree returned by cut/copy), plus the
element ids of the field read from the re-parsed source and from the live AST (stdlib `ast` only).  Nothing is judged
here: the recorded trace is validated by TLC against spec/ViewsTrace.tla.

Model element id k  <->  the unique name `e<k>` (as a Name, a statement, a dict key, a global name, a class pattern ...).
"""

from __future__ import annotations

import ast
import json
import re

from fst import FST
from fst.view import FSTView

from harness import tlc

_RE_E = re.compile(r'\be(\d+)\b')


def _eid(name) -> int:
    m = _RE_E.fullmatch(name) if isinstance(name, str) else None
    return int(m.group(1)) if m else -1


def ids_in(src: str) -> list:
    return [int(x) for x in _RE_E.findall(src)]


def _e(i) -> str:
    return f'e{i}'


# ----------------------------------------------------------------------------------------------------------------------
# catalogue of container kinds

class Kind:
    def __init__(self, name, cls, field, minlen, src, one, seq, ids):
        self.name = name        # '<AST class>.<field>'
        self.cls = cls          # AST class of the container (unique in the template)
        self.field = field      # field the view is taken of (may be virtual)
        self.minlen = minlen    # Containers.tla MinLen: shorter fields are not valid Python
        self.src = src          # [ids] -> source of a module holding the container with these elements
        self.one = one          # id -> code of ONE element
        self.seq = seq          # [ids] (non-empty) -> code of a SLICE of elements
        self.ids = ids          # stdlib AST node of the container -> element ids of the field


def _names(nodes):
    return [_eid(n.id) if isinstance(n, ast.Name) else -1 for n in nodes]


def _stmts(body, skip_docstr):
    if skip_docstr and body and isinstance(body[0], ast.Expr) and isinstance(body[0].value, ast.Constant) \
            and isinstance(body[0].value.value, str):
        body = body[1:]
    return [_eid(s.value.id) if isinstance(s, ast.Expr) and isinstance(s.value, ast.Name) else -1 for s in body]


def _commas(ids):
    return ', '.join(map(_e, ids))


def _lines(ids, ind=''):
    return ''.join(f'{ind}{_e(i)}\n' for i in ids)


KINDS = {k.name: k for k in [
    Kind('List.elts', ast.List, 'elts', 0, lambda x: f'[{_commas(x)}]', _e, _commas, lambda n: _names(n.elts)),
    Kind('Tuple.elts', ast.Tuple, 'elts', 0, lambda x: f'({_commas(x)}{"," if len(x) == 1 else ""})', _e, _commas,
         lambda n: _names(n.elts)),
    Kind('Set.elts', ast.Set, 'elts', 1, lambda x: f'{{{_commas(x)}}}', _e, _commas, lambda n: _names(n.elts)),
    Kind('Module.body', ast.Module, 'body', 0, lambda x: _lines(x), _e, lambda x: '\n'.join(map(_e, x)),
         lambda n: _stmts(n.body, False)),
    Kind('Module._body', ast.Module, '_body', 0, lambda x: '"""doc"""\n' + _lines(x), _e,
         lambda x: '\n'.join(map(_e, x)), lambda n: _stmts(n.body, True)),
    Kind('FunctionDef._body', ast.FunctionDef, '_body', 0, lambda x: 'def f():\n    """doc"""\n' + _lines(x, '    '), _e,
         lambda x: '\n'.join(map(_e, x)), lambda n: _stmts(n.body, True)),
    Kind('ClassDef._body', ast.ClassDef, '_body', 0, lambda x: 'class c:\n    """doc"""\n' + _lines(x, '    '), _e,
         lambda x: '\n'.join(map(_e, x)), lambda n: _stmts(n.body, True)),
    Kind('FunctionDef.body', ast.FunctionDef, 'body', 1, lambda x: 'def f():\n' + _lines(x, '    '), _e,
         lambda x: '\n'.join(map(_e, x)), lambda n: _stmts(n.body, False)),
    Kind('Call.args', ast.Call, 'args', 0, lambda x: f'f({_commas(x)})', _e, _commas, lambda n: _names(n.args)),
    Kind('Dict._all', ast.Dict, '_all', 0, lambda x: '{' + ', '.join(f'{_e(i)}: 0' for i in x) + '}',
         lambda i: f'{{{_e(i)}: 0}}', lambda x: '{' + ', '.join(f'{_e(i)}: 0' for i in x) + '}',
         lambda n: _names(n.keys)),
    Kind('Delete.targets', ast.Delete, 'targets', 1, lambda x: f'del {_commas(x)}', _e, _commas,
         lambda n: _names(n.targets)),
    Kind('Global.names', ast.Global, 'names', 1, lambda x: f'global {_commas(x)}', _e, _commas,
         lambda n: [_eid(s) for s in n.names]),
    Kind('MatchOr.patterns', ast.MatchOr, 'patterns', 2,
         lambda x: 'match x:\n    case ' + ' | '.join(f'{_e(i)}()' for i in x) + ': pass', lambda i: f'{_e(i)}()',
         lambda x: ' | '.join(f'{_e(i)}()' for i in x),
         lambda n: [_eid(p.cls.id) if isinstance(p, ast.MatchClass) and isinstance(p.cls, ast.Name) else -1
                    for p in n.patterns]),
    Kind('Assign.targets', ast.Assign, 'targets', 1, lambda x: ''.join(f'{_e(i)} = ' for i in x) + 'v', _e,
         lambda x: ''.join(f'{_e(i)} = ' for i in x).rstrip(), lambda n: _names(n.targets)),
    Kind('Import.names', ast.Import, 'names', 1, lambda x: f'import {_commas(x)}', _e, _commas,
         lambda n: [_eid(a.name) for a in n.names]),
    Kind('ImportFrom.names', ast.ImportFrom, 'names', 1, lambda x: f'from m import {_commas(x)}', _e, _commas,
         lambda n: [_eid(a.name) for a in n.names]),
    Kind('Nonlocal.names', ast.Nonlocal, 'names', 1, lambda x: f'def g():\n    nonlocal {_commas(x)}', _e, _commas,
         lambda n: [_eid(s) for s in n.names]),
    Kind('With.items', ast.With, 'items', 1, lambda x: f'with {_commas(x)}: pass', _e, _commas,
         lambda n: _names([i.context_expr for i in n.items])),
    Kind('BoolOp.values', ast.BoolOp, 'values', 2, lambda x: ' and '.join(map(_e, x)), _e,
         lambda x: ' and '.join(map(_e, x)), lambda n: _names(n.values)),
    Kind('If.orelse', ast.If, 'orelse', 0, lambda x: 'if x:\n    pass\n' + ('else:\n' + _lines(x, '    ') if x else ''), _e,
         lambda x: '\n'.join(map(_e, x)), lambda n: _stmts(n.orelse, False)),
    # views with their own _len_field / _getitem (merged or virtual fields)
    Kind('Call._args', ast.Call, '_args', 0, lambda x: f'f({_commas(x)})', _e, _commas, lambda n: _names(n.args)),
    Kind('Call.keywords', ast.Call, 'keywords', 0, lambda x: 'f(' + ', '.join(f'{_e(i)}=0' for i in x) + ')',
         lambda i: f'{_e(i)}=0', lambda x: ', '.join(f'{_e(i)}=0' for i in x), lambda n: [_eid(k.arg) for k in n.keywords]),
    Kind('ClassDef._bases', ast.ClassDef, '_bases', 0, lambda x: f'class c({_commas(x)}): pass' if x else 'class c: pass',
         _e, _commas, lambda n: _names(n.bases)),
    Kind('arguments._all', ast.arguments, '_all', 0, lambda x: f'def f({_commas(x)}): pass', _e, _commas,
         lambda n: [_eid(a.arg) for a in n.args]),
    Kind('FunctionDef.decorator_list', ast.FunctionDef, 'decorator_list', 0,
         lambda x: ''.join(f'@{_e(i)}\n' for i in x) + 'def f(): pass', _e, lambda x: '\n'.join(f'@{_e(i)}' for i in x),
         lambda n: _names(n.decorator_list)),
    Kind('FunctionDef.type_params', ast.FunctionDef, 'type_params', 0,
         lambda x: f'def f[{_commas(x)}](): pass' if x else 'def f(): pass', _e, _commas,
         lambda n: [_eid(t.name) for t in n.type_params]),
    Kind('comprehension.ifs', ast.comprehension, 'ifs', 0, lambda x: '[x for x in y' + ''.join(f' if {_e(i)}' for i in x) + ']',
         _e, lambda x: ' '.join(f'if {_e(i)}' for i in x), lambda n: _names(n.ifs)),
    Kind('MatchSequence.patterns', ast.MatchSequence, 'patterns', 0,
         lambda x: 'match x:\n    case [' + ', '.join(f'{_e(i)}()' for i in x) + ']: pass', lambda i: f'{_e(i)}()',
         lambda x: ', '.join(f'{_e(i)}()' for i in x),
         lambda n: [_eid(p.cls.id) if isinstance(p, ast.MatchClass) and isinstance(p.cls, ast.Name) else -1
                    for p in n.patterns]),
    Kind('MatchMapping._all', ast.MatchMapping, '_all', 0,
         lambda x: 'match x:\n    case {' + ', '.join(f'{i}: {_e(i)}()' for i in x) + '}: pass',
         lambda i: f'{{{i}: {_e(i)}()}}', lambda x: '{' + ', '.join(f'{i}: {_e(i)}()' for i in x) + '}',
         lambda n: [_eid(p.cls.id) if isinstance(p, ast.MatchClass) and isinstance(p.cls, ast.Name) else -1
                    for p in n.patterns]),
]}

QUICK_CORE = ['FunctionDef._body', 'List.elts', 'Dict._all', 'Module.body', 'Global.names']


def _locate(tree, cls):
    for n in ast.walk(tree):          # breadth first: the outermost node of the class
        if isinstance(n, cls):
            return n
    return None


# ----------------------------------------------------------------------------------------------------------------------
# behaviours printed by ViewsSim

def parse_behaviours(out: str) -> list:
    res = []
    for line in out.splitlines():
        if line.startswith('<<"BEH", '):
            body = line[len('<<"BEH", '):].rstrip()
            if body.endswith('>>'):
                body = body[:-2]
            res.append(json.loads(json.loads(body)))
    return res


def simulate(cfg: str, num: int, depth: int, seed: int, workers: int = 2, timeout: int = 600):
    """`num` random behaviours of ViewsSim with the given cfg; returns (behaviours, TLC result)."""
    r = tlc.run_model('ViewsSim', cfg, workers=workers, timeout=timeout, coverage=False, heap='2g',
                      extra=['-simulate', f'num={max(1, -(-num // workers))}', '-depth', str(depth + 2),
                             '-seed', str(seed + 1)])
    if r['violated']:
        raise tlc.TLCError(f'ViewsSim: the specification violates {r["violated"]} in simulation\n' + r['out'][-2000:])
    return parse_behaviours(r['out']), r


# ----------------------------------------------------------------------------------------------------------------------
# replay

def _py(b):
    """TLA+ bound record -> Python index."""
    return b['v'] if b['k'] == 'int' else None if b['k'] == 'none' else 'end'


def _item_id(x) -> int:
    if isinstance(x, str):
        return _eid(x)
    try:
        m = _RE_E.search(x.src)          # FST node or (multi-node item) FSTView
    except Exception:
        return -2
    return int(m.group(1)) if m else -1


def _guard(fn, dflt):
    try:
        return fn()
    except Exception:
        return dflt


def observe(view) -> dict:
    """What the real view reports about itself. Pure observation through the public API (each call is a use)."""
    start = _guard(lambda: int(view.start), -99)
    stop = _guard(lambda: int(view.stop), -99)
    ln = _guard(lambda: int(len(view)), -99)
    elems = _guard(lambda: [_item_id(x) for x in view], [-99])
    return {'has': True, 'start': start, 'stop': stop, 'len': ln, 'elems': elems}


NO_OBS = {'has': False, 'start': 0, 'stop': 0, 'len': 0, 'elems': []}
NO_RET = {'has': False, 'ids': []}
NO_M = {'has': False, 'c': [], 'views': []}


class Replayer:
    def __init__(self, kind: Kind, init: list):
        self.kind = kind
        self.root = FST(kind.src(init), 'exec')
        node = _locate(self.root.a, kind.cls)
        if node is None:
            raise RuntimeError(f'template of {kind.name} has no {kind.cls.__name__}')
        self.base = node.f
        self.slots = {}

    # the field as the source / the live tree has it (stdlib only)
    def base_ids(self) -> list:
        try:
            node = _locate(ast.parse(self.root.src), self.kind.cls)
        except SyntaxError:
            return [-3]
        return self.kind.ids(node) if node is not None else [-4]

    def live_ids(self) -> list:
        node = _locate(self.root.a, self.kind.cls)
        return self.kind.ids(node) if node is not None else [-4]

    def call(self, ev):
        """Perform the action on the real objects. Returns (outcome, view to observe | None, returned ids | None)."""
        k = self.kind
        op, new = ev['op'], list(ev['new'])
        a, b = _py(ev['a']), _py(ev['b'])
        seq = k.seq(new) if new else None
        ret = None
        try:
            if op == 'mkfull':
                self.slots[ev['w']] = getattr(self.base, k.field)
                return 'ok', self.slots[ev['w']], None
            if op == 'mksub':
                self.slots[ev['w']] = self.slots[ev['v']][slice(a, b)]
                return 'ok', self.slots[ev['w']], None
            if op == 'baseput':
                self.base.put_slice(seq, a, b, k.field)
                return 'ok', None, None
            view = self.slots[ev['v']]
            if op == 'use':
                pass
            elif op == 'setslice':
                view[slice(a, b)] = seq
            elif op == 'delslice':
                del view[slice(a, b)]
            elif op == 'setidx':
                view[a] = k.one(new[0])
            elif op == 'delidx':
                del view[a]
            elif op == 'insert':
                if len(new) == 1:
                    view.insert(k.one(new[0]), a)
                else:
                    view.insert(seq, a, one=False)
            elif op == 'append':
                view.append(k.one(new[0]))
            elif op == 'prepend':
                view.prepend(k.one(new[0]))
            elif op == 'extend':
                view.extend(seq)
            elif op == 'prextend':
                view.prextend(seq)
            elif op == 'replace':
                if len(new) == 1:
                    view.replace(k.one(new[0]))
                else:
                    view.replace(seq, one=False)
            elif op == 'remove':
                view.remove()
            elif op == 'cut':
                r = view.cut()
                ret = ids_in(r if isinstance(r, str) else r.src)
            else:
                return 'UnknownOp', None, None
            return 'ok', view, ret
        except Exception as e:  # the outcome is an observation, judged by the spec
            v = self.slots.get(ev['v']) if op not in ('mkfull', 'mksub', 'baseput') else None
            return type(e).__name__, v, None

    def step(self, ev, model=True) -> dict:
        outcome, view, ret = self.call(ev)
        rec = {'op': ev['op'], 'v': ev['v'], 'w': ev['w'], 'a': ev['a'], 'b': ev['b'], 'new': list(ev['new']),
               'cls': f'{self.kind.name}:{ev["op"]}', 'outcome': outcome,
               'obs': observe(view) if isinstance(view, FSTView) else NO_OBS,
               'ret': {'has': True, 'ids': ret} if ret is not None else NO_RET,
               'base': self.base_ids(), 'live': self.live_ids(),
               'm': {'has': True, 'c': list(ev['c']), 'views': ev['views']} if model and 'c' in ev else NO_M}
        if ev['op'] == 'use' and outcome == 'ok' and rec['obs']['len'] > 0:
            cp = _guard(lambda: ids_in(view.copy().src), None)        # an empty copy is not asked for
            if cp is not None:
                rec['ret'] = {'has': True, 'ids': cp}
        return rec


def use_event(v):
    n = {'k': 'none', 'v': 0}
    return {'op': 'use', 'v': v, 'w': 0, 'a': n, 'b': n, 'new': []}


def replay(beh: dict, kind_name: str, tid: int) -> dict | None:
    """Replay one behaviour on one container kind -> trace for ViewsTrace (None if the behaviour never gets going on
    this kind).  The behaviour is cut before the first step that would take the field below the kind's minimum length
    (a prefix of a behaviour is a behaviour) and after a call whose outcome is not the specified one."""
    kind = KINDS[kind_name]
    init = list(beh['init'])
    if len(init) < kind.minlen:
        return None
    rp = Replayer(kind, init)
    steps = []
    live = set()
    broken = False
    for ev in beh['steps']:
        if 'c' in ev and len(ev['c']) < kind.minlen:
            break
        rec = rp.step(ev)
        steps.append(rec)
        want = 'ok' if ev.get('ok', True) else ev.get('exc', '')
        if rec['outcome'] != want:
            broken = True
            break
        if ev['op'] in ('mkfull', 'mksub') and rec['outcome'] == 'ok':
            live.add(ev['w'])
    if steps and not broken:
        for v in sorted(live):                         # closing observation of every view (re-clipping after the last edits)
            steps.append(rp.step(use_event(v), model=False))
    if not steps:
        return None
    nviews = len(beh['steps'][0]['views']) if beh['steps'] and 'views' in beh['steps'][0] else max([1] + list(live))
    return {'id': tid, 'kind': kind_name, 'nviews': nviews, 'init': init, 'steps': steps, 'src': rp.root.src}
