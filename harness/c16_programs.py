"""Extra (V) inputs for C16: small programs dense in scoping interplay (names shared between sites and scopes).
Inputs only - nothing about the expected answer is stored here."""

PROGRAMS = [
'''\
g = 1
def outer(a, b=g, *args, c: int = g, **kw) -> g:
    global g, h
    g = a
    h = b
    del a
    x = y = 0
    def inner(p=x, q: y = b):
        nonlocal x
        x += p
        z = x + y
        return lambda u, v=z, *, w=x: u + v + w + g
    class K(Base, metaclass=Meta, flag=x):
        attr = x
        def method(self, d=attr):
            return attr, self, d
        nonlocal y
        y = 2
    return inner, K
''',
'''\
import os, sys as system, a.b.c, d.e as f
from m import n, o as p
from . import q
def f1():
    import os.path, json as js
    from x import y as z, w
    return os, js, z, w, system, q
class C:
    import re
    from t import u as v
    r = re
''',
'''\
def walrus(data, k):
    if (n := len(data)) > k:
        pass
    r = [y for x in data if (y := x + n) > k]
    s = {(z := x): z for x in data}
    t = [[(deep := a) for a in row] for row in data]
    g = ((m := i) for i in range(n))
    lam = lambda: (inner := 1)
    u = [lambda: (w := q) for q in data]
    return n, y, z, deep, lam, u
top = [(tw := e) for e in ()]
''',
'''\
def comps(xs, ys, n):
    a = [x for x in range(n)]
    b = [x for x in xs.items() if x]
    c = {k: v for k, v in zip(xs, ys)}
    d = (i for i in (j for j in ys))
    e = [i for i in [j for j in xs if n] if ys]
    f = [p for p in xs for q in p.attr for r in q(n)]
    g = [(lambda s=p: s + n) for p in sorted(xs)]
    h = sum(t for t in xs[n:])
    return a, b, c, d, e, f, g, h
class CC:
    xs = [1]
    ys = [x for x in xs]
    zs = [(x, y) for x in xs for y in xs]
''',
'''\
def handlers(f):
    try:
        f()
    except ValueError as e:
        print(e)
    except (TypeError, KeyError) as e2:
        raise RuntimeError from e2
    else:
        e = None
    finally:
        del f
    try:
        pass
    except* OSError as eg:
        del eg
    with open(f) as fh, lock:
        pass
    with (a() as (b, c), d() as [g, *h]):
        pass
    for i, (j, k) in enumerate(fh):
        pass
    else:
        i = 0
    async def co():
        async with x as y:
            pass
        async for z in y:
            pass
        return [t async for t in z]
''',
'''\
def matcher(cmd, Point):
    match cmd:
        case [a, *rest]:
            pass
        case {"k": v, **others}:
            pass
        case Point(x=px, y=py) as pt:
            pass
        case str() | bytes() as sb:
            pass
        case Color.RED:
            pass
        case (1 | 2) as num if num > cmd:
            pass
        case whole:
            pass
    return a, rest, v, others, px, py, pt, sb, whole
''',
'''\
@decorator(arg)
@other
def decorated(x: ann1 = dflt1, /, y: ann2 = dflt2, *va: ann3, z: ann4 = dflt4, **kw: ann5) -> ret:
    return x
@cdec
class Decorated(base1, base2, kw=kwval):
    @property
    def prop(self) -> 'str':
        return __class__
    @staticmethod
    def sm(a=base1):
        return super
lam = lambda a=d1, /, b=d2, *c, e=d3, **f: (a, b, c, e, f, free)
''',
'''\
def gen1[T: bound, *Ts, **P](a: T, *args: *Ts, **kwargs: P.kwargs) -> T:
    local: T = a
    return local
class Generic1[T, U: (int, str)](Base[T], metaclass=M):
    attr: U
    def meth[V](self, v: V) -> T:
        return v
type Alias1[K] = dict[K, int]
type Alias2 = list[Alias1]
''',
'''\
x = 10
def shadow():
    print(x)
    def deeper():
        global x
        x = 1
        def deepest():
            nonlocal_free = x
            return nonlocal_free
        return deepest
    y = 1
    def rebinding():
        nonlocal y
        y += 1
        del y
    return deeper, rebinding
class Scope:
    x = x
    def m(self):
        return x
    y = [x for _ in range(3)]
    z = lambda self: x
''',
'''\
def annotations(a: A, b: 'B' = bd) -> R:
    v: V = 1
    w: W
    (z): Z = 2
    obj.attr: AT = 3
    arr[idx]: AR = 4
    def inner(c: a = b) -> v:
        d: c
        return d
    return w
class Ann:
    field: F = df
    other: O
''',
'''\
def aug(n):
    total = 0
    total += n
    obj.attr += n
    arr[n] -= total
    fresh *= 2
    def bump():
        nonlocal total
        total |= 1
        other //= n
    return bump
counter <<= 1
''',
'''\
def dels(a, b):
    del a
    del b.c, b[0]
    only_del = 0
    del (only_del), [a2, b2]
    def inner():
        del b
    del never_bound
''',
'''\
def outer2():
    v1 = v2 = v3 = 0
    f = lambda a=v1: lambda b=a, c=v2: [d for d in (v3, a, b, c) if (lambda e=d: e + v1)(d)]
    g = [[k for k in row if k in v1] for row in v2 if row]
    h = {i: {j for j in i} for i in v3}
    return f, g, h, (m for m in (n for n in v1))
''',
'''\
async def agen(src):
    async for item in src:
        yield item
    result = [await c async for c in src if await c]
    more = {k: await v for k, v in src.items()}
    return (await z for z in more)
def gen(src):
    received = yield src
    yield from received
''',
'''\
class Outer:
    a = 1
    class Inner:
        b = a if 'a' in dir() else 0
        def m(self, p=b):
            return p, a
    def f(self):
        class Local(Outer):
            c = self
        return Local
    d = [a for a in range(a)]
''',
'''\
def loops(seq):
    for i in seq:
        for j in i:
            while (k := j):
                break
        else:
            continue
    else:
        i = None
    return [i for i in seq], i, j, k
''',
'''\
def fstr(name, width):
    return f"{name!r:>{width}} {other} {(lambda q: q)(name)} {[w for w in name]}"
def starred(*a, **k):
    first, *rest = a
    print(*rest, **k)
    return [*a, *rest], {**k, 'x': first}
''',
'''\
def g1():
    global late
    late = 1
def g2():
    return late
def g3():
    late = 2
    def g4():
        global late
        return late
    def g5():
        return late
    return g4, g5
late = 0
''',
'''\
def deco_scope():
    helper = 1
    @wrap(helper)
    def target(a=helper):
        helper = 2
        return helper
    @wrap(lambda h=helper: h)
    class T(make(helper)):
        helper = helper
    return target, T
''',
'''\
def subscripts(a, i):
    a[i] = a[i + 1]
    a.b.c = a.b
    a[i].x, a[j] = i, j
    (a.k, [a.l, *a.m]) = i
    return a[i:j:k], a[..., i]
''',
'''\
try:
    import fast as impl
except ImportError as err:
    impl = None
    msg = str(err)
else:
    err2 = None
if impl:
    def use(): return impl, msg
else:
    class use:
        v = impl
''',
'''\
def kwonly(*, a, b=a_default, **rest): return a, b, rest
def posonly(a, b=b_default, /): return a, b
def star(*only): return only
lam1 = lambda *, k=kd: k
lam2 = lambda *a, **k: (a, k)
lam3 = lambda: free_name
lam4 = lambda x: lambda y: lambda z: x + y + z + outer_free
''',
'''\
def cond(a, b):
    r = a if b else c
    s = a and b or not d
    t = a < b <= e != f
    u = [a, b][g:h]
    v = {a: b, **i}
    w = (yield_ for yield_ in j)
    return r, s, t, u, v, w
''',
]
