"""C04 layout mutators: comment / blank-line structures that the shared mutators (harness/layouts.py) do not produce.

Standard library only.  A mutation is accepted only if CPython still parses the text to the same tree (sid equality).

  stmt_trivia     before statements that start their own line, at the statement's indentation, one of
                  `# fN` + blank      (a comment *separated* from the statement by an empty line)
                  `# fN` + blank + `# nN`   (far block, empty line, near block)
                  `# bN` + `# bN'`    (a two-line block)
                  blank + `# gN`      (an empty line, then a comment directly above the statement)
                  `# fN` + two blanks, a lone line continuation `\\`, `# kN` + blank + lone line continuation
                  and after simple one-line statements a following comment line `# aN` (a trailing block)
  bracket_trivia  inside multi-line brackets, before a line that starts with an element: a comment line, or a comment
                  line followed by an empty line
"""

from __future__ import annotations

import ast
import io
import random
import tokenize

from .layouts import _same


def stmt_trivia(src: str, rng: random.Random, p=0.3) -> str:
    try:
        tree = ast.parse(src)
    except SyntaxError:
        return src
    lines = src.split('\n')
    starts, ends = {}, {}
    for n in ast.walk(tree):
        if isinstance(n, ast.stmt):
            ln = n.lineno
            if getattr(n, 'decorator_list', None):
                ln = min(d.lineno for d in n.decorator_list)
            starts.setdefault(ln, n)
            if n.lineno == n.end_lineno and not isinstance(n, (ast.FunctionDef, ast.AsyncFunctionDef, ast.ClassDef, ast.If,
                                                               ast.For, ast.While, ast.With, ast.Try, ast.Match)):
                ends[n.end_lineno] = n
    out = []
    k = 0
    for i, text in enumerate(lines, 1):
        n = starts.get(i)
        first = text.lstrip()
        col = len(text) - len(first)
        if n is not None and first and not first.startswith(('elif ', 'else', 'except', 'finally', 'case ')) and \
                text[:col].strip() == '' and rng.random() < p:
            # the statement must start its physical line (nothing but indentation before it)
            ind = text[:col]
            k += 1
            out += rng.choice(([ind + f'# f{k}', ''], [ind + f'# f{k}', '', ind + f'# n{k}'],
                               [ind + f'# b{k}', ind + f"# b{k}'"], ['', ind + f'# g{k}'],
                               [ind + f'# f{k}', '', ''], [ind + '\\'], [ind + f'# k{k}', '', ind + '\\']))
        out.append(text)
        m = ends.get(i)
        if m is not None and first and text[:col].strip() == '' and m.col_offset == len(text[:col].encode()) and \
                not text.rstrip().endswith(('\\', ':')) and ';' not in text and rng.random() < p / 2:
            k += 1
            out.append(text[:col] + f'# a{k}')
    res = '\n'.join(out)
    return res if _same(src, res) else src


def bracket_trivia(src: str, rng: random.Random, p=0.35) -> str:
    try:
        toks = list(tokenize.generate_tokens(io.StringIO(src).readline))
    except (tokenize.TokenError, IndentationError, SyntaxError):
        return src
    lines = src.split('\n')
    depth = 0
    fs = 0
    spots = set()
    prev = None
    for t in toks:
        if t.type == getattr(tokenize, 'FSTRING_START', -1):
            fs += 1
        elif t.type == getattr(tokenize, 'FSTRING_END', -2):
            fs -= 1
        if fs == 0 and t.type == tokenize.OP:
            if t.string in '([{':
                depth += 1
            elif t.string in ')]}':
                depth -= 1
        if depth > 0 and fs == 0 and prev is not None and prev.type == tokenize.NL and \
                t.type in (tokenize.NAME, tokenize.NUMBER, tokenize.STRING, tokenize.OP) and t.string not in ')]}' and \
                not lines[t.start[0] - 1][:t.start[1]].strip():
            spots.add(t.start[0])
        prev = t
    out = []
    k = 0
    for i, text in enumerate(lines, 1):
        if i in spots and rng.random() < p:
            ind = text[:len(text) - len(text.lstrip())]
            k += 1
            out += rng.choice(([ind + f'# e{k}'], [ind + f'# e{k}', ''], [ind + f'# e{k}', ind + f"# e{k}'"]))
        out.append(text)
    res = '\n'.join(out)
    return res if _same(src, res) else src


def multiline_strings(src: str, rng: random.Random, p=0.12) -> str:
    """Multi-line string *expression statements* before statements inside blocks (this adds statements: the program
    changes, it only has to stay a program).  The docstr option decides which of them may be re-indented with a block."""
    try:
        tree = ast.parse(src)
    except SyntaxError:
        return src
    lines = src.split('\n')
    starts = {}
    for n in ast.walk(tree):
        if isinstance(n, ast.stmt) and n.col_offset > 0 and not getattr(n, 'decorator_list', None):
            starts.setdefault(n.lineno, n)
    out = []
    k = 0
    for i, text in enumerate(lines, 1):
        n = starts.get(i)
        first = text.lstrip()
        col = len(text) - len(first)
        if n is not None and first and text[:col].strip() == '' and n.col_offset == len(text[:col].encode()) and \
                not first.startswith(('elif ', 'else', 'except', 'finally', 'case ')) and rng.random() < p:
            k += 1
            out += [text[:col] + f'"""ms{k}', text[:col] + f'  cont{k}"""']
        out.append(text)
    res = '\n'.join(out)
    try:
        ast.parse(res)
    except SyntaxError:
        return src
    return res


def inject(src: str, seed: int) -> str:
    from .layouts import semicolons
    rng = random.Random(seed * 131 + 7)
    if seed % 3 == 0:  # `;`-joined statement lines first (the comment structures then go around the joined lines)
        src = semicolons(src, rng, p=0.6)
    if seed % 4 == 1:
        src = multiline_strings(src, rng)
    return bracket_trivia(stmt_trivia(src, rng), rng)
