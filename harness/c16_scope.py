"""C16 harness: abstract scope programs (TLC state dump) -> source, and the recorders.

Everything here produces *observations* (what pfst answered) and *oracle facts* (symtable rows, CPython AST structure,
which table / node is which abstract scope).  No verdicts: those are ScopeTrace.tla's.
"""

from __future__ import annotations

import ast
import re
import symtable

# ----------------------------------------------------------------------------------------------------------------------
# TLA+ value reader for `tlc -dump` files (records, sequences, sets, strings, ints, booleans)

_TOK = re.compile(r'\s*(\|->|<<|>>|\[|\]|\{|\}|,|"(?:[^"\\]|\\.)*"|-?\d+|[A-Za-z_][A-Za-z_0-9]*)')


def _parse_value(toks, i):
    t = toks[i]
    if t == '[':
        rec = {}
        i += 1
        while toks[i] != ']':
            key = toks[i]
            assert toks[i + 1] == '|->', toks[i:i + 3]
            rec[key], i = _parse_value(toks, i + 2)
            if toks[i] == ',':
                i += 1
        return rec, i + 1
    if t in ('<<', '{'):
        close = '>>' if t == '<<' else '}'
        seq = []
        i += 1
        while toks[i] != close:
            v, i = _parse_value(toks, i)
            seq.append(v)
            if toks[i] == ',':
                i += 1
        return seq, i + 1
    if t[0] == '"':
        return t[1:-1], i + 1
    if t == 'TRUE':
        return True, i + 1
    if t == 'FALSE':
        return False, i + 1
    return int(t), i + 1


def parse_tla(text: str):
    toks = _TOK.findall(text)
    v, i = _parse_value(toks, 0)
    return v


def read_dump(path: str):
    """Yield {var: value} per state of a TLC plain-format state dump."""
    with open(path) as f:
        text = f.read()
    for block in re.split(r'^State \d+:\s*$', text, flags=re.M)[1:]:
        state = {}
        # variables are printed as `/\ name = value` (several) or `name = value` (one)
        parts = re.split(r'^(?:/\\ )?([A-Za-z_][A-Za-z_0-9]*) = ', block, flags=re.M)
        for k in range(1, len(parts), 2):
            state[parts[k]] = parse_tla(parts[k + 1])
        yield state


# ----------------------------------------------------------------------------------------------------------------------
# rendering an abstract program to source

MARK = 9000  # Constant 9000+s is the first element of the body tuple of lambda / comprehension scope s


class Render:
    """Renders P twice with identical shape: `shared` (the program under test: shared names p000/q000, fresh uNNN) and
    `unique` (one identifier sNNN per site, used only to attribute stdlib AST nodes to sites)."""

    def __init__(self, P: dict, variant: int = 0):
        self.sc = [None] + P['sc']
        self.st = [None] + P['st']
        self.variant = variant
        self.by_c = {}
        for i, t in enumerate(self.st):
            if t:
                self.by_c.setdefault(t['c'], []).append(i)

    def v(self, salt: int, n: int) -> int:
        """Deterministic variant choice in range(n)."""
        return ((self.variant + 1) * 2654435761 + salt * 40503) % 1000003 % n

    def ident(self, i: int) -> str:
        if self.unique:
            return f's{i:03d}'
        n = self.st[i]['n']
        return f'u{i:03d}' if n == 'u' else f'{n}000'

    def sites(self, c, *kinds):
        return [i for i in self.by_c.get(c, ()) if self.st[i]['k'] in kinds]

    def expr(self, i: int) -> str:
        t = self.st[i]
        if t['ch']:
            return self.expr_scope(t['ch'])
        if t['k'] == 'iter1c':  # leftmost iterable that is not a bare name: call / attribute / subscript
            return self.ident(i) + ('(0)', '.a', '[0]')[self.v(i + 17, 3)]
        return self.ident(i)

    def tup(self, items, empty='()'):
        if not items:
            return empty
        if len(items) == 1:
            return items[0]
        return '(' + ', '.join(items) + ')'

    # -- expression scopes ---------------------------------------------------------------------------------------------
    def params(self, s, ann=True):
        pos = self.sites(s, 'param')
        kwo = self.sites(s, 'kwparam')
        va = self.sites(s, 'vararg')
        kw = self.sites(s, 'kwarg')
        dfl = self.sites(s, 'default')
        kdf = self.sites(s, 'kwdefault')
        anns = self.sites(s, 'argann') if ann else []
        order = pos + va + kwo + kw if self.v(s, 2) else pos + kwo + va + kw  # which parameters get the annotations
        annof = dict(zip(order, anns))

        def one(i, prefix='', default=None):
            txt = prefix + self.ident(i)
            if i in annof:
                txt += ': ' + self.expr(annof[i])
            if default is not None:
                txt += (' = ' if i in annof else '=') + self.expr(default)
            return txt

        out = []
        ndef = len(dfl)
        for j, i in enumerate(pos):
            d = dfl[j - (len(pos) - ndef)] if j >= len(pos) - ndef else None
            out.append(one(i, '', d))
            if j == 0 and self.v(s + 7, 3) == 0:
                out.append('/')
        if va:
            out.append(one(va[0], '*'))
        elif kwo:
            out.append('*')
        for j, i in enumerate(kwo):
            out.append(one(i, '', kdf[j] if j < len(kdf) else None))
        if kw:
            out.append(one(kw[0], '**'))
        return ', '.join(out)

    def expr_scope(self, s: int) -> str:
        kind = self.sc[s]['kind']
        mark = str(MARK + s)
        wal = ['(' + self.ident(i) + ' := 0)' for i in self.sites(s, 'walrus')]
        if kind == 'lambda':
            body = [mark] + [self.expr(i) for i in self.sites(s, 'load')] + wal
            p = self.params(s, ann=False)
            return '(\nlambda' + (' ' + p if p else '') + ': (' + ', '.join(body) + ',))'
        wal_in_cond = bool(wal) and self.v(s + 3, 2) == 1
        elt = [mark] + [self.expr(i) for i in self.sites(s, 'elt')] + ([] if wal_in_cond else wal)
        cond = [self.expr(i) for i in self.sites(s, 'cond')] + (wal if wal_in_cond else [])
        target = self.tup([self.ident(i) for i in self.sites(s, 'target')])
        it1 = self.tup([self.expr(i) for i in self.sites(s, 'iter1', 'iter1c')])
        it2 = [self.expr(i) for i in self.sites(s, 'iter2')]
        gens = f' for {target} in {it1}'
        if it2:
            gens += f' for () in {self.tup(it2)}'
        if cond:
            gens += ' if ' + self.tup(cond)
        if kind == 'genexpr':
            return '(\n((' + ', '.join(elt) + ',)' + gens + '))'
        form = self.v(s + 11, 3)
        if form == 0:
            return '(\n[(' + ', '.join(elt) + ',)' + gens + '])'
        if form == 1:
            return '(\n{(' + ', '.join(elt) + ',)' + gens + '})'
        if self.v(s + 19, 2):  # dict comprehension: the element expressions sit in the key or in the value
            return '(\n{(' + ', '.join(elt) + ',): 0' + gens + '})'
        return '(\n{' + mark + ': (' + ', '.join(elt[1:] + ['0']) + ',)' + gens + '})'

    # -- statements ----------------------------------------------------------------------------------------------------
    def body(self, s: int, ind: str) -> list:
        out = []
        for i in self.sites(s, 'global'):
            out.append(f'{ind}global {self.ident(i)}')
        for i in self.sites(s, 'nonlocal'):
            out.append(f'{ind}nonlocal {self.ident(i)}')
        for i in self.by_c.get(s, ()):
            k = self.st[i]['k']
            n = self.ident(i) if self.st[i]['n'] != '-' else None
            vv = self.v(i, 3)
            if k == 'load':
                if n is None:
                    out.append(ind + self.expr(i))
                else:
                    out.append(ind + (n, n + '.a', '-' + n + '[0]')[vv])
            elif k == 'store':
                out.append(ind + (f'{n} = 0', f'({n},) = (0,)', f'[*{n}] = ()')[vv])
            elif k == 'del':
                out.append(ind + (f'del {n}', f'del ({n})', f'del {n}, {n}')[vv])
            elif k == 'aug':
                out.append(ind + (f'{n} += 0', f'{n} |= 0', f'({n}) **= 0')[vv])
            elif k == 'ann':
                out.append(ind + (f'{n}: 0 = 0', f'{n}: 0', f'{n}: 0 = 0')[vv])
            elif k == 'annload':
                out.append(ind + f'(0).a: {self.expr(i)} = 0')
            elif k == 'import':
                out.append(ind + f'import {n}')
            elif k == 'importas':
                out.append(ind + (f'import m0 as {n}', f'import m0.m1 as {n}', f'import m0 as {n}')[vv])
            elif k == 'importdot':
                out.append(ind + f'import {n}.sub')
            elif k == 'from':
                out.append(ind + (f'from m0 import {n}', f'from . import {n}', f'from .m0 import ({n})')[vv])
            elif k == 'fromas':
                out.append(ind + f'from m0 import z0 as {n}')
            elif k == 'exc':
                if vv == 1:
                    out += [f'{ind}try:', f'{ind} pass', f'{ind}except* () as {n}:', f'{ind} pass']
                else:
                    out += [f'{ind}try:', f'{ind} pass', f'{ind}except () as {n}:', f'{ind} pass']
            elif k in ('mcap', 'mstar', 'mrest', 'mas', 'mcls'):
                pat = {'mcap': (n, f'[{n}, 0]', f'{{0: {n}}}'), 'mstar': (f'[*{n}]', f'[0, *{n}]', f'(*{n}, 0)'),
                       'mrest': (f'{{**{n}}}', f'{{0: 0, **{n}}}', f'{{**{n}}}'),
                       'mas': (f'0 as {n}', f'[0 as {n}]', f'(0 | 1) as {n}'),
                       'mcls': (f'{n}()', f'{n}(0)', f'{n}.a')}[k][vv]
                out += [f'{ind}match 0:', f'{ind} case {pat}:', f'{ind}  pass']
            elif k == 'with':
                out += [ind + (f'with 0 as {n}:', f'with 0 as ({n},):', f'with (0 as {n}, 0):')[vv], f'{ind} pass']
            elif k == 'for':
                out += [ind + (f'for {n} in ():', f'for [{n}] in ():', f'for {n}, in ():')[vv], f'{ind} pass']
            elif k == 'walrus':
                out.append(ind + f'({n} := 0)')
            elif k in ('def', 'class'):
                out += self.defn(i, ind)
        out.append(ind + 'pass')
        return out

    def typarams(self, s):
        names = self.sites(s, 'tpname')
        bounds = self.sites(s, 'tpbound')
        if not names:
            return ''
        parts = []
        for j, i in enumerate(names):
            if j < len(bounds):
                parts.append(self.ident(i) + ': ' + self.expr(bounds[j]))
            else:
                parts.append(('', '*', '**')[self.v(i + 5, 3)] + self.ident(i))
        return '[' + ', '.join(parts) + ']'

    def defn(self, i: int, ind: str) -> list:
        s = self.st[i]['ch']
        out = [f'{ind}@{self.expr(d)}' for d in self.sites(s, 'dec')]
        if self.st[i]['k'] == 'def':
            ret = self.sites(s, 'retann')
            head = ('async def ' if self.v(s + 13, 3) == 0 else 'def ') + self.ident(i) + self.typarams(s)
            head += '(' + self.params(s) + ')' + (' -> ' + self.expr(ret[0]) if ret else '') + ':'
        else:
            args = [self.expr(b) for b in self.sites(s, 'base')]
            args += [f'k{j}={self.expr(b)}' for j, b in enumerate(self.sites(s, 'ckw'))]
            head = 'class ' + self.ident(i) + self.typarams(s) + ('(' + ', '.join(args) + ')' if args else '') + ':'
        out.append(ind + head)
        out += self.body(s, ind + ' ')
        return out

    def source(self, unique: bool) -> str:
        self.unique = unique
        return '\n'.join(self.body(1, '')) + '\n'


# ----------------------------------------------------------------------------------------------------------------------
# attribution of stdlib AST nodes to sites (through the `unique` rendering)

SCOPE_EXPR = (ast.Lambda, ast.ListComp, ast.SetComp, ast.DictComp, ast.GeneratorExp)
NAME_BEARING = (ast.Name, ast.arg, ast.alias, ast.FunctionDef, ast.AsyncFunctionDef, ast.ClassDef, ast.ExceptHandler,
                ast.MatchAs, ast.MatchStar, ast.MatchMapping, ast.Global, ast.Nonlocal, ast.TypeVar, ast.ParamSpec,
                ast.TypeVarTuple) + SCOPE_EXPR
NAME_BEARING_NAMES = frozenset(c.__name__ for c in NAME_BEARING)


def node_key(a) -> tuple:
    return (a.__class__.__name__, getattr(a, 'lineno', 0), getattr(a, 'col_offset', 0),
            getattr(a, 'end_lineno', 0), getattr(a, 'end_col_offset', 0))


def borne_name(a):
    """The identifier a node binds or uses by itself (None if none)."""
    if isinstance(a, ast.Name):
        return a.id
    if isinstance(a, ast.arg):
        return a.arg
    if isinstance(a, ast.alias):
        return a.asname or a.name.split('.', 1)[0]
    if isinstance(a, (ast.FunctionDef, ast.AsyncFunctionDef, ast.ClassDef, ast.ExceptHandler, ast.MatchAs, ast.MatchStar,
                      ast.TypeVar, ast.ParamSpec, ast.TypeVarTuple)):
        return a.name
    if isinstance(a, ast.MatchMapping):
        return a.rest
    if isinstance(a, (ast.Global, ast.Nonlocal)):
        return a.names[0] if len(a.names) == 1 else None
    return None


def scope_mark(a):
    """Scope id of a lambda / comprehension node (from the marker constant), else None."""
    if isinstance(a, ast.Lambda):
        e = a.body
    elif isinstance(a, ast.DictComp):
        e = a.key
    elif isinstance(a, (ast.ListComp, ast.SetComp, ast.GeneratorExp)):
        e = a.elt
    else:
        return None
    if isinstance(e, ast.Tuple) and e.elts:
        e = e.elts[0]
    if isinstance(e, ast.Constant) and isinstance(e.value, int) and e.value >= MARK:
        return e.value - MARK
    return None


def attribute(P: dict, src_unique: str):
    """{node key: site index} and {scope id: node key} from the unique rendering (stdlib ast only)."""
    tree = ast.parse(src_unique)
    key2site, scope2key, line2scope = {}, {1: node_key(tree)}, {}
    for a in ast.walk(tree):
        nm = borne_name(a)
        if nm and re.fullmatch(r's\d{3}', nm):
            i = int(nm[1:])
            key2site[node_key(a)] = i
            ch = P['st'][i - 1]['ch']
            if ch and isinstance(a, (ast.FunctionDef, ast.AsyncFunctionDef, ast.ClassDef)):
                scope2key[ch] = node_key(a)
                line2scope[(a.__class__.__name__, a.lineno)] = ch
        s = scope_mark(a)
        if s is not None:
            key2site[node_key(a)] = P['sc'][s - 1]['site']
            scope2key[s] = node_key(a)
            line2scope[('expr', a.lineno)] = s
    return key2site, scope2key, line2scope


# ----------------------------------------------------------------------------------------------------------------------
# oracle: symtable

IMPLICIT = re.compile(r'^(\..*|__class__|__classdict__|__type_params__|__classcell__)$')


def sym_flags(sym) -> list:
    f = []
    if sym.is_referenced():
        f.append('ref')
    if sym.is_assigned():
        f.append('asg')
    if sym.is_parameter():
        f.append('par')
    if sym.is_imported():
        f.append('imp')
    if sym.is_declared_global():
        f.append('glo')
    if sym.is_nonlocal():
        f.append('nl')
    if sym.is_local():
        f.append('loc')
    return f


def abstract_name(ident: str) -> str:
    """Rendered identifier -> name as the specification normalises it (p000 -> p, u012 -> u12)."""
    m = re.fullmatch(r'([pqu])(\d{3})', ident)
    if not m:
        return ident
    return m.group(1) + str(int(m.group(2))) if m.group(1) == 'u' else m.group(1)


def symtable_facts(P: dict, src: str, line2scope: dict):
    """Tables of CPython's symtable attributed to abstract scope references."""
    top = symtable.symtable(src, '<c16>', 'exec')
    tabs = []

    def tp_index(s, tvname):
        names = [i for i, t in enumerate(P['st'], 1) if t['c'] == s and t['k'] == 'tpname']
        for j, i in enumerate(names, 1):
            t = P['st'][i - 1]
            ident = f'u{i:03d}' if t['n'] == 'u' else f'{t["n"]}000'
            if ident == tvname:
                return j
        return 0

    def ref_of(t, parent_ref):
        typ = t.get_type()
        typ = getattr(typ, 'value', typ)
        if typ == 'module':
            return {'t': 's', 's': 1, 'j': 0}
        if typ in ('type parameter', 'type parameters'):
            s = line2scope.get(('FunctionDef', t.get_lineno())) or line2scope.get(('AsyncFunctionDef', t.get_lineno())) \
                or line2scope.get(('ClassDef', t.get_lineno())) or 0
            return {'t': 'tp', 's': s, 'j': 0}
        if typ in ('TypeVar bound', 'type variable', 'TypeVar'):
            return {'t': 'tpb', 's': parent_ref['s'], 'j': tp_index(parent_ref['s'], t.get_name())}
        if typ == 'class':
            return {'t': 's', 's': line2scope.get(('ClassDef', t.get_lineno()), 0), 'j': 0}
        if t.get_name() in ('lambda', 'genexpr', 'listcomp', 'setcomp', 'dictcomp'):
            return {'t': 's', 's': line2scope.get(('expr', t.get_lineno()), 0), 'j': 0}
        s = line2scope.get(('FunctionDef', t.get_lineno())) or line2scope.get(('AsyncFunctionDef', t.get_lineno())) or 0
        return {'t': 's', 's': s, 'j': 0}

    def rec(t, parent_ref):
        r = ref_of(t, parent_ref)
        rows = [{'n': abstract_name(sym.get_name()), 'f': sym_flags(sym)} for sym in t.get_symbols()
                if not IMPLICIT.match(sym.get_name())]
        tabs.append({'r': r, 'par': parent_ref, 'rows': rows})
        for c in t.get_children():
            rec(c, r)

    rec(top, {'t': 'out', 's': 0, 'j': 0})
    return tabs


# ----------------------------------------------------------------------------------------------------------------------
# observations of pfst

CATS = ('load', 'store', 'del', 'global', 'nonlocal', 'local', 'free')


def pfst_observe(P: dict, src: str, key2site: dict, scope2key: dict, FST, filt_classes):
    """What walk(scope=True) and scope_symbols(full=True) answer for every scope node of the program."""
    root = FST(src, 'exec')
    nodes = {}
    for f in root.walk(True):
        nodes.setdefault(node_key(f.a), f)
    obs = []
    for s in sorted(scope2key):
        f = nodes.get(scope2key[s])
        if f is None:
            obs.append({'u': 'scope', 's': s, 'found': False, 'walks': [], 'syms': []})
            continue

        def sites_of(gen):
            out = []
            for g in gen:
                if g is f:
                    continue
                a = g.a
                if a.__class__.__name__ in NAME_BEARING_NAMES and (borne_name(a) is not None or isinstance(a, SCOPE_EXPR)):
                    out.append(key2site.get(node_key(a), 0))
            return sorted(set(out))

        walks = [{'v': 'all', 'sites': sites_of(f.walk(True, scope=True))},
                 {'v': 'dflt', 'sites': sites_of(f.walk(scope=True))},
                 {'v': 'back', 'sites': sites_of(f.walk(True, scope=True, back=True))},
                 {'v': 'filt', 'sites': sites_of(f.walk(filt_classes, scope=True))}]
        ss = f.scope_symbols(full=True)
        syms = []
        for cat in CATS:
            got = []
            for name, fs in ss.get(cat, {}).items():
                for g in fs:
                    i = key2site.get(node_key(g.a), 0)
                    if i:
                        t = P['st'][i - 1]
                        ident = f'u{i:03d}' if t['n'] == 'u' else f'{t["n"]}000'
                        if ident != name:
                            i = 0
                    got.append(i)
            syms.append({'cat': cat, 'sites': sorted(set(got))})
        obs.append({'u': 'scope', 's': s, 'found': True, 'walks': walks, 'syms': syms})
    return obs


def record_program(P: dict, variant: int, FST, filt_classes) -> dict:
    """One (G) trace: the abstract program, CPython's tables for it and pfst's answers."""
    r = Render(P, variant)
    src = r.source(False)
    usrc = r.source(True)
    steps = []
    try:
        key2site, scope2key, line2scope = attribute(P, usrc)
        tabs = symtable_facts(P, src, line2scope)
        valid = True
    except SyntaxError as e:
        steps.append({'u': 'sym', 'valid': False, 'tabs': [], 'err': str(e)[:80]})
        return {'P': P, 'src': src, 'steps': steps}
    steps.append({'u': 'sym', 'valid': valid, 'tabs': tabs})
    steps += pfst_observe(P, src, key2site, scope2key, FST, filt_classes)
    return {'P': P, 'src': src, 'steps': steps}
