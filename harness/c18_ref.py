"""C18: stdlib-only facts for the substitution check.

* grammar tables derived from the `ast` module (list fields, kind categories, element types of fields);
* an independent pure-AST implementation of pfst's *virtual fields* (to turn a captured view into element paths);
* a pure-AST reference transformer (template with its slots filled by deep copies of captured nodes), used ONLY as an
  oracle for "is the requested result valid Python" (ast.unparse + compile) and as a cross-check of spec/Template.tla
  (clause RefAgree); the verdict on pfst is TLC's TemplateRel.

Nothing here imports pfst.
"""

from __future__ import annotations

import ast
import copy
import re

# ----------------------------------------------------------------------------------------------------------------------
# grammar facts

_DOC = re.compile(r'(\w+)([*?]?) (\w+)')

FIELD_TYPES: dict = {}   # kind -> {field: (type, '*'|'?'|'')}
for _name in dir(ast):
    _cls = getattr(ast, _name)
    if isinstance(_cls, type) and issubclass(_cls, ast.AST) and _cls.__doc__ and _cls.__doc__.startswith(_name + '('):
        inner = _cls.__doc__[len(_name) + 1:_cls.__doc__.rindex(')')]
        FIELD_TYPES[_name] = {m.group(3): (m.group(1), m.group(2)) for m in _DOC.finditer(inner)}
    elif isinstance(_cls, type) and issubclass(_cls, ast.AST) and getattr(_cls, '_fields', None) == ():
        FIELD_TYPES.setdefault(_name, {})

LIST_FIELDS = {k: sorted(f for f, (_, q) in v.items() if q == '*') for k, v in FIELD_TYPES.items()}


def kind_cat(kind: str) -> str:
    cls = getattr(ast, kind, None)
    if not isinstance(cls, type):
        return 'other'
    if issubclass(cls, ast.stmt):
        return 'stmt'
    if issubclass(cls, ast.expr):
        return 'expr'
    if cls is ast.keyword:
        return 'keyword'
    if cls is ast.withitem:
        return 'withitem'
    if cls is ast.arguments:
        return 'arguments'
    return 'other'


KIND_CAT = {k: kind_cat(k) for k in FIELD_TYPES}


def field_cat(kind: str, field: str) -> str:
    """Category of the elements of a (possibly virtual) field."""
    if field in ('_args', '_bases'):
        return 'arglike'
    if field == '_all':
        return 'pair' if kind == 'Dict' else 'other'
    if field == '_body':
        return 'stmt'
    ty = FIELD_TYPES.get(kind, {}).get(field, ('?', ''))[0]
    return {'stmt': 'stmt', 'expr': 'expr', 'keyword': 'keyword', 'withitem': 'withitem'}.get(ty, 'other')


# ----------------------------------------------------------------------------------------------------------------------
# paths: tuple of (field, idx | None)

def get(node, path):
    for f, i in path:
        node = getattr(node, f)
        if i is not None:
            node = node[i]
    return node


def _has_docstr(node) -> bool:
    b = getattr(node, 'body', None)
    return (isinstance(node, (ast.Module, ast.FunctionDef, ast.AsyncFunctionDef, ast.ClassDef)) and bool(b)
            and isinstance(b[0], ast.Expr) and isinstance(b[0].value, ast.Constant) and isinstance(b[0].value.value, str))


def velems(node, field):
    """Elements of `node.<field>` (real or virtual) as tuples of relative paths (None = absent component).
    Returns None for virtual fields this check does not model."""
    kind = node.__class__.__name__
    if field in ('_args', '_bases'):
        real = 'args' if field == '_args' else 'bases'
        if not hasattr(node, real):
            return None
        items = [((real, i), e) for i, e in enumerate(getattr(node, real))]
        items += [(('keywords', i), e) for i, e in enumerate(node.keywords)]
        items.sort(key=lambda pe: (pe[1].lineno, pe[1].col_offset))
        return [((p,),) for p, _ in items]
    if field == '_all':
        if kind != 'Dict':
            return None
        return [((('keys', i),) if k is not None else None, (('values', i),)) for i, k in enumerate(node.keys)]
    if field == '_body':
        lo = 1 if _has_docstr(node) else 0
        return [((('body', i),),) for i in range(lo, len(node.body))]
    if field.startswith('_'):
        return None
    v = getattr(node, field, None)
    if not isinstance(v, list):
        return None
    return [(((field, i),),) for i in range(len(v))]


# ----------------------------------------------------------------------------------------------------------------------
# reference transformer

class RefError(Exception):
    """The case is outside the domain of the reference (a slot received something its position does not accept)."""


def slot_tag(n):
    if isinstance(n, ast.Name) and n.id.startswith('__FST_'):
        return n.id[6:]
    if isinstance(n, ast.arg) and n.annotation is None and n.arg.startswith('__FST_'):   # parameter slot
        return n.arg[6:]
    return None


def plain_args(x):
    return (isinstance(x, ast.arguments) and not x.posonlyargs and not x.kwonlyargs and not x.kw_defaults
            and not x.defaults and x.vararg is None and x.kwarg is None)


def _dots(n):
    return isinstance(n, ast.Constant) and n.value == '...'


MISSING = {'t': 'missing', 'cat': 'none', 'el': []}


class Ref:
    """matches: list of {'p': path, 'caps': {tag: {'t','cat','el'}}}, el = [element], element = tuple of comps,
    comp = absolute path | None.  sel: indices into matches.  T: list of template top nodes."""

    def __init__(self, root, T, matches, sel, nested):
        self.root, self.T, self.M, self.nested = root, T, matches, nested
        self.sel_at = {tuple(matches[m]['p']): m for m in sel}
        self.count = 0

    # -- selection geometry
    def below(self, p, strict=False):
        n = len(p)
        return any(q[:n] == p and (not strict or len(q) > n) for q in self.sel_at)

    # -- captures
    def cap(self, m, g):
        return self.M[m]['caps'].get(g, MISSING)

    def cap_t(self, m, g):
        return 'node' if g == '' else self.cap(m, g)['t']

    def cap_cat(self, m, g):
        return kind_cat(get(self.root, self.M[m]['p']).__class__.__name__) if g == '' else self.cap(m, g)['cat']

    def stmt_like(self, m, g):
        return self.cap_t(m, g) == 'missing' or self.cap_cat(m, g) == 'stmt'

    def with_like(self, m, g):
        return self.cap_t(m, g) == 'missing' or self.cap_cat(m, g) == 'withitem'

    # -- items: ('fix', node) ('rec', node, path, skip) ('tmpl', tnode, m)
    def elem_items(self, m, comp, lst):
        if comp is None:
            return [('fix', None)]
        x = get(self.root, comp)
        if not self.nested:
            return [('fix', x)]
        if tuple(comp) == tuple(self.M[m]['p']):
            return [('rec', x, tuple(comp), True)]
        mm = self.sel_at.get(tuple(comp))
        if mm is not None:
            self.count += 1
            return self.top_items(mm, lst)
        return [('rec', x, tuple(comp), False)]

    def cap_items(self, m, g, lst, comp):
        if g == '':
            return self.elem_items(m, tuple(self.M[m]['p']), lst)
        cap = self.cap(m, g)
        if cap['t'] == 'missing':
            return [] if lst else [('fix', None)]
        if cap['t'] not in ('node', 'seq'):
            raise RefError('capture kind ' + cap['t'])
        out = []
        for el in cap['el']:
            out += self.elem_items(m, el[comp - 1] if comp <= len(el) else el[0], lst)
        return out

    def slot_of(self, m, t, fn, j, c):
        g = slot_tag(c)
        pair = (isinstance(t, ast.Dict) and j < len(t.keys) and j < len(t.values) and _dots(t.keys[j])
                and slot_tag(t.values[j]) is not None)
        if g is not None and fn == 'values' and pair:
            return g, 2, 'pair'
        if g is not None and isinstance(c, ast.arg):
            return g, 1, 'args'
        if g is not None:
            return g, 1, 'expr'
        if fn == 'keys' and pair:
            return slot_tag(t.values[j]), 1, 'pair'
        if isinstance(c, ast.Expr) and (g := slot_tag(c.value)) is not None and self.stmt_like(m, g):
            return g, 1, 'stmt'
        if (isinstance(c, ast.withitem) and c.optional_vars is None and (g := slot_tag(c.context_expr)) is not None
                and self.with_like(m, g)):
            return g, 1, 'with'
        return None

    def fits(self, m, t, fn, slot, lst):
        g, _, form = slot
        ty, cat = self.cap_t(m, g), self.cap_cat(m, g)
        kind = t.__class__.__name__
        argf = 'args' if kind == 'Call' else 'bases'
        if ty == 'missing':
            return True
        if form == 'pair':
            return cat == 'pair'
        if form == 'stmt':
            return cat == 'stmt'
        if form == 'with':
            return cat == 'withitem'
        if form == 'args':
            return (ty == 'node' and cat == 'arguments' and fn == 'args' and plain_args(t)
                    and plain_args(get(self.root, self.cap_node(m, g))))
        if ty == 'node':
            return cat == 'expr' or (cat == 'keyword' and kind in ('Call', 'ClassDef') and fn == argf)
        if ty != 'seq' or not lst:
            return False
        return ((cat == 'expr' and kind in ('List', 'Tuple', 'Set', 'Call', 'ClassDef') and fn in ('elts', 'args', 'bases'))
                or (cat in ('arglike', 'keyword') and kind in ('Call', 'ClassDef') and fn == argf))

    def cap_node(self, m, g):
        return tuple(self.M[m]['p']) if g == '' else self.cap(m, g)['el'][0][0]

    def flatten_boolop(self, m, t, fn, g):
        if not (isinstance(t, ast.BoolOp) and fn == 'values' and self.cap_t(m, g) == 'node'):
            return None
        p = tuple(self.M[m]['p']) if g == '' else self.cap(m, g)['el'][0][0]
        if p is None:
            return None
        x = get(self.root, p)
        if isinstance(x, ast.BoolOp) and x.op.__class__ is t.op.__class__:
            return tuple(p), x
        return None

    def slot_expand(self, m, t, fn, j, c, lst):
        s = self.slot_of(m, t, fn, j, c)
        if s is None:
            return [('tmpl', c, m)]
        if not self.fits(m, t, fn, s, lst):
            raise RefError(f'slot {s} in {t.__class__.__name__}.{fn} does not accept the capture')
        g, comp, form = s
        if form == 'expr' and (fb := self.flatten_boolop(m, t, fn, g)) is not None:
            p, x = fb
            out = []
            for i in range(len(x.values)):
                out += self.elem_items(m, p + (('values', i),), True)
            return out
        if form == 'args' and self.cap_t(m, g) == 'node':
            p = tuple(self.cap_node(m, g))
            out = []
            for i in range(len(get(self.root, p).args)):
                out += self.elem_items(m, p + (('args', i),), True)
            return out
        return self.cap_items(m, g, lst or form in ('stmt', 'with', 'pair'), comp)

    def raw_field_items(self, m, t, fn):
        v = getattr(t, fn)
        lst = isinstance(v, list)
        out = []
        for j, c in enumerate(v if lst else [v]):
            if isinstance(c, ast.AST):
                out += self.slot_expand(m, t, fn, j, c, lst)
            else:
                out.append(('fix', c))
        return out

    @staticmethod
    def _is_kw(it):
        return it[0] in ('fix', 'rec') and isinstance(it[1], ast.keyword)

    def tmpl_field_items(self, m, t, fn):
        if isinstance(t, (ast.Call, ast.ClassDef)):
            argf = 'args' if isinstance(t, ast.Call) else 'bases'
            if fn == argf:
                return [it for it in self.raw_field_items(m, t, fn) if not self._is_kw(it)]
            if fn == 'keywords':
                n0 = self.count
                pre = [it for it in self.raw_field_items(m, t, argf) if self._is_kw(it)]
                self.count = n0  # the argument slots were already counted when `args` was expanded
                return pre + self.raw_field_items(m, t, 'keywords')
        return self.raw_field_items(m, t, fn)

    def top_items(self, m, lst):
        mcat = kind_cat(get(self.root, self.M[m]['p']).__class__.__name__)
        if mcat not in ('stmt', 'expr', 'arguments') or any(kind_cat(c.__class__.__name__) != mcat for c in self.T):
            raise RefError('template category does not fit the match')
        if mcat != 'stmt' and len(self.T) != 1:
            raise RefError('expression template must be one node')
        out = []
        for c in self.T:
            g = slot_tag(c)
            if g is not None:
                if not (self.cap_t(m, g) == 'missing' or (self.cap_t(m, g) == 'node' and self.cap_cat(m, g) == 'expr')):
                    raise RefError('top slot')
                out += self.cap_items(m, g, lst, 1)
            elif isinstance(c, ast.Expr) and (g := slot_tag(c.value)) is not None and self.stmt_like(m, g):
                if not lst:
                    raise RefError('statement slot outside a list')
                out += self.cap_items(m, g, lst, 1)
            else:
                out.append(('tmpl', c, m))
        return out

    # -- construction
    def build(self, it):
        if it[0] == 'fix':
            return copy.deepcopy(it[1])
        if it[0] == 'rec':
            return self.rel(it[1], it[2], it[3])
        return self.fill(it[1], it[2])

    def _assign(self, new, old, fn, items):
        if isinstance(getattr(old, fn), list):
            setattr(new, fn, [self.build(it) for it in items])
        else:
            if len(items) != 1:
                raise RefError(f'{len(items)} items for single field {old.__class__.__name__}.{fn}')
            setattr(new, fn, self.build(items[0]))

    def fill(self, t, m):
        new = t.__class__()
        for fn in t._fields:
            if not hasattr(t, fn):
                continue
            if fn == 'ctx':
                new.ctx = t.ctx.__class__()
                continue
            self._assign(new, t, fn, self.tmpl_field_items(m, t, fn))
        return new

    def node_rel(self, x, p):
        new = x.__class__()
        for fn in x._fields:
            if not hasattr(x, fn):
                continue
            v = getattr(x, fn)
            if fn == 'ctx':
                new.ctx = v.__class__()
                continue
            lst = isinstance(v, list)
            items = []
            for j, c in enumerate(v if lst else [v]):
                q = p + ((fn, j if lst else None),)
                if isinstance(c, ast.AST) and q in self.sel_at:
                    self.count += 1
                    items += self.top_items(self.sel_at[q], lst)
                elif isinstance(c, ast.AST):
                    items.append(('rec', c, q, False))
                else:
                    items.append(('fix', c))
            self._assign(new, x, fn, items)
        return new

    def rel(self, x, p, skip):
        if skip:
            return self.node_rel(x, p) if self.below(p, True) else copy.deepcopy(x)
        if not self.below(p):
            return copy.deepcopy(x)
        if p in self.sel_at:
            self.count += 1
            items = self.top_items(self.sel_at[p], False)
            if len(items) != 1:
                raise RefError('root replaced by != 1 node')
            return self.build(items[0])
        return self.node_rel(x, p)

    def run(self):
        return self.rel(self.root, (), False)


def fix_ctx(tree):
    """Give every expression the ctx its position requires (the reference moves Load nodes into Store slots)."""
    def setctx(n, ctx):
        if isinstance(n, (ast.Name, ast.Attribute, ast.Subscript, ast.Starred, ast.List, ast.Tuple)):
            n.ctx = ctx()
            if isinstance(n, ast.Starred):
                setctx(n.value, ctx)
            elif isinstance(n, (ast.List, ast.Tuple)):
                for e in n.elts:
                    setctx(e, ctx)
    for n in ast.walk(tree):
        if isinstance(n, ast.Assign):
            for t in n.targets:
                setctx(t, ast.Store)
        elif isinstance(n, (ast.AugAssign, ast.AnnAssign, ast.For, ast.AsyncFor, ast.comprehension, ast.NamedExpr)):
            setctx(n.target, ast.Store)
        elif isinstance(n, ast.Delete):
            for t in n.targets:
                setctx(t, ast.Del)
        elif isinstance(n, ast.withitem) and n.optional_vars is not None:
            setctx(n.optional_vars, ast.Store)
    return tree


def reference(root, T, matches, sel, nested):
    """-> (expected AST | None, valid: bool, n_substitutions).  None when the case is outside the reference's domain."""
    r = Ref(root, T, matches, sel, nested)
    try:
        exp = r.run()
    except (RefError, RecursionError, AttributeError, IndexError, TypeError):
        return None, False, 0
    ast.fix_missing_locations(exp)
    try:
        src = ast.unparse(exp)
        back = ast.parse(src)
        compile(src, '<c18-ref>', 'exec', dont_inherit=True)
    except (SyntaxError, ValueError, RecursionError, TypeError, AttributeError):
        return exp, False, r.count
    from .proj import Tables
    t = Tables()
    try:
        same = t.sid(back) == t.sid(exp)
    except Exception:  # noqa: BLE001  (a structurally impossible AST, e.g. None where a node is required)
        same = False
    return exp, same, r.count
