"""C05 driver: runs parse calls against the real pfst and records events for spec/ParseTrace.tla.

Observations come from pfst (outcome, returned tree, kept source); oracle facts come from harness/c05_embed.py
(CPython's parse / tokenize of the spec's embeddings).  No verdict is computed here."""

from __future__ import annotations

import ast
import hashlib
import json
import os
import random

from harness import proj
from harness.c05_embed import Embedder, has_tokens, is_blank, lead_trivia
from harness import c05_frags as fr

APIS = ('FST', 'fromsrc', 'parse', 'parse_ast')
GUESSING = ('all', 'strict')
CASES = {'shapes': {}, 'bridges': [], 'multiline': []}


def load_table(path):
    with open(path) as f:
        d = json.load(f)
    global CASES
    CASES = {'shapes': {r['mode']: r for r in d.get('shapes', [])}, 'bridges': d.get('bridges', []),
             'multiline': d.get('multiline', []), 'mlstrings': d.get('mlstrings', []), 'mlnodes': d.get('mlnodes', []),
             'mlslots': {r['mode']: r['slots'] for r in d.get('mlslots', [])}}
    return {r['mode']: r['row'] for r in d['table']}, [tuple(x) for x in d['matrix']]


def api_for(seed, mode, text):
    h = hashlib.md5(f'{seed}|{mode}|{text}'.encode('utf-8', 'surrogatepass')).digest()[0]
    return APIS[0] if h < 112 else APIS[1 + h % 3]


def call_pfst(api, mode, text):
    """-> (outcome, root AST or None, kept source or None, exception description)"""
    import fst
    from fst import FST
    try:
        if api == 'FST':
            f = FST(text, mode)
            return 'tree', f.a, f.src, ''
        if api == 'fromsrc':
            f = FST.fromsrc(text, mode)
            return 'tree', f.a, f.src, ''
        if api == 'parse':
            a = fst.parse(text, mode=mode)
            return 'tree', a, a.f.root.src, ''
        if api == 'parse_ast':
            a = FST.parse_ast(text, mode)
            return 'tree', a, None, ''
        raise AssertionError(api)
    except (SyntaxError, ValueError) as e:
        return 'reject', None, None, f'{type(e).__name__}: {e}'[:160]
    except RecursionError as e:
        return 'reject', None, None, 'RecursionError'
    except Exception as e:  # noqa: BLE001  - a crash is recorded as its own outcome, judged by the spec
        return 'crash', None, None, f'{type(e).__name__}: {e}'[:160]


def record(tab, emb, case, seed):
    """one parse event"""
    mode, text, cat = case['mode'], case['text'], case['cat']
    api = case.get('api') or api_for(seed, mode, text)
    if mode in GUESSING:
        # the guessing modes ('all' = FST(src) / mode None, 'strict'): whatever node they return must be the correct
        # parse of the text in the mode named by that node's own class; a refusal is judged against 'exec'
        outcome, root, src, exc = call_pfst(api, None if mode == 'all' and api in ('FST', 'parse_ast') else mode, text)
        via = mode
        mode = type(root).__name__ if outcome == 'tree' else 'exec'
        if mode not in emb.table:
            mode = 'exec'
        cat = via + ':' + cat
    else:
        outcome, root, src, exc = call_pfst(api, mode, text)
    ev = {'call': 'parse', 'api': api, 'mode': mode, 'cat': cat, 'text': tab.text(text), 'hasTok': has_tokens(text), 'blank': is_blank(text), 'leadTrivia': lead_trivia(text),
          'outcome': outcome, 'exc': exc, 'got': {'hasSrc': False, 'src': 0, 'root': 0}, 'alts': []}
    if outcome == 'tree':
        ev['got']['root'] = 0 if isinstance(root, ast.expr_context) else tab.pid(root)
        if src is not None:
            ev['got']['hasSrc'] = True
            ev['got']['src'] = tab.text(src)
    row = emb.table.get(mode)
    if row is not None:
        facts = emb.facts(mode, text)
        ev['alts'] = [{k: v for k, v in f.items() if k != 'emb'} for f in facts]
        ev['embs'] = [f['emb'] for f in facts]
    return ev


def record_fromast(tab, case):
    from fst import FST
    text, which = case['text'], case['which']
    ev = {'call': 'fromast', 'cat': which, 'mode': 'fromast', 'text': tab.text(text), 'outcome': 'reject', 'exc': '',
          'inS': 0, 'got': {'hasSrc': False, 'src': 0, 'root': 0}, 'srcOk': False, 'srcP': 0}
    m = ast.parse(text)
    a = m if which == 'Module' else m.body[0]
    ev['inS'] = tab.sid(a)
    try:
        f = FST.fromast(a)
    except Exception as e:  # noqa: BLE001
        ev['exc'] = f'{type(e).__name__}: {e}'[:160]
        return ev
    ev['outcome'] = 'tree'
    ev['got'] = {'hasSrc': True, 'src': tab.text(f.src), 'root': tab.pid(f.a)}
    p = proj.try_parse(f.src)
    if p is not None and (which == 'Module' or len(p.body) == 1):
        ev['srcOk'] = True
        ev['srcP'] = tab.pid(p if which == 'Module' else p.body[0])
    return ev


def run_shard(args):
    """Worker: -> batch dict (tables + traces) ; every trace = a chunk of cases"""
    shard_id, table_path, chunks, seed = args
    table, _ = load_table(table_path)
    tab = proj.Tables()
    emb = Embedder(table, tab)
    traces = []
    for tid, cases in chunks:
        steps = []
        for case in cases:
            if case.get('call') == 'fromast':
                steps.append(record_fromast(tab, case))
            else:
                steps.append(record(tab, emb, case, seed))
        traces.append({'id': tid, 'steps': steps})
    return dict(tab.dump(), traces=traces)


# ----------------------------------------------------------------------------------------------------------------------
# planning the cases

STRESS = {'lead-space', 'lead-comment-mb', 'cont-first-line', 'own-parens-lines', 'trail-comment-mb-nl', 'nonascii-name',
          'mb-string-before'}
STMTLIKE = {'stmt', 'exec', 'stmts', 'single', 'ExceptHandler', '_ExceptHandlers', 'match_case', '_match_cases',
            '_decorator_list', 'Module', 'Interactive'}
ELEMENT_KINDS = {'ExceptHandler', 'match_case', 'comprehension', 'arguments', 'arg', 'keyword', 'alias', 'withitem'}


def build_pool(seed, nvariants, progs=None):
    """kind -> [text]  from the corpus programs and their layout variants"""
    from corpus.programs import PROGRAMS as P0
    from corpus.c05_extra import PROGRAMS as P1
    from harness import layouts
    PROGRAMS = list(P1) + list(P0)
    pool = {}
    seen = set()
    for pi, src in enumerate(PROGRAMS if progs is None else progs):
        for v in range(nvariants):
            try:
                s = layouts.variant(src, v, seed + pi)
            except Exception:  # noqa: BLE001
                continue
            for kind, text, hint in fr.program_fragments(s):
                if (kind, text) in seen or not text.strip() or len(text) > 1500:
                    continue
                if 'f"' in text or "f'" in text or 'F"' in text or "F'" in text:
                    if kind in ('FormattedValue',):
                        continue
                seen.add((kind, text))
                pool.setdefault(kind, []).append(text)
    return pool


def modes_admitting(table, kind):
    out = []
    for m, row in table.items():
        if row['shape'] in ('node', 'op') and kind in row['kinds']:
            out.append(m)
        elif row['shape'] == 'list' and (m == kind or (kind in ('_Import_names', '_ImportFrom_names') and m == '_aliases')):
            out.append(m)
    if kind == 'arguments_lambda':
        out = ['arguments_lambda', 'arguments']
    return sorted(out)


def plan(seed, table, matrix, quick, pool):
    rng = random.Random(seed * 7919 + 5)
    cases = []
    named = sorted(m for m, r in table.items() if r['shape'] in ('node', 'op', 'list') and not m[:1].isupper()
                   or m in ('ExceptHandler', 'Tuple', 'Tuple_elt', 'Import_name', 'ImportFrom_name'))
    allmodes = sorted(table)
    per_pair, nvar = (4, 4) if quick else (24, 8)

    # (G) mode x kind matrix of the spec, concretised with corpus fragments in layouts
    for mode, kind in sorted(matrix):
        src_kind = kind
        if table[mode]['shape'] == 'list':
            src_kind = mode if mode != '_aliases' else rng.choice(['_Import_names', '_ImportFrom_names'])
        if mode == 'arguments_lambda':
            src_kind = 'arguments_lambda'
        if kind == 'Expression':
            texts = [t for k in ('BinOp', 'Call', 'Tuple', 'IfExp', 'Compare', 'Lambda', 'Name', 'Constant') for t in pool.get(k, [])]
        elif kind == 'Interactive':
            texts = [t for k in ('If', 'Assign', 'Expr', 'For', 'FunctionDef', 'With', 'Try', 'Return') for t in pool.get(k, [])]
        elif table[mode]['shape'] == 'op':
            cat_ = mode if mode in fr.OPERATOR_TEXTS else _op_cat(table, kind)
            same = [t for t in pool.get(cat_, []) if ' '.join(t.split()) == fr.OP_TEXT[kind]]
            texts = [fr.OP_TEXT[kind]] + rng.sample(same, min(len(same), per_pair))
            if rng.random() < 0.5:
                texts.append(rng.choice(fr.OPERATOR_TEXTS[cat_]))
        if kind not in ('Expression', 'Interactive') and table[mode]['shape'] != 'op':
            texts = pool.get(src_kind, [])
        if not texts:
            continue
        if table[mode]['shape'] == 'op':
            picks = texts
        else:  # half of the picks from the texts with non-ASCII characters (byte columns differ from character columns)
            na = [t for t in texts if not t.isascii()]
            picks = rng.sample(na, min(per_pair // 2, len(na)))
            rest = [t for t in texts if t not in picks]
            picks += rng.sample(rest, min(per_pair - len(picks), len(rest)))
        off = rng.randrange(64)
        for j, t in enumerate(picks):
            vs = fr.variants(t, mode in STMTLIKE or kind in ('Module', 'Interactive') or table[mode]['kinds'][0] in _STMT)
            # round-robin over the layouts, so that the picks of one (mode, kind) pair cover all of them
            rest = vs[1:]
            chosen = [vs[0]] + [rest[(off + j * nvar + i) % len(rest)] for i in range(min(nvar, len(rest)))]
            for vn, vt in chosen:
                cases.append({'mode': mode, 'text': vt, 'cat': 'node:' + vn, 'kind': kind})

    # cross-mode: valid fragments of one kind in modes that (mostly) do not admit them
    kinds = sorted(pool)
    for _ in range(1500 if quick else 20000):
        k = rng.choice(kinds)
        t = rng.choice(pool[k])
        if len(t) > 300:
            continue
        m = rng.choice(named if rng.random() < 0.8 else allmodes)
        cases.append({'mode': m, 'text': t, 'cat': 'cross:' + k, 'kind': k})

    # the guessing modes on fragments of every kind (FST(src) with no mode is 'all')
    for _ in range(500 if quick else 9000):
        k = rng.choice(kinds)
        t = rng.choice(pool[k])
        if len(t) > 400:
            continue
        vs = fr.variants(t, k in _STMT or k in STMTLIKE)
        vn, vt = rng.choice(vs)
        cases.append({'mode': 'all' if rng.random() < 0.75 else 'strict', 'text': vt, 'cat': k + ':' + vn, 'kind': k})

    # boundary family: multi-byte text on the first / last line of wrapped fragments x what follows the last element
    for m, text, cat in fr.boundary_cases(rng, quick, set(table) | set(GUESSING)):
        cases.append({'mode': m, 'text': text, 'cat': cat, 'kind': ''})

    # spec-side case tables (ParseCases.tla): every element shape of every mode x every multi-line layout at every
    # position; <valid element> closer filler opener <valid element> for every bridge.  quick: all named modes, core
    # bridges complete, the rest sampled; thorough: everything, class-name modes included
    for m in sorted(table):
        sh = CASES['shapes'].get(m)
        if not sh or not sh['shapes'] or table[m]['shape'] not in ('node', 'op', 'list'):
            continue
        is_named = m in named
        if quick and not is_named:
            continue
        p_ml = 1.0 if not quick else (1.0 if m in ('Tuple_elt', 'expr', 'pattern') else 0.3)
        if not is_named:
            p_ml = 0.15
        for shp in sh['shapes']:
            for name, text in fr.multiline_layouts(shp, sh['sep'], CASES['multiline']):
                if rng.random() < p_ml:
                    cases.append({'mode': m, 'text': text, 'cat': 'ml:' + name.split('@')[0], 'kind': ''})
        e1, e2 = sh['shapes'][0], sh['shapes'][1]
        for name, text, core in fr.bridge_cases(e1, e2, CASES['bridges']):
            p = (1.0 if core else 0.25) if quick else (1.0 if is_named else (0.5 if core else 0.05))
            if rng.random() < p:
                cases.append({'mode': m, 'text': text, 'cat': name, 'kind': ''})

    # multi-line string dimension (ParseCases.tla MLStrings x MLNodes x MLSlots): complete for the modes whose wrapper
    # indents the fragment, sampled for the others
    for m in sorted(CASES['mlslots']):
        slots = CASES['mlslots'][m]
        if not slots or m not in table:
            continue
        block = m in ('match_case', '_match_cases', 'ExceptHandler', '_ExceptHandlers')
        if quick and m not in named:
            continue
        p = 1.0 if block else (0.2 if quick else (1.0 if m in named else 0.1))
        for slot in slots:
            for nd in CASES['mlnodes']:
                for st in CASES['mlstrings']:
                    if rng.random() < p:
                        text = slot.replace('<E>', nd['s'].replace('<S>', st['s']))
                        cases.append({'mode': m, 'text': text, 'cat': f"mls:{nd['n']}:{st['n']}", 'kind': ''})
    for slot in CASES['mlslots'].get('match_case', []) + CASES['mlslots'].get('ExceptHandler', []):
        for nd in CASES['mlnodes']:
            for st in CASES['mlstrings']:
                if rng.random() < (0.25 if quick else 1.0):
                    text = slot.replace('<E>', nd['s'].replace('<S>', st['s']))
                    cases.append({'mode': 'all', 'text': text, 'cat': f"mls:{nd['n']}:{st['n']}", 'kind': ''})

    # wrapper escapes generated from each mode's own embedding delimiters
    for m in named:
        row = table[m]
        phs = [a['ph'] for a in row['alts'] if a['ph']]
        own = pool.get(m) or pool.get(row['kinds'][0] if row['kinds'] else '', [])
        short = [t for t in own if len(t) <= 80 and '\n' not in t]
        na = [t for t in short if not t.isascii()]
        for rep in range(3 if quick else 10):
            # rep 0: the placeholders; then alternately non-ASCII and any corpus fragment of the mode's own kind
            if rep % 3 == 0 and rep < 3 or not short:
                v1, v2 = (phs[0] if phs else 'a'), (phs[-1] if phs else 'b')
            elif rep % 3 == 1 and na:
                v1, v2 = rng.choice(na), rng.choice(short)
            else:
                v1, v2 = rng.choice(short), rng.choice(na or short)
            for name, text in fr.escapes(row, v1, v2):
                cases.append({'mode': m, 'text': text, 'cat': name, 'kind': ''})

    # the repository's own invalid-source inputs (inputs only)
    inv = fr.invalid_src_inputs()
    for s in inv:
        for m in named:
            cases.append({'mode': m, 'text': s, 'cat': 'invalid-src', 'kind': ''})

    # token deletion / insertion mutants of valid fragments, in the modes that admitted the original
    for _ in range(400 if quick else 9000):
        k = rng.choice(kinds)
        t = rng.choice(pool[k])
        if len(t) > 200:
            continue
        ms = modes_admitting(table, k)
        if not ms:
            continue
        for name, text in fr.token_mutants(t, rng, 2):
            cases.append({'mode': rng.choice(ms), 'text': text, 'cat': name, 'kind': k})

    # fromast(ast.parse(text))
    for k in ('Module',) + tuple(sorted(_STMT & set(pool))):
        ts = pool.get(k, [])
        for t in rng.sample(ts, min(len(ts), 2 if quick else 12)):
            if proj.try_parse(t) is not None and (k == 'Module' or len(proj.try_parse(t).body) == 1):
                cases.append({'call': 'fromast', 'text': t, 'which': 'Module' if k == 'Module' else 'stmt', 'mode': 'fromast',
                              'cat': k, 'kind': k})

    # texts the JSON / TLC pipeline cannot carry (lone surrogates) are not inputs
    ok = []
    seen = set()
    for c in cases:
        try:
            c['text'].encode('utf-8')
        except UnicodeEncodeError:
            continue
        key = (c.get('call'), c['mode'], c['text'])
        if key in seen or '\x00' in c['text'] or '\r' in c['text'] or '\f' in c['text']:
            continue
        seen.add(key)
        ok.append(c)
    return ok


_STMT = {'FunctionDef', 'AsyncFunctionDef', 'ClassDef', 'Return', 'Delete', 'Assign', 'TypeAlias', 'AugAssign',
         'AnnAssign', 'For', 'AsyncFor', 'While', 'If', 'With', 'AsyncWith', 'Match', 'Raise', 'Try', 'TryStar',
         'Assert', 'Import', 'ImportFrom', 'Global', 'Nonlocal', 'Expr', 'Pass', 'Break', 'Continue'}


def _op_cat(table, kind):
    for m in ('boolop', 'operator', 'unaryop', 'cmpop'):
        if kind in table[m]['kinds']:
            return m
    return 'operator'
