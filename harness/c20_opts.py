"""C20 driver: option store / per-call options / thread isolation of pfst.

Everything here only *drives* pfst and records what it answered (observations) plus facts from tables transcribed from
the documentation (`FST.options()` docstring, docs/d10_options); verdicts are computed by TLC (spec/OptionsTrace.tla).

Pieces
- documented catalogue of option names, defaults, valid / invalid values
- `probe(...)`: tiny operations whose result text depends on one option each (the "any API call" of Options!Call)
- an interpreter of option/edit commands that uses a real `with FST.options(...)` per block (real exceptions unwind)
- step controller (direction G): real threads driven command by command, and yield points inside calls
- free-running stress (direction V)
- logging wrapper of `fst.fst_core._MODIFYING` (auxiliary; degrades to nothing if the private name disappears)
"""

from __future__ import annotations

import ast
import itertools
import os
import queue
import random
import re
import sys
import threading
import time

from fst import FST  # the implementation under test

# ----------------------------------------------------------------------------------------------------------------------
# documented catalogue (docs/d10_options "Global defaults", FST.options() docstring) - NOT read from pfst at run time

DEFAULTS = {
    'raw': False, 'trivia': True, 'coerce': True, 'promote': True, 'elif_': True, 'pep8space': True, 'docstr': True,
    'pars': 'auto', 'pars_walrus': False, 'pars_arglike': True, 'norm': False, 'norm_self': None, 'norm_get': None,
    'set_norm': 'star', 'op_side': 'left', 'op': None, 'args_as': None,
}
OPTION_NAMES = list(DEFAULTS)

VALID = {  # first entry is the default
    'raw': [False, True, 'auto'],
    'trivia': [True, False, 'all', 'block', 'none', 'all+1', 'block-2', 'none+', '+1', 3, (), ('line',), ('all', 'block'),
               ('block+1', 'line'), (False, 'all-1'), (2, 5), ('block', 'line'), ('all+1', 'block-1'), (False, 'all'),
               ('block', False)],
    'coerce': [True, False],
    'promote': [True, False, 'identifier', 'all'],
    'elif_': [True, False],
    'pep8space': [True, False, 1],
    'docstr': [True, False, 'strict'],
    'pars': ['auto', True, False],
    'pars_walrus': [False, True, None],
    'pars_arglike': [True, False, None],
    'norm': [False, True, 'star', 'call'],
    'norm_self': [None, True, False, 'star', 'call'],
    'norm_get': [None, True, False, 'star', 'call'],
    'set_norm': ['star', 'call'],
    'op_side': ['left', 'right'],
    'op': [None, '==', 'is not', '<'],     # + the mutable forms, see MUTABLE_KINDS
    'args_as': [None, 'pos', 'arg', 'kw', 'arg_only', 'kw_only', 'pos_maybe', 'arg_maybe', 'kw_maybe'],
}
INVALID = {
    'raw': ['x', 1, None],
    'trivia': ['bogus', 'line', ('line', False), (1, 2, 3), None, 1.5, ('all', 'x'), ['all']],
    'coerce': [None, 1, 'yes'],
    'promote': ['x', None, 1],
    'elif_': [None, 2, 'x'],
    'pep8space': [2, None, 'x', 7],
    'docstr': ['maybe', None, 1],
    'pars': ['x', None, 1],
    'pars_walrus': ['auto', 1, 'x'],
    'pars_arglike': ['auto', 0],
    'norm': [None, 'bad', 1],
    'norm_self': ['bad', 1],
    'norm_get': ['bad', 1],
    'set_norm': [True, None, 'x'],
    'op_side': ['middle', None, True],
    'op': [5, 1.5, (1,)],
    'args_as': ['nonsense', True, 1],
}
# names that are not global options ('to' / 'ins_ln' are documented as call-time only: "they cannot be set globally")
UNKNOWN_GLOBAL = ['nosuchoption', 'to', 'ins_ln', 'Pars', 'pars_', '__options_checked', 'option', 'trivia_']
UNKNOWN_CALL = ['nosuchoption', 'Pars', 'pars_', 'option', 'trivia_']   # private '__' marker names are outside the domain
# options whose thread default may be anything while random edit scripts run (raw is C10's domain)
EDIT_STORE_OPTS = [o for o in OPTION_NAMES if o != 'raw']


# ----------------------------------------------------------------------------------------------------------------------
# option values are references (Options.tla: value = cell id, heap : id -> contents). Immutable values are their own
# cell (id = content text, never writable); lists / AST / FST objects are *mutable cells* created afresh for every run
# of a script from a spec, passed by reference - the same object to several calls, into the thread defaults, into blocks.

class CellRef:
    """Placeholder in a command's kwargs for the run's own object of cell `id`."""
    __slots__ = ('id',)

    def __init__(self, id_):
        self.id = id_

    def __repr__(self):
        return f'CellRef({self.id})'


def cell_spec(id_, option, kind, init, valid=True):
    return {'id': id_, 'option': option, 'kind': kind, 'init': init, 'valid': valid}


def make_cell(spec):
    k = spec['kind']
    if k == 'list':
        return list(spec['init'])
    if k == 'ast':
        return getattr(ast, spec['init'])()
    if k == 'fst':
        return FST(spec['init'], 'cmpop')
    raise AssertionError(k)


# documented mutable forms: `op`: "FST | cmpop | type[cmpop] | str | list[str]"; a list is NOT a valid `trivia`
MUTABLE_KINDS = {
    'op': [('list', ['is not']), ('list', ['not in']), ('list', ['>=']), ('list', ['is # c', '']), ('ast', 'IsNot'),
           ('ast', 'NotIn'), ('fst', 'is not'), ('fst', '!=')],
}
MUTABLE_INVALID = {'trivia': [('list', ['all'])], 'op_side': [('list', ['left'])]}


def vrepr(v) -> str:
    """Type-strict, ASCII, *deep* rendering of an option value (True and 1 must not compare equal; a list is rendered by
    its contents, an FST / AST object by its source / dump)."""
    if isinstance(v, FST):
        try:
            return 'FST(' + ascii(v.src) + ', ' + type(v.a).__name__ + ', root=' + str(v.is_root) + ')'
        except Exception as e:  # noqa: BLE001
            return 'FST(!' + type(e).__name__ + ')'
    if isinstance(v, ast.AST):
        return 'AST(' + ast.dump(v) + ')'
    if isinstance(v, (list, tuple)) and any(isinstance(x, (FST, ast.AST, list)) for x in v):
        return type(v).__name__ + '(' + ', '.join(vrepr(x) for x in v) + ')'
    return ascii(v)


def cell_text(spec, obj) -> str:
    return ('' if spec['valid'] else '!bad:') + vrepr(obj)


def pairs(d) -> list:
    return [[k, vrepr(d[k])] for k in sorted(d)]


def snap() -> list:
    """The calling thread's option defaults through the public accessor, as a deep snapshot."""
    try:
        return pairs(FST.get_options())
    except Exception as e:  # noqa: BLE001
        return [['!error', type(e).__name__]]


def resolve(kw: dict, cells: dict) -> dict:
    return {n: (cells[v.id] if isinstance(v, CellRef) else v) for n, v in kw.items()}


def mjson(kw: dict, unknown=(), specs=None) -> list:
    """Arguments of set_options/options()/per-call **options with the documented classification of every entry. `v` is
    the cell: the content text for an immutable value, the cell id for a mutable object."""
    out = []
    for n, v in kw.items():
        known = n in DEFAULTS and n not in unknown
        if isinstance(v, CellRef):
            sp = (specs or {})[v.id]
            out.append({'n': n, 'v': v.id, 'known': known, 'valid': known and sp['valid'] and sp['option'] == n})
            continue
        valid = known and any(vrepr(v) == vrepr(x) for x in VALID[n])
        out.append({'n': n, 'v': vrepr(v) if valid or not known else '!bad:' + vrepr(v), 'known': known, 'valid': valid})
    return out


def classifiable(kw: dict) -> bool:
    """Is every entry either an undocumented name or a value listed in the documented tables above?"""
    for n, v in kw.items():
        if isinstance(v, CellRef):
            continue
        if n in DEFAULTS and not any(vrepr(v) == vrepr(x) for x in VALID[n] + INVALID[n]):
            return False
    return True


def scrub(s: str) -> str:
    return re.sub(r'0x[0-9a-fA-F]+', '0x', s)[:300].encode('ascii', 'backslashreplace').decode()


# ----------------------------------------------------------------------------------------------------------------------
# probes: small real API calls, each sensitive to one option (result text is the observation)

def _p_pars(o):
    f = FST('x = b', 'exec')
    f.body[0].value.replace(FST('(a)', 'expr'), **o)
    return f.src + '|' + FST('y = (c)', 'exec').body[0].value.copy(**o).src


def _p_trivia(o):
    f = FST('# c1\n\n# c2\nx  # t\n# post\ny', 'exec')
    g = f.body[0].cut(**o)
    return g.src + '|' + f.src


def _p_norm(o):
    f = FST('{a}', 'exec')
    f.body[0].value.put_slice(None, 0, 1, **o)
    g = FST('[{a}]', 'exec').body[0].value.elts[0].get_slice(0, 1, cut=True, **o)
    return f.src + '|' + g.root.src


def _p_pep8(o):
    f = FST('x\ny', 'exec')
    f.put_slice('def f(): pass', 1, 1, 'body', **o)
    return f.src


def _p_elif(o):
    f = FST('if a: pass\nelse: pass', 'exec')
    f.body[0].put_slice('if b: pass', 0, 1, 'orelse', **o)
    return f.src


def _p_walrus(o):
    return FST('x = [a := b]', 'exec').body[0].value.elts[0].copy(**o).src


def _p_arglike(o):
    return FST('f(*not a)', 'exec').body[0].value.args[0].copy(**o).src


def _p_docstr(o):
    return FST('if a:\n    """doc\n    more"""\n    x', 'exec').body[0].body[0].copy(**o).src


def _p_opside(o):
    f = FST('a < b > c', 'exec')
    f.body[0].value.put_slice(None, 1, 2, **o)
    return f.src


def _p_promote(o):
    r = FST('global a, b', 'exec').body[0].get(0, 'names', **o)
    return type(r).__name__


def _p_coerce(o):
    f = FST('f(a)', 'exec')
    f.body[0].value.put_slice(FST('x', 'expr'), 0, 1, 'args', **o)
    return f.src


def _p_raw(o):
    f = FST('x = 1', 'exec')
    f.body[0].put('y, z', field='value', **o)
    return f.src


def _p_args_as(o):
    return FST('def f(a, /, b, *, c): pass', 'exec').body[0].args.get_slice(0, 3, **o).src


def _p_op(o):
    f = FST('a < b', 'exec')
    f.body[0].value.put_slice('c', 2, 2, **o)
    return f.src


def _p_cmp(o):
    """Compare slices consume `op` / `op_side`: insertions with and without a dangling operator, deletions."""
    out = []
    for src, code, a, b in (('a < b', 'x', 1, 1), ('a < b', 'x', 2, 2), ('a < b', 'x', 0, 0), ('a < b', 'x >', 1, 1),
                            ('a < b', '> x', 1, 1), ('a < b > c', None, 1, 2), ('a < b > c', None, 0, 1),
                            ('a < b > c', 'x', 1, 2)):
        f = FST(src, 'exec')
        try:
            f.body[0].value.put_slice(code, a, b, **o)
            out.append(f.src)
        except Exception as e:  # noqa: BLE001
            out.append('!' + type(e).__name__)
    return ';'.join(out)


def _p_boolop(o):
    out = []
    for src, code, a, b in (('a and b and c', None, 1, 2), ('a and b', 'x', 1, 1), ('a or b', 'x or', 0, 0),
                            ('a or b', 'or x', 2, 2), ('a and b and c', 'x', 0, 2)):
        f = FST(src, 'exec')
        try:
            f.body[0].value.put_slice(code, a, b, **o)
            out.append(f.src)
        except Exception as e:  # noqa: BLE001
            out.append('!' + type(e).__name__)
    return ';'.join(out)


def _p_args_put(o):
    out = []
    for src, code, a, b in (('def f(a, b): pass', 'c, d=1', 2, 2), ('def f(a, /, b): pass', 'c', 0, 1),
                            ('def f(*, a): pass', 'c', 0, 0)):
        f = FST(src, 'exec')
        try:
            f.body[0].args.put_slice(code, a, b, **o)
            out.append(f.src)
        except Exception as e:  # noqa: BLE001
            out.append('!' + type(e).__name__)
    return ';'.join(out)


_RECONCILE_BANNED = ('raw', 'trivia', 'coerce', 'docstr', 'pars', 'pars_walrus', 'pars_arglike', 'norm', 'norm_self', 'norm_get')


def _p_reconcile(o):
    """reconcile() sets ten options for its own duration (documented: they may not be passed); one run succeeds, one
    fails half-way - either way the caller's defaults must be what they were."""
    o = {k: v for k, v in o.items() if k not in _RECONCILE_BANNED}
    f = FST('i = 1\nj = 2', 'exec').mark()
    f.a.body[0].value = ast.Name(id='t')
    g = f.reconcile(**o)
    h = FST('k = 1', 'exec').mark()
    h.a.body[0].value = ast.Name(id='not a name')
    try:
        h.reconcile(**o)
        r = 'ok'
    except Exception as e:  # noqa: BLE001
        r = '!' + type(e).__name__
    return g.src + '|' + r


PROBES = [('pars', _p_pars), ('trivia', _p_trivia), ('norm', _p_norm), ('pep8space', _p_pep8), ('elif_', _p_elif),
          ('pars_walrus', _p_walrus), ('pars_arglike', _p_arglike), ('docstr', _p_docstr), ('op_side', _p_opside),
          ('promote', _p_promote), ('coerce', _p_coerce), ('raw', _p_raw), ('args_as', _p_args_as), ('op', _p_op),
          ('reconcile', _p_reconcile), ('cmp', _p_cmp), ('boolop', _p_boolop), ('args_put', _p_args_put)]
PROBE_FOR = {'pars': [0, 5, 6], 'trivia': [1], 'norm': [2], 'norm_self': [2], 'norm_get': [2], 'set_norm': [2],
             'pep8space': [3], 'elif_': [4], 'pars_walrus': [5], 'pars_arglike': [6], 'docstr': [7],
             'promote': [9], 'coerce': [10], 'raw': [11], 'args_as': [12, 17], 'op': [13, 15], 'op_side': [8, 15, 16]}


def probe(idxs, overlay: dict) -> str:
    out = []
    for i in idxs:
        try:
            out.append(PROBES[i][1](overlay))
        except Exception as e:  # noqa: BLE001
            out.append('!' + type(e).__name__ + ':' + scrub(str(e)))
    return '\x1e'.join(out)


_REF_CACHE = {}
_REF_LOCK = threading.Lock()


def probe_ref(idxs, eff: dict) -> str:
    """Reference: the same probes in a fresh thread whose *defaults* are the effective options, nothing passed per call
    (serial, alone)."""
    key = (tuple(idxs), tuple(sorted((k, vrepr(v)) for k, v in eff.items())))
    with _REF_LOCK:
        if key in _REF_CACHE:
            return _REF_CACHE[key]
    box = []

    def run():
        try:
            FST.set_options(**eff)
            box.append(probe(idxs, {}))
        except Exception as e:  # noqa: BLE001
            box.append('!ref:' + type(e).__name__ + ':' + scrub(str(e)))

    t = threading.Thread(target=run)
    t.start()
    t.join()
    with _REF_LOCK:
        _REF_CACHE[key] = box[0]
    return box[0]


# ----------------------------------------------------------------------------------------------------------------------
# read-only consumers of options on LONG-LIVED nodes (their per-node memo stays warm across calls, blocks, threads).
# Law (OptionsRead.tla, ReadAnswer): the answer depends only on the node's source and the effective options of that call
# - observed as: the same call, at the same moment, on a tree freshly built from the same source answers the same.

READ_SRC = '''import os  # first

# lead
g = 1  # tail
# post

class cls:
    def f(self):
        """doc
        string"""
        x = """not
        doc"""
        """expr
        string"""
        return x

s = {a}
v = (b)
w = [c := d]
r = call(*not e, k=1)
def h(a, /, b, *, c): pass
def gl():
    global m, n
if p:
    pass
else:
    if q: pass
t = a < b > c
'''

_ALL = tuple(DEFAULTS)
# (name, node of the tree, option names the call accepts per call, the call)
READS = [
    ('own_src', lambda r: r.body[2].body[0], ('docstr',), lambda n, kw: n.own_src(**kw)),
    ('own_lines', lambda r: r.body[2].body[0], ('docstr',), lambda n, kw: '\n'.join(n.own_lines(**kw))),
    ('own_src.cls', lambda r: r.body[2], ('docstr',), lambda n, kw: n.own_src(**kw)),
    ('unparse', lambda r: r.body[2].body[0], (), lambda n, kw: __import__('fst').unparse(n.a)),
    ('copy.def', lambda r: r.body[2].body[0], _ALL, lambda n, kw: n.copy(**kw).src),
    ('copy.stmt', lambda r: r.body[1], _ALL, lambda n, kw: n.copy(**kw).src),
    ('copy.par', lambda r: r.body[4].value, _ALL, lambda n, kw: n.copy(**kw).src),
    ('copy.walrus', lambda r: r.body[5].value.elts[0], _ALL, lambda n, kw: n.copy(**kw).src),
    ('copy.arglike', lambda r: r.body[6].value.args[0], _ALL, lambda n, kw: n.copy(**kw).src),
    ('get_slice.set', lambda r: r.body[3].value, _ALL, lambda n, kw: n.get_slice(0, 0, **kw).src + '|' + n.get_slice(0, 1, **kw).src),
    ('get_slice.args', lambda r: r.body[7].args, _ALL, lambda n, kw: n.get_slice(0, 3, **kw).src),
    ('get.names', lambda r: r.body[8].body[0], _ALL, lambda n, kw: type(n.get(0, 'names', **kw)).__name__),
    ('get_slice.cmp', lambda r: r.body[10].value, _ALL, lambda n, kw: n.get_slice(1, 2, **kw).src),
    ('get_slice.body', lambda r: r.body[2].body[0], _ALL, lambda n, kw: n.get_slice(0, 3, 'body', **kw).src),
    ('copy.orelse', lambda r: r.body[9].orelse[0], _ALL, lambda n, kw: n.copy(**kw).src),
]
# per-call option worth passing to each read (it changes the answer)
READ_SENSITIVE = {
    'own_src': ['docstr'], 'own_lines': ['docstr'], 'own_src.cls': ['docstr'], 'unparse': [], 'copy.def': ['docstr', 'trivia'],
    'copy.stmt': ['trivia'], 'copy.par': ['pars'], 'copy.walrus': ['pars_walrus', 'pars'], 'copy.arglike': ['pars_arglike', 'pars'],
    'get_slice.set': ['norm_get', 'norm', 'set_norm'], 'get_slice.args': ['args_as'], 'get.names': ['promote'],
    'get_slice.cmp': ['op_side'], 'get_slice.body': ['docstr', 'trivia'], 'copy.orelse': ['elif_', 'trivia'],
}


class ReadTree:
    """A tree that lives as long as the run; the node objects are resolved once and reused for every read."""

    def __init__(self):
        self.root = FST(READ_SRC, 'exec')
        self.nodes = [path(self.root) for _, path, _, _ in READS]


_SHARED = {'tree': None}


def shared_tree(new=False):
    if new or _SHARED['tree'] is None:
        _SHARED['tree'] = ReadTree()
    return _SHARED['tree']


def do_read(tree: ReadTree, q: int, kw: dict):
    """-> (answer on the long-lived node, answer of the same call on a tree freshly built from the same source)"""
    name, path, params, call = READS[q]
    kw = {k: v for k, v in kw.items() if k in params}

    def run(node):
        try:
            return call(node, kw)
        except Exception as e:  # noqa: BLE001
            return '!' + type(e).__name__ + ':' + scrub(str(e))

    return run(tree.nodes[q]), run(path(FST(READ_SRC, 'exec')))


# ----------------------------------------------------------------------------------------------------------------------
# registry log (auxiliary, PFST_VERIF=1 only)

_TL = threading.local()


def logical_tid():
    return _TL.__dict__.get('tid', 0)


class RegLog(dict):
    """dict subclass logging every write to the modification registry with the logical thread that made it."""

    def __init__(self):
        super().__init__()
        self.by_thread = {}
        self.roots = {}
        self.nodes = {}
        self._rs = itertools.count(1)
        self._ns = itertools.count(1)

    def _root(self, root, tid):
        r = self.roots.get(id(root))
        if r is None or r[1] is not root:
            r = self.roots[id(root)] = (next(self._rs), root, tid)   # serial, strong reference, first toucher = owner
        return r

    def _node(self, node):
        r = self.nodes.get(id(node))
        if r is None or r[1] is not node:
            r = self.nodes[id(node)] = (next(self._ns), node)
        return r[0]

    def _log(self, op, root, node, count):
        tid = logical_tid()
        ser, _, owner = self._root(root, tid)
        self.by_thread.setdefault(tid, []).append({'op': op, 'root': ser, 'node': node, 'count': count, 'owner': owner})

    def __setitem__(self, root, val):
        try:
            self._log('set', root, self._node(val[0]), int(val[1]))
        except Exception:  # noqa: BLE001
            pass
        dict.__setitem__(self, root, val)

    def __delitem__(self, root):
        try:
            self._log('del', root, 0, 0)
        except Exception:  # noqa: BLE001
            pass
        dict.__delitem__(self, root)

    def mark(self, tid):
        return len(self.by_thread.get(tid, ()))

    def since(self, tid, mark):
        return list(self.by_thread.get(tid, ())[mark:])

    def reset(self):
        self.by_thread.clear()
        self.roots.clear()
        self.nodes.clear()


_REGLOG = None


def install_reglog():
    """Replace fst.fst_core._MODIFYING by a logging dict (only with PFST_VERIF=1). Returns the log or None."""
    global _REGLOG
    if _REGLOG is not None:
        return _REGLOG
    if os.environ.get('PFST_VERIF') != '1':
        return None
    try:
        from fst import fst_core
        cur = getattr(fst_core, '_MODIFYING', None)
        if type(cur) is not dict or cur:
            return None
        _REGLOG = RegLog()
        fst_core._MODIFYING = _REGLOG
    except Exception:  # noqa: BLE001
        _REGLOG = None
    return _REGLOG


# ----------------------------------------------------------------------------------------------------------------------
# yield points inside calls (steering only, PFST_VERIF=1): _Modifying.enter/success/fail and FST.get_option

_HOOKS = {'installed': False, 'ok': False}


def _point(tag):
    st = _TL.__dict__.get('stepper')
    if st is not None:
        st(tag)


def install_yield_hooks() -> bool:
    if _HOOKS['installed']:
        return _HOOKS['ok']
    _HOOKS['installed'] = True
    if os.environ.get('PFST_VERIF') != '1':
        return False
    try:
        from fst import fst_core
        M = getattr(fst_core, '_Modifying', None)
        n = 0
        for name in ('enter', 'success', 'fail'):
            orig = getattr(M, name, None)
            if orig is None:
                continue

            def wrapped(self, *a, __orig=orig, __name=name, **kw):
                _point('pre-' + __name)
                try:
                    return __orig(self, *a, **kw)
                finally:
                    _point('post-' + __name)

            setattr(M, name, wrapped)
            n += 1
        go = FST.__dict__.get('get_option')
        if isinstance(go, staticmethod):
            f = go.__func__

            def get_option(option, options={}, __f=f):  # noqa: B006
                _point('get_option')
                return __f(option, options)

            FST.get_option = staticmethod(get_option)
            n += 1
        _HOOKS['ok'] = n > 0
    except Exception:  # noqa: BLE001
        _HOOKS['ok'] = False
    return _HOOKS['ok']


# ----------------------------------------------------------------------------------------------------------------------
# random edit steps on the thread's own trees (reuses the shared edit driver; no oracle verdicts needed here)

def _edit_tools():
    from harness import edits
    from harness.proj import Tables
    return edits, Tables


def tree_digest(root) -> str:
    try:
        d = ast.dump(root.a, include_attributes=True)
    except Exception as e:  # noqa: BLE001
        d = '!dump:' + type(e).__name__
    return root.src + '\x1f' + d


class Env:
    """Per-thread world: own trees, own Tables for the edit driver."""

    def __init__(self, srcs):
        self.srcs = list(srcs)
        self.roots = [FST(s, 'exec') for s in srcs]
        self.edits, Tables = _edit_tools() if srcs else (None, None)
        self.tab = Tables() if srcs else None

    def edit(self, i, seed, corrupt_p=0.25):
        edits = self.edits
        rng = random.Random(seed)
        root = self.roots[i]
        plan = None
        try:
            for _ in range(5):
                plan = edits.plan_edit(rng, root.a)
                if plan is not None:
                    break
            if plan is None:
                raise LookupError('no target')
            if rng.random() < corrupt_p:
                plan = edits.corrupt_plan(rng, plan)
            o = edits.oracle(plan, root.src, self.tab)
        except Exception as e:  # noqa: BLE001  (tree left the parsable domain under exotic defaults: start a new one)
            self.roots[i] = FST(self.srcs[i], 'exec')
            return {'outcome': 'reset', 'exc': type(e).__name__, 'res': tree_digest(self.roots[i]), 'opts': {},
                    'desc': 'reset'}
        exc = edits.execute(plan, root, o, rng)
        return {'outcome': 'ok' if exc is None else 'raise', 'exc': '' if exc is None else type(exc).__name__,
                'res': tree_digest(root) + ('' if exc is None else '\x1f' + scrub(str(exc))),
                'opts': dict(plan.opts), 'desc': f'{plan.kind}.{plan.field}/{plan.form}/{plan.op}/{plan.corrupt or ""}'}


# concrete form of Threads!Edit(r, n, o, ov, fault): reset statement n of the thread's tree to a fixed text, then one
# edit whose result depends on option o (given per call in `kw` or taken from the thread's defaults)
TEDIT = {
    'pars': ('x = b', lambda st, kw: st.value.replace(FST('(a)', 'expr'), **kw)),
    'norm': ('s = {a}', lambda st, kw: st.value.put_slice(None, 0, 1, **kw)),
    'elif_': ('if a: pass\nelse: pass', lambda st, kw: st.put_slice('if b: pass', 0, 1, 'orelse', **kw)),
    'pep8space': ('y = 1', lambda st, kw: st.replace('def f(): pass', **kw)),
    'op_side': ('c = a < b > c', lambda st, kw: st.value.put_slice(None, 1, 2, **kw)),
    'coerce': ('f(a)', lambda st, kw: st.value.put_slice(FST('x', 'expr'), 0, 1, 'args', **kw)),
    'trivia': ('t = 1  # tail', lambda st, kw: st.replace('u = 2', **kw)),
}
TEDIT_SRC = 'p = 0\nq = 0\n'


def tedit(root, n, opt, kw, fault):
    reset, sens = TEDIT[opt]
    root.body[n].replace(reset)
    if fault:
        root.body[n].value.replace('1 +', **kw) if hasattr(root.body[n], 'value') else root.body[n].replace('1 +', **kw)
    else:
        sens(root.body[n], kw)


# ----------------------------------------------------------------------------------------------------------------------
# the interpreter: one real thread executes commands; blocks are real `with FST.options(...)` statements

class _Unwind(Exception):
    def __init__(self, levels, cmd, rec):
        super().__init__('block body raised')
        self.levels, self.cmd, self.rec = levels, cmd, rec


class _Die(BaseException):
    pass


class ListChan:
    """Command source / reply sink for free-running threads."""

    def __init__(self, cmds):
        self.cmds = list(cmds)
        self.i = 0
        self.replies = []

    def get(self):
        if self.i >= len(self.cmds):
            return {'k': 'die'}
        c = self.cmds[self.i]
        self.i += 1
        return c

    def put(self, r):
        self.replies.append(r)


class QueueChan:
    def __init__(self):
        self.cmd = queue.SimpleQueue()
        self.rep = queue.SimpleQueue()

    def get(self):
        return self.cmd.get()

    def put(self, r):
        self.rep.put(r)


def interpret(ch, tid, srcs=(), reglog=None, counter=None, cellspecs=()):
    """Run commands from `ch` in the calling thread until 'die'. Every command yields exactly one reply."""
    _TL.tid = tid
    env = Env(srcs)
    seq = counter or itertools.count()
    specs = {sp['id']: sp for sp in cellspecs}
    cells = {i: make_cell(sp) for i, sp in specs.items()}   # this run's own mutable option objects
    REPS = 3
    own_reads = ReadTree()          # this thread's own long-lived tree (never edited)

    def reply(c, r):
        r['k'] = c['k']
        r['seq'] = next(seq)
        ch.put(r)

    def base(c):
        return {'pre': snap(), 'rmark': reglog.mark(tid) if reglog is not None else 0}

    def fin(r):
        r['obs'] = snap()
        r['heap'] = [[i, cell_text(specs[i], cells[i])] for i in sorted(cells)]   # deep snapshot of every cell
        if reglog is not None:
            r['reg'] = reglog.since(tid, r.pop('rmark'))
        else:
            r.pop('rmark', None)
            r['reg'] = None
        return r

    def simple(c):
        k = c['k']
        r = base(c)
        r.update(outcome='ok', exc='', ret=[], eff=[], res='')
        try:
            if k == 'set':
                r['ret'] = pairs(FST.set_options(**resolve(c['kw'], cells)))
            elif k == 'call':
                ov = resolve(c['kw'], cells)
                r['eff'] = [[n, vrepr(FST.get_option(n, ov))] for n in OPTION_NAMES]
                try:
                    FST('call_target', 'exec').body[0].copy(**ov)     # any real call validates its **options
                except ValueError as e:
                    r.update(outcome='raise', exc=type(e).__name__, msg=scrub(str(e)))
                else:
                    # the same call, with the very same option objects, on fresh identical targets, REPS times
                    r['reps'] = [probe(c['probes'], ov) for _ in range(REPS)]
                    r['res'] = r['reps'][0]
            elif k == 'read':
                tree = own_reads if c['tree'] == 'own' else shared_tree()
                r['res'], r['ref'] = do_read(tree, c['q'], resolve(c['kw'], cells))
            elif k == 'edit':
                r.update(env.edit(c['tree'], c['seed']))
            elif k == 'tedit':
                root = env.roots[c['tree']]
                if c.get('step'):
                    def park(tag):
                        ch.put({'k': 'yield', 'tag': tag})
                        ch.get()
                    _TL.stepper = park
                try:
                    tedit(root, c['node'], c['opt'], resolve(c['kw'], cells), c['fault'])
                finally:
                    _TL.stepper = None
                    r['res'] = tree_digest(root)
            elif k == 'spawn':
                pass
            else:
                raise AssertionError(k)
        except Exception as e:  # noqa: BLE001
            r.update(outcome='raise', exc=type(e).__name__, msg=scrub(str(e)))
        return fin(r)

    def block(c):
        r = base(c)
        r.update(outcome='ok', exc='', ret=[], eff=[], res='')
        entered = False
        try:
            with FST.options(**resolve(c['kw'], cells)) as old:
                entered = True
                r['ret'] = pairs(dict(old))
                reply(c, fin(r))
                xc = loop()                      # returns the 'exit' command addressed to this (innermost) block
                xr = base(xc)
                xr.update(outcome='ok', exc='', ret=[], eff=[], res='')
                if xc['how'] == 'exception':
                    raise _Unwind(xc.get('levels', 1), xc, xr)   # the body raises: real unwinding through `with`
        except _Unwind as u:
            u.levels -= 1
            if u.levels > 0:
                raise                            # keeps propagating through the enclosing block(s)
            reply(u.cmd, fin(u.rec))
            return
        except _Die:
            raise
        except Exception as e:  # noqa: BLE001
            if entered:
                raise
            r.update(outcome='raise', exc=type(e).__name__, msg=scrub(str(e)))   # options(...) itself refused
            reply(c, fin(r))
            return
        reply(xc, fin(xr))

    def loop():
        while True:
            c = ch.get()
            k = c['k']
            if k == 'die':
                raise _Die()
            if k == 'obs':
                ch.put({'k': 'obs', 'obs': snap()})
            elif k == 'exit':
                return c
            elif k == 'enter':
                block(c)
            else:
                reply(c, simple(c))

    try:
        while True:
            c = loop()      # an 'exit' with no open block (the script and pfst disagree about an earlier `with`)
            r = base(c)
            r.update(outcome='noblock', exc='', ret=[], eff=[], res='')
            reply(c, fin(r))
    except _Die:
        pass
