"""Observation vectors for C02: the answers of pfst's public read-only API on every node of a tree.

Only *observes* pfst (what it answered); correspondence between two trees is by child path computed from pure-AST
walking. Answers are canonicalised to JSON strings and hash-consed to ints per batch.
"""

from __future__ import annotations

import ast

from .edits import walk_paths

PREDICATES = (
    'is_root', 'is_alive', 'has_own_loc', 'has_docstr', 'is_mod', 'is_stmt', 'is_expr', 'is_boolop', 'is_operator',
    'is_unaryop', 'is_cmpop', 'is_excepthandler', 'is_pattern', 'is_type_param', 'is_stmt_or_mod', 'is_stmtlike',
    'is_stmtlike_or_mod', 'is_block', 'is_block_or_mod', 'is_scope', 'is_scope_or_mod', 'is_named_scope',
    'is_named_scope_or_mod', 'is_anon_scope', 'is_funcdef', 'is_def', 'is_def_or_mod', 'is_for', 'is_with', 'is_try',
    'is_import', 'is_ftstr',
)
METHODS0 = ('is_elif', 'is_parenthesized_tuple', 'is_delimited_matchseq', 'is_empty_arguments', 'is_except_star',
            'is_parenthesizable', 'get_docstr')
POSATTRS = ('lineno', 'col_offset', 'end_lineno', 'end_col_offset', 'ln', 'col', 'end_ln', 'end_col',
            'bln', 'bcol', 'bend_ln', 'bend_col')
NAV0 = ('next', 'prev', 'first_child', 'last_child', 'step_fwd', 'step_back', 'parent_stmt', 'parent_stmtlike',
        'parent_block', 'parent_scope', 'parent_named_scope', 'parent_non_expr', 'parent_pattern')
VIRTUAL = {'Dict': ('_all',), 'MatchMapping': ('_all',), 'Compare': ('_all',), 'arguments': ('_all',),
           'Call': ('_args',), 'ClassDef': ('_bases', '_body'), 'Module': ('_body',), 'FunctionDef': ('_body',),
           'AsyncFunctionDef': ('_body',), 'MatchClass': ('_attrs',)}

EXTRA = ('copy_ast', 'ast_src', 'dump', 'find_loc', 'find_in_loc', 'find_contains_loc', 'repath', 'path_roundtrip',
         'last_header_child', 'parents', 'own_lines', 'scope_symbols', 'walk_order', 'get_src_loc')

QUERIES = (('loc', 'bloc', 'pars_T', 'pars_F', 'src', 'own_src', 'parent', 'pfield', 'root', 'lens', 'next_child',
            'prev_child', 'child_path', 'line_comment') + PREDICATES + METHODS0 + POSATTRS + NAV0 + EXTRA)


def _canon(v, pathof):
    if v is None or isinstance(v, (bool, int, str)):
        return v
    if isinstance(v, float):
        return repr(v)
    if isinstance(v, bytes):
        return 'b' + repr(v)
    if isinstance(v, tuple):
        return [_canon(x, pathof) for x in v]
    if isinstance(v, list):
        return [_canon(x, pathof) for x in v]
    if isinstance(v, dict):
        return {str(k): _canon(x, pathof) for k, x in sorted(v.items(), key=lambda kv: str(kv[0]))}
    if isinstance(v, (set, frozenset)):
        return sorted(str(x) for x in v)
    a = getattr(v, 'a', None)
    if isinstance(a, ast.AST) and getattr(v, 'is_FST', False):
        return {'node': pathof.get(id(a), '?')}
    return {'obj': type(v).__name__, 'repr': repr(v)[:80]}


def _ask(fn, pathof):
    try:
        return _canon(fn(), pathof)
    except Exception as e:  # noqa: BLE001  (the answer *is* the exception class)
        return {'exc': type(e).__name__}


def node_answers(f, root, pathof, kind):
    """{query: canonical answer} for FST node f."""
    A = {}
    A['loc'] = _ask(lambda: f.loc, pathof)
    A['bloc'] = _ask(lambda: f.bloc, pathof)
    A['pars_T'] = _ask(lambda: f.pars(shared=True), pathof)
    A['pars_F'] = _ask(lambda: f.pars(shared=False), pathof)
    A['src'] = _ask(lambda: f.src, pathof)
    A['own_src'] = _ask(lambda: f.own_src(), pathof)
    A['parent'] = _ask(lambda: f.parent, pathof)
    A['pfield'] = _ask(lambda: (lambda p: None if p is None else (p.name, p.idx))(f.pfield), pathof)
    A['root'] = _ask(lambda: f.root is root, pathof)
    lens = {}
    for name in f.a._fields:
        if isinstance(getattr(f.a, name, None), list):
            lens[name] = _ask(lambda name=name: len(getattr(f, name)), pathof)
    for name in VIRTUAL.get(kind, ()):
        lens[name] = _ask(lambda name=name: len(getattr(f, name)), pathof)
    A['lens'] = lens
    par = f.parent
    A['next_child'] = _ask(lambda: par.next_child(f) if par else None, pathof)
    A['prev_child'] = _ask(lambda: par.prev_child(f) if par else None, pathof)
    A['child_path'] = _ask(lambda: root.child_path(f, True), pathof)
    A['line_comment'] = _ask(lambda: f.get_line_comment() if isinstance(f.a, ast.stmt) else None, pathof)
    for p in PREDICATES:
        A[p] = _ask(lambda p=p: getattr(f, p), pathof)
    for m in METHODS0:
        A[m] = _ask(lambda m=m: getattr(f, m)(), pathof)
    for p in POSATTRS:
        A[p] = _ask(lambda p=p: getattr(f, p), pathof)
    for m in NAV0:
        A[m] = _ask(lambda m=m: getattr(f, m)(), pathof)
    # read-only observers beyond the listed accessors (DESIGN section 7.6 / 7.7): a tree that was edited must answer
    # them exactly as a tree parsed from its source does
    is_stmtish = isinstance(f.a, (ast.stmt, ast.mod, ast.ExceptHandler, ast.match_case))
    A['copy_ast'] = _ask(lambda: ast.dump(f.copy_ast(), include_attributes=True), pathof)
    A['ast_src'] = _ask(lambda: f.ast_src() if is_stmtish else None, pathof)
    A['dump'] = _ask(lambda: f.dump(out='str', color=False) if is_stmtish else None, pathof)
    loc = f.loc
    A['find_loc'] = _ask(lambda: root.find_loc(*loc) if loc else None, pathof)
    A['find_in_loc'] = _ask(lambda: root.find_in_loc(*loc) if loc else None, pathof)
    A['find_contains_loc'] = _ask(lambda: root.find_contains_loc(*loc) if loc else None, pathof)
    A['repath'] = _ask(lambda: f.repath() is f, pathof)
    A['path_roundtrip'] = _ask(lambda: root.child_from_path(root.child_path(f)) is f, pathof)
    A['last_header_child'] = _ask(lambda: f.last_header_child() if is_stmtish else None, pathof)
    A['parents'] = _ask(lambda: list(f.parents()), pathof)
    A['own_lines'] = _ask(lambda: list(f.own_lines()) if is_stmtish else None, pathof)
    A['scope_symbols'] = _ask(lambda: _symbols(f) if f.is_scope_or_mod else None, pathof)
    A['walk_order'] = _ask(lambda: [pathof.get(id(g.a), '?') for g in f.walk(self_=False, recurse=False)], pathof)
    A['get_src_loc'] = _ask(lambda: root.get_src(*loc) if loc else None, pathof)
    return A


def _symbols(f):
    return {'flat': f.scope_symbols(), 'full': f.scope_symbols(full=True)}


def in_ftstr(tree, path):
    n = tree
    for fld, i in path:
        if n.__class__.__name__ in ('JoinedStr', 'FormattedValue', 'TemplateStr', 'Interpolation'):
            return True
        n = getattr(n, fld)
        if i is not None:
            n = n[i]
    return False


def tree_nodes(root):
    """[(path string, ast node)] in a deterministic order, f-string internals excluded; and id(ast) -> path string."""
    out = []
    pathof = {}
    for node, path in walk_paths(root.a):
        ps = '.'.join(f if i is None else f'{f}[{i}]' for f, i in path) or '<root>'
        pathof[id(node)] = ps
        if isinstance(node, (ast.expr_context,)):
            continue
        # f-string internals are observed too (edits inside replacement fields, self-documenting fields)
        out.append((ps, node, path))
    out.sort(key=lambda t: t[0])
    return out, pathof


def links_ok(root, nodes):
    """a.f.a is a; child(parent(n), pfield(n)) is n; root(n) is root - for every listed node."""
    try:
        for _, node, _ in nodes:
            f = node.f
            if f.a is not node or f.root is not root:
                return False
            p = f.parent
            if p is None:
                if f is not root:
                    return False
                continue
            name, idx = f.pfield.name, f.pfield.idx
            c = getattr(p.a, name)
            if idx is not None:
                c = c[idx]
            if c is not node:
                return False
        return True
    except Exception:  # noqa: BLE001
        return False


class Interner:
    def __init__(self):
        self.d = {}

    def __call__(self, obj) -> int:
        import json
        k = json.dumps(obj, sort_keys=True, default=str)
        i = self.d.get(k)
        if i is None:
            i = self.d[k] = len(self.d) + 1
        return i


def observe(root, intern: Interner, only=None):
    """-> dict(paths=[...], byNode=[int], byQuery=[int], raw={path:{q:ans}}) for the tree under root.
    `only` restricts to a set of path strings (cache-population queries)."""
    nodes, pathof = tree_nodes(root)
    raw = {}
    for ps, node, path in nodes:
        if only is not None and ps not in only:
            continue
        raw[ps] = node_answers(node.f, root, pathof, node.__class__.__name__)
    paths = sorted(raw)
    by_node = [intern([ps, raw[ps]]) for ps in paths]
    by_query = [intern([q, [raw[ps].get(q) for ps in paths]]) for q in QUERIES]
    return {'paths': paths, 'byNode': by_node, 'byQuery': by_query, 'raw': raw, 'links': links_ok(root, nodes)}
