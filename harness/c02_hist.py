"""C02 driver: edit histories run in lock-step on several trees that differ only in which read-only queries were made
before each edit (cache population patterns); after each step every query on every node is evaluated on each tree and on
a tree freshly built from its current source."""

from __future__ import annotations

import ast
import random

from . import edits, obs
from .edits import FST

PATTERNS = ('all', 'ancestors', 'siblings', 'target', 'half', 'subtree', 'after')


def _select(rng, root, plan, pattern):
    nodes, _ = obs.tree_nodes(root)
    paths = [ps for ps, _, _ in nodes]
    tgt = '.'.join(f if i is None else f'{f}[{i}]' for f, i in plan.path) or '<root>'
    if pattern == 'all':
        return set(paths)
    if pattern == 'target':
        return {tgt}
    if pattern == 'ancestors':
        out = {'<root>'}
        parts = []
        for f, i in plan.path:
            parts.append(f if i is None else f'{f}[{i}]')
            out.add('.'.join(parts))
        return out
    if pattern == 'subtree':
        return {p for p in paths if p == tgt or p.startswith(tgt + '.') or tgt == '<root>'}
    if pattern == 'siblings':
        pre = tgt + '.' + plan.field.lstrip('_') if tgt != '<root>' else plan.field.lstrip('_')
        return {p for p in paths if p.startswith(pre)} | {tgt}
    if pattern == 'after':
        return {p for p in paths if p > tgt}
    return {p for p in paths if rng.random() < 0.5}


def _views(root, only):
    """Full-field views created before the edit (kept alive across it)."""
    out = []
    nodes, _ = obs.tree_nodes(root)
    for ps, node, _ in nodes:
        if ps not in only:
            continue
        for name in node._fields:
            if isinstance(getattr(node, name, None), list):
                try:
                    out.append((node.f, name, getattr(node.f, name)))
                except Exception:  # noqa: BLE001
                    pass
    return out


def _view_lens(root, fresh, views):
    _, pathof = obs.tree_nodes(root)
    fnodes, _ = obs.tree_nodes(fresh)
    fby = {ps: n for ps, n, _ in fnodes}
    live, fr = [], []
    for base, name, view in views:
        try:
            if not base.is_alive or base.root is not root:
                continue
            ps = pathof.get(id(base.a))
            if ps is None or ps not in fby or not isinstance(getattr(fby[ps], name, None), list):
                continue
            if type(fby[ps]) is not type(base.a):
                continue
            lv = len(view)
        except Exception as e:  # noqa: BLE001
            lv = -1
        live.append(lv)
        fr.append(len(getattr(fby[ps], name)))
    return live, fr


def run_lockstep(rec: edits.Recorder, intern: obs.Interner, tid: int, seed: int, src: str, nsteps: int, npat: int = 2,
                 misc_p: float = 0.2, unpar_p: float = 0.3, sweep: bool = False):
    """sweep=True: instead of random planning, a systematic list of layout-only edits (edits.plan_misc_sweep: line
    comments replaced / deleted on the statements that END the most enclosing blocks, par() / unpar() next to keywords,
    docstrings) is executed with every cache warm (pattern 'all'): the edits whose only effect on other nodes is on
    *derived* cached answers (bloc, pars, src of enclosing blocks)."""
    rng = random.Random(seed)
    roots = [FST(src, 'exec') for _ in range(npat)]
    queue = edits.plan_misc_sweep(rng, roots[0].a, src, nsteps) if sweep else None

    def observe_all():
        out = []
        for r in roots:
            fresh = FST(r.src, 'exec', indent=r.indent)
            lv = obs.observe(r, intern)
            fv = obs.observe(fresh, intern)
            out.append((lv, fv, fresh))
        return out

    def obs_json(triples, views_per_run):
        res = []
        for k, (lv, fv, fresh) in enumerate(triples):
            vl, vf = _view_lens(roots[k], fresh, views_per_run[k]) if views_per_run else ([], [])
            res.append({'live': lv['byNode'], 'fresh': fv['byNode'], 'liveQ': lv['byQuery'], 'freshQ': fv['byQuery'],
                        'links': lv['links'], 'viewLive': vl, 'viewFresh': vf})
        return res

    init = rec.state(roots[0])
    trace = {'id': tid, 'seed': seed, 'init': init, 'steps': []}
    script = []
    for _ in range(nsteps):
        if queue is not None and not queue:
            break
        if queue is not None or rng.random() < misc_p:
            # other edits: put_docstr / put_line_comment / par() / unpar() of redundant parentheses, also in lock-step
            m = queue.pop(0) if queue is not None else edits.plan_misc(rng, roots[0].a, roots[0].src, unpar_p)
            if m is not None:
                pre_src = roots[0].src
                pattern = 'all' if queue is not None else rng.choice(PATTERNS)
                views_per_run = [[] for _ in roots]
                fake = edits.Plan()
                fake.path, fake.field = m.path, 'body'
                for k in range(1, npat):
                    sel = _select(rng, roots[k], fake, pattern if k == 1 else rng.choice(PATTERNS))
                    obs.observe(roots[k], intern, only=sel)
                    views_per_run[k] = _views(roots[k], sel)
                excs = [edits.execute_misc(m, r) for r in roots]
                post = rec.state(roots[0])
                ev = edits.make_misc_event(m, excs[0], post)
                ev.update({'kind': m.kind, 'law': False, 'newS': [], 'expValid': True, 'expS': 0, 'expCompiles': True,
                           'documented': False, 'opts': edits.opts_json({}), 'isView': False, 'vlo': edits.bound(None),
                           'vhi': edits.bound(None), 'codePar': False, 'codePar0': False, 'field': 'body',
                           'form': 'misc'})
                runs = []
                for k, r in enumerate(roots):
                    s = rec.state(r)
                    runs.append({'text': s['text'], 'liveP': s['liveP'], 'rootObj': s['rootObj'],
                                 'outcome': 'ok' if excs[k] is None else 'raise',
                                 'sync': s['srcOk'] and s['srcP'] == s['liveP']})
                ev['runs'] = runs
                ev['pattern'] = pattern
                synced = all(x['sync'] for x in runs)
                ev['hasObs'] = synced
                ev['obs'] = obs_json(observe_all(), views_per_run) if synced else []
                if synced and any(a['live'] != a['fresh'] for a in ev['obs']):
                    ev['obsDiff'] = ['(misc op %s at %s)' % (m.op, m.path)]
                trace['steps'].append(ev)
                script.append({'pre_src': pre_src, 'plan': m.describe(), 'post_src': roots[0].src, 'pattern': pattern,
                               'exc': None if excs[0] is None else f'{type(excs[0]).__name__}: {excs[0]}'})
                if not synced:
                    break
                continue
        plan = None
        for _try in range(5):
            plan = edits.plan_edit(rng, roots[0].a)
            if plan is not None:
                break
        if plan is None:
            break
        pre_src = roots[0].src
        pre_tree = edits.try_parse(pre_src)
        o = edits.oracle(plan, pre_src, rec.tab)
        pattern = rng.choice(PATTERNS)
        views_per_run = [[] for _ in roots]
        for k in range(1, npat):
            sel = _select(rng, roots[k], plan, pattern if k == 1 else rng.choice(PATTERNS))
            obs.observe(roots[k], intern, only=sel)  # populate caches (answers discarded)
            views_per_run[k] = _views(roots[k], sel)
        st = rng.getstate()
        excs = []
        for k, r in enumerate(roots):
            rng.setstate(st)
            excs.append(edits.execute(plan, r, o, rng))
        post = rec.state(roots[0])
        ev = edits.make_event(plan, o, excs[0], post, pre_tree)
        runs = []
        for k, r in enumerate(roots):
            s = rec.state(r)
            runs.append({'text': s['text'], 'liveP': s['liveP'], 'rootObj': s['rootObj'],
                         'outcome': 'ok' if excs[k] is None else 'raise', 'sync': s['srcOk'] and s['srcP'] == s['liveP']})
        ev['runs'] = runs
        ev['pattern'] = pattern
        synced = all(x['sync'] for x in runs)
        ev['hasObs'] = synced
        if synced:
            trip = observe_all()
            ev['obs'] = obs_json(trip, views_per_run)
            if any(a['live'] != a['fresh'] for a in ev['obs']):
                # detail for the replay file only (the verdict is TLC's)
                lv, fv, _ = next(t for t, a in zip(trip, ev['obs']) if a['live'] != a['fresh'])
                diffs = []
                for ps in lv['paths']:
                    for q in obs.QUERIES:
                        if lv['raw'][ps].get(q) != fv['raw'].get(ps, {}).get(q):
                            diffs.append((ps, q, lv['raw'][ps].get(q), fv['raw'].get(ps, {}).get(q)))
                ev['obsDiff'] = [str(d)[:300] for d in diffs[:6]]
        else:
            ev['obs'] = []
        trace['steps'].append(ev)
        script.append({'pre_src': pre_src, 'plan': plan.describe(), 'post_src': roots[0].src, 'pattern': pattern,
                       'exc': None if excs[0] is None else f'{type(excs[0]).__name__}: {excs[0]}'})
        if not synced:
            break
    trace['script'] = script
    return trace
