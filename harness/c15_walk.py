"""C15 driver: real pfst walks (walk / search / sub) interleaved with tree mutations, recorded as
Yield / Mutate / Send / Stop events plus snapshots of the walked subtree, for validation by spec/WalkAccept.tla.

Only observations of pfst (which FST object was yielded, is its `.a` set, which FST object hangs on which AST node) and
facts computed with the standard library (`ast`: structure, source order by position, parse of the final source) are
recorded.  No verdict is computed here.

Node identity = serial number handed out by `Serials`, which keeps a strong reference to every FST object it has seen
(keying on `id()` alone produced phantom double entries after garbage collection in a design-time probe).
"""

from __future__ import annotations

import ast
import random

from fst import FST
from harness import proj

NOT_NODES = (ast.expr_context, ast.boolop, ast.operator, ast.unaryop, ast.cmpop)
BIG = (1 << 30, 1 << 30)


class Serials:
    def __init__(self):
        self._ids = {}
        self._keep = []

    def of(self, f) -> int:
        if f is None:
            return 0
        s = self._ids.get(id(f))
        if s is None:
            self._keep.append(f)
            s = self._ids[id(f)] = len(self._keep)
        return s

    def obj(self, s):
        return self._keep[s - 1]


# ----------------------------------------------------------------------------------------------------------------------
# stdlib view of a live tree

def okey(a):
    """Source-order key of a node: its own position, else the smallest position below it."""
    ln = getattr(a, 'lineno', None)
    if ln is not None:
        return (ln, a.col_offset)
    best = BIG
    for c in ast.iter_child_nodes(a):
        if not isinstance(c, NOT_NODES):
            k = okey(c)
            if k < best:
                best = k
    return best


def kids(a):
    cs = [c for c in ast.iter_child_nodes(a) if not isinstance(c, NOT_NODES)]
    cs.sort(key=okey)
    return cs


def eligible(a, types) -> bool:
    """`all=False` as documented in walk(): nodes with intrinsic AST locations plus comprehension, withitem, match_case
    and non-empty arguments; operators / contexts never.  `types` = tuple of leaf classes for a type-filtered walk."""
    if types is not None:
        return a.__class__ in types
    if 'lineno' in a._attributes:
        return True
    if isinstance(a, (ast.comprehension, ast.withitem, ast.match_case)):
        return True
    if isinstance(a, ast.arguments):
        return bool(a.posonlyargs or a.args or a.vararg or a.kwonlyargs or a.kwarg)
    return False


FUNCS = (ast.FunctionDef, ast.AsyncFunctionDef)
COMPS = (ast.ListComp, ast.SetComp, ast.DictComp, ast.GeneratorExp)
SCOPES = FUNCS + (ast.ClassDef, ast.Lambda) + COMPS


def scope_visible(root, types):
    """ids of the nodes below `root` that a scope=True walk of `root` shows, from the documented scope rules (walk()
    docstring) stated on the stdlib AST: the scope of `root` itself, and of every nested scope node only the parts that
    are evaluated in the enclosing scope (decorators, argument defaults and annotations, returns, type parameter bounds,
    class bases and keywords, the first iterator of a comprehension) plus walrus targets inside comprehensions."""
    vis = set()

    def arg_nodes(args):
        return args.posonlyargs + args.args + ([args.vararg] if args.vararg else []) + args.kwonlyargs + \
            ([args.kwarg] if args.kwarg else [])

    def tp_exprs(n):
        out = []
        for tp in getattr(n, 'type_params', ()):
            for f in ('bound', 'default_value'):
                v = getattr(tp, f, None)
                if v is not None:
                    out.append(v)
        return out

    def walrus_targets(n, skip):
        for c in ast.iter_child_nodes(n):
            if c is skip:
                continue
            if isinstance(c, ast.NamedExpr) and isinstance(c.target, ast.Name):
                vis.add(id(c.target))
            if isinstance(c, ast.Lambda):   # its body is a scope of its own; its defaults are evaluated in the comprehension
                for d in list(c.args.defaults) + [d for d in c.args.kw_defaults if d is not None]:
                    if isinstance(d, ast.NamedExpr) and isinstance(d.target, ast.Name):
                        vis.add(id(d.target))
                    walrus_targets(d, skip)
                continue
            walrus_targets(c, skip)

    def visit(n, is_root):
        vis.add(id(n))
        if isinstance(n, FUNCS + (ast.Lambda,)):
            args = n.args
            if is_root:
                vis.add(id(args))
                for a in arg_nodes(args):
                    vis.add(id(a))
                for tp in getattr(n, 'type_params', ()):
                    vis.add(id(tp))
                for b in (n.body if isinstance(n.body, list) else [n.body]):
                    visit(b, False)
            else:
                outer = list(getattr(n, 'decorator_list', ())) + tp_exprs(n)
                if not isinstance(n, ast.Lambda):
                    outer += [a.annotation for a in arg_nodes(args) if a.annotation is not None]
                    if n.returns is not None:
                        outer.append(n.returns)
                outer += list(args.defaults) + [d for d in args.kw_defaults if d is not None]
                for c in outer:
                    visit(c, False)
        elif isinstance(n, ast.ClassDef):
            if is_root:
                for tp in getattr(n, 'type_params', ()):
                    vis.add(id(tp))
                for b in n.body:
                    visit(b, False)
            else:
                for c in list(n.decorator_list) + tp_exprs(n) + list(n.bases) + list(n.keywords):
                    visit(c, False)
        elif isinstance(n, COMPS):
            first = n.generators[0].iter if n.generators else None
            if is_root:
                for c in ast.iter_child_nodes(n):
                    if isinstance(c, ast.comprehension):
                        vis.add(id(c))
                        for cc in ast.iter_child_nodes(c):
                            if cc is not first and not isinstance(cc, NOT_NODES):
                                visit(cc, False)
                    elif not isinstance(c, NOT_NODES):
                        visit(c, False)
            else:
                walrus_targets(n, first)
                if first is not None:   # evaluated in the enclosing scope, walked even when it is filtered out itself
                    visit(first, False)
        else:
            for c in ast.iter_child_nodes(n):
                if not isinstance(c, NOT_NODES):
                    visit(c, False)
    visit(root, True)
    return vis


def preorder(a, depth=0, out=None):
    """[(ast node, depth)] in source pre-order."""
    if out is None:
        out = []
    stack = [(a, depth)]
    while stack:
        n, d = stack.pop()
        out.append((n, d))
        for c in reversed(kids(n)):
            stack.append((c, d + 1))
    return out


def rooted(root_ast, a) -> bool:
    for n in ast.walk(root_ast):
        if n is a:
            return True
    return False


def find_slot(parent, child):
    """(field, idx|None) of `child` in `parent` by identity (stdlib only)."""
    for name, v in ast.iter_fields(parent):
        if v is child:
            return name, None
        if isinstance(v, list):
            for i, e in enumerate(v):
                if e is child:
                    return name, i
    return None


# ----------------------------------------------------------------------------------------------------------------------
# replacement snippets (valid by construction in the slot category)

EXPR_SNIPS = [
    'nm{k}',
    '[nm{k}a, nm{k}b]',
    'fn{k}(nm{k}a)',
    'nm{k}a + nm{k}b',
    '(nm{k}a, nm{k}b)',
    '-nm{k}',
    '[[nm{k}a], nm{k}b]',
    'nm{k}a if nm{k}b else nm{k}c',
    'nm{k}.attr',
    '[]',
]
STMT_SNIPS = [
    'pass',
    'nm{k} = nm{k}b',
    'if nm{k}a:\n    nm{k}b\n    nm{k}c',
    'while nm{k}a:\n    nm{k}b',
    'fn{k}(nm{k}a)',
    'for nm{k}a in nm{k}b:\n    pass',
    'if nm{k}a:\n    if nm{k}b:\n        pass',
]
PATTERN_PARENTS = (ast.pattern, ast.JoinedStr, ast.FormattedValue)


def category(a, parent, chain):
    """'stmt' | 'expr' | 'store' | None (not mutated by this driver)."""
    if any(isinstance(p, PATTERN_PARENTS) for p in chain) or isinstance(a, PATTERN_PARENTS):
        return None
    if isinstance(a, ast.stmt):
        return 'stmt' if not isinstance(parent, ast.Interactive) else None
    if isinstance(a, ast.expr):
        ctx = getattr(a, 'ctx', None)
        if ctx is None or isinstance(ctx, ast.Load):
            if isinstance(a, ast.Starred):
                return None
            if isinstance(parent, (ast.Global, ast.Nonlocal)):
                return None
            return 'expr'
        if isinstance(a, ast.Name):
            return 'store'
        return None
    return None


# ----------------------------------------------------------------------------------------------------------------------

class Walk:
    """One recorded walk."""

    def __init__(self, tid, src, wpath, cfg, types=None, api='walk', allform='default', nested=True, exact=True):
        self.tid = tid
        self.cfg = dict(cfg)
        self.types = types
        self.api = api
        self.allform = allform
        self.nested = nested
        self.ser = Serials()
        self.root = FST(src, 'exec')
        a = self.root.a
        for name, idx in wpath:
            a = getattr(a, name)
            if idx is not None:
                a = a[idx]
        self.W = a.f
        self.snaps = []
        self.nodes = []  # parallel to snaps: [(ast, depth)]
        self.steps = []
        self.nk = 0
        self.nyield = 0
        self.ins = 0
        self.exact = exact
        self.aborted = None
        t = proj.Tables()
        self.init_sync = self._sync(t)
        self.snap()
        self.n0 = len(self.snaps[0])
        self.src0 = src

    # -- facts ---------------------------------------------------------------------------------------------------------
    def _sync(self, t=None):
        t = t or proj.Tables()
        live = t.pid(self.root.a)
        tree = proj.try_parse(self.root.src)
        return {'liveP': live, 'srcP': t.pid(tree) if tree is not None else 0, 'parsed': tree is not None}

    def snap(self):
        W = self.W
        if W.a is None or self.root.a is None or not rooted(self.root.a, W.a):
            nodes = []
        else:
            nodes = preorder(W.a)
        self.nodes.append(nodes)
        vis = scope_visible(W.a, self.types) if nodes and self.cfg.get('scope') else None
        self.snaps.append([{'s': self.ser.of(getattr(n, 'f', None)), 'd': d, 'e': eligible(n, self.types),
                            'v': vis is None or id(n) in vis} for n, d in nodes])
        return len(self.snaps)

    @property
    def bound(self):
        return 2 * (self.n0 + self.ins) + 2

    # -- events --------------------------------------------------------------------------------------------------------
    def on_yield(self, g, lv):
        self.nyield += 1
        alive = g is not None and getattr(g, 'a', None) is not None
        slot = 'none'
        if alive:  # where the yielded node hangs (classification of findings only): parent kind and field
            nodes = self.nodes[-1]
            for i, (n, d) in enumerate(nodes):
                if n is g.a:
                    j = i - 1
                    while j >= 0 and nodes[j][1] >= d:
                        j -= 1
                    if j >= 0:
                        sl = find_slot(nodes[j][0], n)
                        slot = f'{nodes[j][0].__class__.__name__}.{sl[0] if sl else "?"}'
                    else:
                        slot = 'root'
                    break
        self.steps.append({'k': 'yield', 's': self.ser.of(g), 'lv': bool(lv), 'alive': alive, 't': len(self.snaps),
                           'slot': slot})

    def on_send(self, v):
        self.steps.append({'k': 'send', 'v': bool(v)})

    def on_stop(self, why, exc=''):
        self.steps.append({'k': 'stop', 'why': why, 'exc': exc})

    def log_mut(self, op, s, ns, ins, rel):
        self.ins += ins
        t = self.snap()
        self.steps.append({'k': 'mut', 'op': op, 's': s, 'ns': ns, 'ins': ins, 'rel': rel, 't': t})

    # -- mutations -----------------------------------------------------------------------------------------------------
    def relation(self, cur_ast, tgt_ast):
        nodes = self.nodes[-1]
        idx = {id(n): i for i, (n, _) in enumerate(nodes)}
        ci, ti = idx.get(id(cur_ast)), idx.get(id(tgt_ast))
        if ti is None:
            return 'outside'
        if ci is None:
            return 'other'
        if ci == ti:
            return 'cur'

        def end(i):
            d = nodes[i][1]
            j = i + 1
            while j < len(nodes) and nodes[j][1] > d:
                j += 1
            return j - 1

        def par(i):
            d = nodes[i][1]
            j = i - 1
            while j >= 0 and nodes[j][1] >= d:
                j -= 1
            return j
        if ti < ci and end(ti) >= ci:
            return 'anc'
        if ci < ti <= end(ci):
            return 'desc'
        if par(ti) == par(ci):
            return 'sibBefore' if ti < ci else 'sibAfter'
        p, anc = par(ci), set()
        while p >= 0:
            anc.add(p)
            p = par(p)
        if par(ti) in anc:
            return 'ancSibBefore' if ti < ci else 'ancSibAfter'
        return 'other'

    def parent_of(self, a):
        """(parent ast, chain of ancestors up to the tree root) by stdlib search from the root."""
        chain = []

        def rec(n):
            for c in ast.iter_child_nodes(n):
                if c is a:
                    chain.append(n)
                    return True
                if rec(c):
                    chain.append(n)
                    return True
            return False
        rec(self.root.a)
        return (chain[0] if chain else None), chain

    def mutate(self, op, tgt_ast, code, rel):
        """Carry out one mutation on the live node `tgt_ast.f`; returns False (nothing logged) if it could not be
        requested, raises Abort if pfst raised while carrying it out."""
        f = getattr(tgt_ast, 'f', None)
        if f is None:
            return False
        parent, chain = self.parent_of(tgt_ast)
        if parent is None:
            return False
        slot = find_slot(parent, tgt_ast)
        if slot is None:
            return False
        field, idx = slot
        s = self.ser.of(f)
        try:
            if op == 'remove':
                f.remove(norm=True)
                self.log_mut('remove', s, 0, 0, rel)
                return True
            if op == 'replace':
                f.replace(code, norm=True)
            else:  # 'slice': one-element slice put on the parent, gives a new FST object for expressions
                if idx is None:
                    return False
                parent.f.put_slice(code, idx, idx + 1, field, one=True, norm=True)
        except Exception as e:  # noqa: BLE001  the mutation itself was refused or failed: C03/C12 matter, not C15
            raise Abort(f'{op} {type(e).__name__}: {e}') from e
        v = getattr(parent, field, None)
        new = v[idx] if idx is not None and isinstance(v, list) and idx < len(v) else v
        if not isinstance(new, ast.AST):
            raise Abort('replacement not found')
        ins = len(preorder(new))
        self.log_mut('replace', s, self.ser.of(getattr(new, 'f', None)), ins, rel)
        return True

    def code_for(self, cat, rng_or_idx):
        self.nk += 1
        snips = STMT_SNIPS if cat == 'stmt' else EXPR_SNIPS if cat == 'expr' else ['nm{k}']
        i = rng_or_idx if isinstance(rng_or_idx, int) else rng_or_idx.randrange(len(snips))
        return snips[i % len(snips)].replace('{k}', str(self.nk))

    # -- result --------------------------------------------------------------------------------------------------------
    def trace(self):
        cfg = dict(self.cfg)
        cfg.update(api=self.api, exact=bool(self.exact), allform=self.allform, nested=bool(self.nested))
        return {'id': self.tid, 'cfg': cfg, 'n0': self.n0, 'snaps': self.snaps, 'steps': self.steps,
                'init': self.init_sync, 'final': self._sync()}


class Abort(Exception):
    pass


# ----------------------------------------------------------------------------------------------------------------------
# consumers

class RandomConsumer:
    """At each park: with probability pmut up to 2 mutations, then optionally a send."""

    RELS = ('cur', 'cur', 'cur', 'anc', 'sibBefore', 'sibAfter', 'ancSibAfter', 'ancSibBefore', 'desc', 'other')

    def __init__(self, rng, pmut=0.35, psend=0.2, maxmut=4):
        self.rng = rng
        self.pmut = pmut
        self.psend = psend
        self.left = maxmut
        self.script = []

    def pick(self, w: Walk, g):
        rng = self.rng
        nodes = w.nodes[-1]
        if not nodes or g is None or g.a is None:
            cands = [n for n, _ in nodes[1:]]
            if not cands:
                return None
            return rng.choice(cands), 'other'
        want = rng.choice(self.RELS)
        pool = [(n, w.relation(g.a, n)) for n, _ in nodes]
        sel = [p for p in pool if p[1] == want] or [p for p in pool if p[1] == 'cur']
        if not sel:
            return None
        return rng.choice(sel)

    def park(self, w: Walk, g, lv, can_send=True):
        rng = self.rng
        acts = 0
        if self.left > 0 and rng.random() < self.pmut:
            for _ in range(rng.choice((1, 1, 2))):
                if self.left <= 0:
                    break
                p = self.pick(w, g)
                if p is None:
                    break
                tgt, rel = p
                parent, chain = w.parent_of(tgt)
                cat = category(tgt, parent, chain)
                if cat is None:
                    continue
                ops = ['replace', 'replace', 'remove', 'slice'] if cat != 'store' else ['replace']
                if tgt is w.root.a:
                    continue
                op = rng.choice(ops)
                slot = find_slot(parent, tgt) if parent is not None else None
                if op == 'remove':
                    if slot is None or slot[1] is None or len(getattr(parent, slot[0])) < 2:
                        op = 'replace'
                    elif cat == 'expr' and isinstance(parent, (ast.BoolOp, ast.Compare, ast.Dict, ast.JoinedStr)):
                        op = 'replace'
                if op == 'slice' and (slot is None or slot[1] is None or isinstance(parent, (ast.Compare, ast.Dict))):
                    op = 'replace'
                code = None if op == 'remove' else w.code_for(cat, rng)
                if w.mutate(op, tgt, code, rel):
                    self.left -= 1
                    acts += 1
        sent = None
        if can_send and not lv and rng.random() < self.psend:
            for _ in range(rng.choice((1, 1, 2))):
                sent = rng.random() < 0.5
                yield_send = sent
                w.on_send(yield_send)
                yield ('send', yield_send)
        return


def drive_walk(w: Walk, consumer):
    """Run W.walk(...) under `consumer`; consumer.park is a generator yielding ('send', v) requests."""
    cfg = w.cfg
    on = cfg['on']
    all_ = False if w.types is None else (set(w.types) if w.allform != 'func' else (lambda f, ts=w.types: f.a.__class__ in ts))
    try:
        gen = w.W.walk(all_, on, self_=cfg['self'], recurse=cfg['recurse'], scope=cfg['scope'], back=cfg['back'])
    except Exception as e:  # noqa: BLE001
        w.on_stop('exception', type(e).__name__)
        return
    _drive(w, consumer, gen, on, lambda item: item)


def _drive(w, consumer, gen, on, unwrap):
    try:
        while True:
            try:
                item = next(gen)
            except StopIteration:
                w.on_stop('exhausted')
                return
            if on == 'both':
                try:
                    g, lv = item
                except Exception:  # noqa: BLE001
                    g, lv = None, False
            else:
                g, lv = item, on == 'leave'
            g = unwrap(g)
            w.on_yield(g, lv)
            if w.nyield > w.bound:
                w.on_stop('cutoff')
                return
            for req in consumer.park(w, g, lv):
                if req[0] == 'send':
                    gen.send(req[1])
    except Abort as e:
        w.aborted = str(e)
    except Exception as e:  # noqa: BLE001  the iteration raised
        w.on_stop('exception', type(e).__name__)
        w.exc_detail = repr(e)[:200]


def drive_search(w: Walk, consumer):
    from fst import match as M
    cfg = w.cfg
    pat = M.MOR(*w.types) if len(w.types) > 1 else w.types[0]
    try:
        gen = w.W.search(pat, w.nested, on=cfg['on'], self_=cfg['self'], recurse=cfg['recurse'], scope=cfg['scope'],
                         back=cfg['back'])
    except Exception as e:  # noqa: BLE001
        w.on_stop('exception', type(e).__name__)
        return

    class C:
        def park(self_, w_, g, lv):  # noqa: N805
            sent = False
            for req in consumer.park(w_, g, lv):
                sent = True
                yield req
            if not sent and not w.nested and not lv:
                w.on_send(False)  # documented: nested=False declines recursion when the user did not take control
    _drive(w, C(), gen, cfg['on'], lambda m: getattr(m, 'matched', None))


def drive_sub(w: Walk, consumer, repl, rng, always_skip=False):
    from fst import match as M
    cfg = w.cfg
    pat = M.MOR(*w.types) if len(w.types) > 1 else w.types[0]
    state = {'cur': None}

    def cb(n):
        lv = cfg['on'] == 'leave'
        w.on_yield(n, lv)
        state['cur'] = n
        if w.nyield > w.bound:
            raise Cutoff()
        before = len(w.steps)
        for _ in consumer.park(w, n, lv, can_send=False):
            pass
        mutated = len(w.steps) > before
        skip = always_skip or mutated or rng.random() < 0.4
        state['skip'] = skip
        return skip

    def cba(new):
        cur = state['cur']
        ins = len(preorder(new.a)) if new is not None and new.a is not None else 0
        w.log_mut('replace', w.ser.of(cur), w.ser.of(new), ins, 'cur')
        if not w.nested and cfg['on'] != 'leave':
            w.on_send(False)

    try:
        w.W.sub(pat, repl, w.nested, callback=cb, callback_after=cba, on=cfg['on'], self_=cfg['self'],
                recurse=cfg['recurse'], scope=cfg['scope'], back=cfg['back'])
        w.on_stop('exhausted')
    except Cutoff:
        w.on_stop('cutoff')
    except Abort as e:
        w.aborted = str(e)
    except Exception as e:  # noqa: BLE001
        w.on_stop('exception', type(e).__name__)
        w.exc_detail = repr(e)[:200]


class Cutoff(Exception):
    pass


# ----------------------------------------------------------------------------------------------------------------------
# choosing walked nodes in corpus programs (stdlib only)

def walk_roots(src, lo=3, hi=45):
    """[(path, size, is_scope)] of nodes whose subtree has lo..hi nodes; path = [(field, idx|None)] from the Module."""
    tree = ast.parse(src)
    out = []

    def rec(n, path):
        size = 1
        for name, v in ast.iter_fields(n):
            if isinstance(v, ast.AST) and not isinstance(v, NOT_NODES):
                size += rec(v, path + [(name, None)])
            elif isinstance(v, list):
                for i, e in enumerate(v):
                    if isinstance(e, ast.AST) and not isinstance(e, NOT_NODES):
                        size += rec(e, path + [(name, i)])
        if lo <= size <= hi and path and isinstance(n, (ast.stmt, ast.expr)):
            out.append((path, size, isinstance(n, (ast.FunctionDef, ast.AsyncFunctionDef, ast.ClassDef, ast.Lambda,
                                                   ast.ListComp, ast.SetComp, ast.DictComp, ast.GeneratorExp))))
        return size
    rec(tree, [])
    return out


def order_agrees(src, wpath, types, back=False, scope=False):
    """Domain guard: pfst's undisturbed walk of the subtree (same filter, direction and scope setting) follows the
    stdlib source pre-order (children reversed with back): equal without scope, a subsequence with scope=True.  Where
    it does not (C14's matter, e.g. f-string internals) 'what follows' is ambiguous and the case is skipped."""
    w = Walk(0, src, wpath, {'on': 'enter', 'back': back, 'recurse': True, 'self': True, 'scope': scope}, types)
    mine = []

    def rec(n):
        if eligible(n, types):
            mine.append(w.ser.of(n.f))
        ks = kids(n)
        for c in (reversed(ks) if back else ks):
            rec(c)
    rec(w.W.a)
    all_ = False if types is None else set(types)
    theirs = [w.ser.of(f) for f in w.W.walk(all_, scope=scope, back=back)]
    if not scope:
        return mine == theirs
    vis = {s_['s'] for s_ in w.snaps[0] if s_['e'] and s_['v']}
    if set(theirs) != vis:      # the stdlib statement of the scope rules disagrees with pfst on this subtree (C16 matter)
        return False
    it = iter(mine)
    return all(any(x == y for y in it) for x in theirs)


# ----------------------------------------------------------------------------------------------------------------------
# random walks over the corpus

EXTRA_PROGRAMS = [
    # scope-sensitive shapes: nested defs with defaults/annotations/decorators, lambdas, comprehensions with walrus
    '''\
def outer(a, b=dflt1, *, c: ann1 = dflt2) -> ret:
    @deco(arg)
    def inner(x=[p, q], y: int = r) -> s:
        return x + y
    class K(Base, metaclass=M):
        z = [i for i in rng if i]
        w = lambda u=v: u + a
    val = [t := j for j in it if (k := j)]
    gen = (m for m in outer_it for n in m)
    return inner(val, gen)
''',
    '''\
class C[T](B1, B2):
    x: int = 1
    def m(self, q=[d1, d2]):
        return {k: v for k, v in self.items() if (w := k)}
    y = [lambda: z, [a1, [a2, a3]], {s1, s2}]
''',
    '''\
if a:
    if b:
        c
        [d, [e, f]]
    elif g:
        h
    else:
        i
    j = [k, l]
while m:
    n
    if o:
        p
        q
''',
    '[a, [b, [c, d], e], [f, g], h]\n',
    'cfgd = [p0, {**base, k1: v1, **more, k2: [v2, v3]}, q0]\ndef kwf(x, *, a, b=dk, c, d=[dm, dn]):\n    return {**x, a: b}\nlam = [lambda *, a, b=k: a, z]\n',
]

FILTERS = [
    (None, 'default'), (None, 'default'), (None, 'default'),
    ((ast.Name, ast.List, ast.Call, ast.If, ast.Assign, ast.Expr, ast.BinOp), 'types'),
    ((ast.Name,), 'types'),
    ((ast.Name, ast.List, ast.Tuple, ast.If, ast.Expr), 'func'),
]

_ORDER_CACHE = {}


def programs():
    from corpus.programs import PROGRAMS
    return list(PROGRAMS) + EXTRA_PROGRAMS


_ROOTS_CACHE = {}


def sub_domain(src, path, types):
    """sub() puts an expression template into every matched slot: only walked subtrees in which every node of the
    matched kinds sits in a plain Load-context expression slot are used (the request must be valid by construction)."""
    a = ast.parse(src)
    chain = []
    for name, idx in path:
        chain.insert(0, a)
        a = getattr(a, name)
        if idx is not None:
            a = a[idx]

    def rec(n, parent, ch):
        if n.__class__ in types and category(n, parent, ch) != 'expr':
            return False
        if isinstance(n, (ast.JoinedStr, ast.pattern)):
            return False
        return all(rec(c, n, [n] + ch) for c in ast.iter_child_nodes(n) if not isinstance(c, NOT_NODES))
    return rec(a, chain[0] if chain else None, chain)


def random_case(tid, seed, stats=None):
    """One random walk under mutation; returns Walk or None (domain guard / aborted mutation)."""
    rng = random.Random(seed)
    progs = programs()
    pi = rng.randrange(len(progs)) if rng.random() < 0.7 else len(progs) - 1 - rng.randrange(len(EXTRA_PROGRAMS))
    src = progs[pi]
    roots = _ROOTS_CACHE.get(pi)
    if roots is None:
        try:
            roots = _ROOTS_CACHE[pi] = walk_roots(src)
        except SyntaxError:
            roots = _ROOTS_CACHE[pi] = []
    if not roots:
        return None
    api = rng.choice(('walk', 'walk', 'walk', 'walk', 'search', 'sub'))
    scope = rng.random() < 0.3
    if scope:
        sc = [r for r in roots if r[2]]
        path, size, is_scope = rng.choice(sc or roots)
    else:
        path, size, is_scope = rng.choice(roots)
    on = rng.choice(('enter', 'enter', 'leave', 'both'))
    if scope:
        on = 'enter'
    if api == 'sub' and on == 'both':
        on = 'leave'
    cfg = {'on': on, 'back': rng.random() < 0.4, 'recurse': rng.random() < 0.75, 'self': rng.random() < 0.75,
           'scope': scope}
    types, form = rng.choice(FILTERS)
    if api != 'walk' and types is None:
        types, form = FILTERS[3]
    if api != 'walk':
        form = 'types'
    key = (pi, tuple(path), types, cfg['back'], scope)
    ok = _ORDER_CACHE.get(key)
    if ok is None:
        try:
            ok = order_agrees(src, path, types, cfg['back'], scope)
        except Exception:  # noqa: BLE001
            ok = False
        _ORDER_CACHE[key] = ok
    if not ok:
        if stats is not None:
            stats['order_domain_skipped'] = stats.get('order_domain_skipped', 0) + 1
        return None
    nested = rng.random() < 0.6
    if api == 'sub':
        types = tuple(t for t in types if issubclass(t, ast.expr)) or (ast.Name,)
        if not sub_domain(src, path, types):
            api = 'search'
    w = Walk(tid, src, path, cfg, types, api=api, allform=form, nested=nested, exact=(api != 'sub'))
    w.prog = pi
    cons = RandomConsumer(rng, pmut=rng.choice((0.15, 0.35, 0.6)), psend=rng.choice((0.0, 0.2, 0.4)),
                          maxmut=rng.choice((1, 2, 4)))
    if api == 'walk':
        drive_walk(w, cons)
    elif api == 'search':
        drive_search(w, cons)
    else:
        repl = rng.choice(('[__FST_, sb]', 'sf(__FST_)', 'sn'))
        drive_sub(w, cons, repl, rng)
    if w.aborted:
        if stats is not None:
            stats['aborted_mutation_raised'] = stats.get('aborted_mutation_raised', 0) + 1
        return None
    return w


# ----------------------------------------------------------------------------------------------------------------------
# systematic sweep: at EVERY yield position of a small construct, replace / remove EVERY mutable ancestor of the node just
# yielded (and the walked node itself), for every on x back setting, through walk / search / sub.  The constructs cover
# each kind of child container, in particular the two list fields of the Python AST that may hold None (`Dict.keys` with
# `**` spreads, `arguments.kw_defaults` with keyword-only args without default) in leading / middle / trailing position.

SWEEP_NONE_LISTS = [
    '[p, {**a, k: v}, q]',
    '[p, {k0: v0, **a, k: v}, q]',
    '[p, {**a, **b, k: [v, w]}, q]',
    '[p, {k: v, **a}, q]',
    'f({**a, k: g(v)}, z)',
    'x = {**a, k: v, **b, m: n}',
    'def fn(*, a, b=k): pass',
    'def fn(x, *, a, b=k, c, d=[m, n]): pass',
    'def fn(x=y, *, a=j, b, c=k): pass',
    'async def fn(*args, a, b: int = k, **kw): pass',
    'fn = [lambda *, a, b=k: a, z]',
    'class K:\n    def m(self, *, a, b={**s, t: u}): pass',
]
SWEEP_GENERIC = [
    '[a, [b, [c, d], e], f]',
    'f(a, *b, c=d, **e)',
    'x = a if b else [c, d]',
    'x = [i for i in (a, b) if c]',
    'x = a + b * (c - d)',
    'x = a < b <= c and d or not e',
    'x = y[a:b, c]',
    'x = (a, {b, c}, {d: e})',
    'if a:\n    b\n    c = [d, e]\nelif f:\n    g\nelse:\n    h',
    'for i in a:\n    b\n    if c:\n        d\nelse:\n    e',
    'while a:\n    b\n    c',
    'try:\n    a\n    b\nexcept E as e:\n    c\nelse:\n    d\nfinally:\n    f',
    'with a as b, c:\n    d\n    e',
    'class K(A, m=B):\n    x = 1\n    def f(self, q=[a, b]):\n        return q',
    '@dec(a)\ndef fn(a, b=[c, d], *e, f=g, **h) -> r:\n    return a',
    'match a:\n    case [b, c]:\n        d\n    case _:\n        e\n        f',
    'x = f"{a}{b!r}"',
    'del a, b[c]',
    'assert a, [b, c]',
    'x: List[a] = [b, c]',
]
SWEEP_SCOPE = [   # walked with scope=True: nodes handed out by the scope helpers (walrus targets, first iterators, defaults)
    'def fn():\n    v = [i := j for j in it]\n    w = 1',
    'def fn():\n    v = [x for x in g(y)]\n    w = 1',
    'def fn():\n    v = {k: (t := u) for k in h(a, b) if k}\n    return v',
    'def fn(p=[d1, d2]):\n    g = (m for m in it(z) for n in m)\n    w = lambda u=v: u\n    return g',
    'class K(B):\n    z = [i for i in rng(q) if (s := i)]\n    y = 2',
    'def fn(a, b=c):\n    def inner(x=[p, q], *, y, z=r) -> s:\n        return x\n    return inner',
    # every scope kind as the node that is yielded (and then replaced by a node of another class)
    'def fn(p=d0):\n    def inner(x=[q]) -> s:\n        return x\n    async def ainner(y=t):\n        pass\n'
    '    @dk\n    class K(B, m=M):\n        z = 1\n    w = 2\n    return inner',
    'def fn():\n    v = [lambda a=b: c, [i for i in r1], {j for j in r2}, {k: l for k in r3}, (m for m in r4), n]\n    return v',
    # scope kinds as the first iterator of a comprehension (handed out by the scope helper)
    'def fn():\n    v = [x for x in [y for y in z]]\n    u = {a for a in (lambda: q)}\n    t = (b for b in (c for c in d))\n    return v',
    'class K:\n    f = lambda s, t=[u for u in w]: s\n    g = [h(lambda: i) for j in {k: l for k in m}]',
]
# replacement nodes for the node just yielded under scope=True: all scope kinds and non-scope kinds
SCOPE_EXPR_SNIPS = [
    'nm{k}',
    '[nm{k}a, nm{k}b]',
    'lambda la{k}=lb{k}, *, lc{k}=ld{k}: le{k}',
    '[ce{k} for ce{k} in ci{k}(cj{k}) if ck{k}]',
    '{ce{k} for ce{k} in ci{k}}',
    '{ce{k}: cf{k} for ce{k} in ci{k}}',
    '(ce{k} for ce{k} in ci{k} for cg{k} in ch{k})',
    'fn{k}(nm{k}a, lambda: lz{k})',
]
SCOPE_STMT_SNIPS = [
    'pass',
    'nm{k} = nm{k}b',
    'def nf{k}(fa{k}=fb{k}, *, fc{k}: fd{k} = fe{k}) -> fr{k}:\n    return fa{k}',
    'async def nf{k}(fa{k}=fb{k}):\n    pass',
    '@dc{k}\nclass NC{k}(cb{k}, metaclass=cm{k}):\n    cx{k} = 1',
    'if nm{k}a:\n    nm{k}b',
    'nm{k} = [lambda la{k}=lb{k}: lc{k}, (ce{k} for ce{k} in ci{k})]',
    'return nm{k}',
]
N_SCOPE_SNIPS = 8
SWEEP_TYPES = (ast.Name, ast.arg, ast.Constant)


def sweep_source(i):
    """(source, path of the walked node, all settings in the quick tier?, scope=True?)"""
    tpls = SWEEP_NONE_LISTS + SWEEP_SCOPE + SWEEP_GENERIC
    return ('pre_stmt\n' + tpls[i] + '\npost_stmt\n', [('body', 1)], i < len(SWEEP_NONE_LISTS) + len(SWEEP_SCOPE),
            len(SWEEP_NONE_LISTS) <= i < len(SWEEP_NONE_LISTS) + len(SWEEP_SCOPE))


N_SWEEP = len(SWEEP_NONE_LISTS) + len(SWEEP_SCOPE) + len(SWEEP_GENERIC)


class SweepConsumer:
    """At yield number `pos` (0-based) mutate the `level`-th mutable ancestor-or-self (0 = nearest ancestor) of the node
    just yielded with `op`; nothing else."""

    def __init__(self, pos, level, op, snip=1):
        self.pos, self.level, self.op, self.snip = pos, level, op, snip
        self.k = 0
        self.done = None

    def targets(self, w, g):
        """mutable proper ancestors of g inside the walked subtree (nearest first), then the walked node itself if it is
        not among them."""
        nodes = w.nodes[-1]
        if g is None or g.a is None:
            return []
        idx = next((i for i, (n, _) in enumerate(nodes) if n is g.a), None)
        if idx is None:
            return []
        out = []
        d = nodes[idx][1]
        j = idx - 1
        while j >= 0:
            if nodes[j][1] < d:
                d = nodes[j][1]
                out.append(nodes[j][0])
            j -= 1
        res = []
        for a in out:
            parent, chain = w.parent_of(a)
            cat = category(a, parent, chain)
            if cat in ('stmt', 'expr'):
                res.append((a, cat, parent))
        return res

    @staticmethod
    def in_function(w, a):
        _, chain = w.parent_of(a)
        for p in chain:
            if isinstance(p, FUNCS):
                return True
            if isinstance(p, ast.ClassDef):
                return False
        return False

    def park(self, w, g, lv, can_send=True):
        k = self.k
        self.k += 1
        if k == self.pos:
            ts = self.targets(w, g)
            if self.level == -1 and g is not None and g.a is not None:   # the node just yielded itself
                parent, chain = w.parent_of(g.a)
                cat = category(g.a, parent, chain)
                ts = [(g.a, cat, parent)] if cat is not None and parent is not None else []
            if (0 if self.level == -1 else self.level) < len(ts):
                a, cat, parent = ts[0 if self.level == -1 else self.level]
                op = self.op
                slot = find_slot(parent, a)
                if op == 'remove' and (slot is None or slot[1] is None or len(getattr(parent, slot[0])) < 2
                                       or isinstance(parent, (ast.BoolOp, ast.Compare, ast.Dict, ast.JoinedStr))):
                    op = None
                if op is not None:
                    if op == 'remove':
                        code = None
                    elif self.level == -1 and w.cfg.get('scope') and cat in ('stmt', 'expr'):
                        w.nk += 1
                        snips = SCOPE_STMT_SNIPS if cat == 'stmt' else SCOPE_EXPR_SNIPS
                        code = snips[self.snip % len(snips)].replace('{k}', str(w.nk))
                        if code.startswith('return') and not self.in_function(w, a):
                            code = 'pass'
                    else:
                        code = w.code_for(cat, self.snip)
                    self.done = w.mutate(op, a, code, w.relation(g.a, a))
        return
        yield


SWEEP_SETTINGS = [(on, back) for on in ('enter', 'leave', 'both') for back in (False, True)]


def sweep_plan(quick, seed):
    """[(template, api, on, back, pos, level, op)] - positions and ancestor depths from a dry run with the same settings."""
    plan = []
    for ti in range(N_SWEEP):
        src, wpath, none_list, scope = sweep_source(ti)
        for si, (on, back) in enumerate(SWEEP_SETTINGS):
            if scope and on != 'enter':
                continue
            apis = ['walk']
            if not quick or none_list or (ti + si + seed) % 3 == 0:
                pass
            else:
                continue  # quick tier: generic constructs get a rotating third of the settings
            if on != 'both' and (not quick or (ti + si + seed) % 2 == 0):
                apis += ['search', 'sub']
            elif on == 'both' and (not quick or none_list):
                apis += ['search']
            for api in apis:
                types = None if api == 'walk' else SWEEP_TYPES
                cfg = {'on': on, 'back': back, 'recurse': True, 'self': True, 'scope': scope}
                try:
                    w = Walk(0, src, wpath, cfg, types, api=api)
                except SyntaxError:
                    continue
                probe = SweepConsumer(-1, 0, None)
                depths = []

                class P:
                    def park(self_, w_, g, lv, can_send=True):  # noqa: N805
                        depths.append(len(probe.targets(w_, g)))
                        return
                        yield
                if api == 'walk':
                    drive_walk(w, P())
                elif api == 'search':
                    drive_search(w, P())
                else:
                    drive_sub(w, P(), 'sn', random.Random(0), always_skip=True)
                for pos, nt in enumerate(depths):
                    for level in range(nt):
                        for op in ('replace', 'remove'):
                            plan.append((ti, api, on, back, pos, level, op))
                    if scope:   # the node just yielded is replaced by every kind of node (scope kinds and others)
                        for sn in (range(N_SCOPE_SNIPS) if api == 'walk' or not quick else ((pos + ti + seed) % N_SCOPE_SNIPS,)):
                            plan.append((ti, api, on, back, pos, -1, 'replace', sn))
    return plan


def sweep_case(tid, spec):
    ti, api, on, back, pos, level, op = spec[:7]
    src, wpath, _, scope = sweep_source(ti)
    types = None if api == 'walk' else SWEEP_TYPES
    cfg = {'on': on, 'back': back, 'recurse': True, 'self': True, 'scope': scope}
    w = Walk(tid, src, wpath, cfg, types, api=api, allform='default' if types is None else 'types',
             exact=(api != 'sub'))
    w.prog = -100 - ti
    cons = SweepConsumer(pos, level, op, snip=spec[7] if len(spec) > 7 else 1 + (pos + level) % 3)
    if api == 'walk':
        drive_walk(w, cons)
    elif api == 'search':
        drive_search(w, cons)
    else:
        drive_sub(w, cons, 'sn', random.Random(0), always_skip=True)
    if w.aborted or not cons.done:
        return None
    return w
