"""Running TLC: model checking of sub-system modules (M) and batched trace validation (V)."""

from __future__ import annotations

import json
import os
import re
import shutil
import subprocess
import tempfile
import time

SPEC_DIR = os.path.join(os.path.dirname(os.path.dirname(os.path.abspath(__file__))), 'spec')
JAR_CP = '/opt/veriftools/tla/tla2tools.jar:/opt/veriftools/tla/CommunityModules-deps.jar'


class TLCError(Exception):
    """Machinery failure (exit 2), never a verdict."""


_SCRATCH = None


def scratch() -> str:
    global _SCRATCH
    if _SCRATCH is None:
        base = os.environ.get('TMPDIR', '/tmp')
        _SCRATCH = tempfile.mkdtemp(prefix=f'pfst-verif-{os.getpid()}-', dir=base)
    return _SCRATCH


def cleanup():
    global _SCRATCH
    if _SCRATCH and os.path.isdir(_SCRATCH):
        shutil.rmtree(_SCRATCH, ignore_errors=True)
    _SCRATCH = None


def _java(args, env=None, timeout=3600, heap='8g'):
    cmd = ['java', '-XX:+UseParallelGC', f'-Xmx{heap}', '-Xss64m', '-cp', JAR_CP, 'tlc2.TLC'] + args
    e = dict(os.environ)
    if env:
        e.update(env)
    try:
        p = subprocess.run(cmd, cwd=SPEC_DIR, env=e, stdout=subprocess.PIPE, stderr=subprocess.STDOUT, text=True,
                           timeout=timeout)
    except subprocess.TimeoutExpired as ex:
        raise TLCError(f'TLC timeout after {timeout}s: {" ".join(cmd)}') from ex
    return p.returncode, p.stdout


_RE_STATES = re.compile(r'(\d+) states generated, (\d+) distinct states found, (\d+) states left on queue')
_RE_DEPTH = re.compile(r'The depth of the complete state graph search is (\d+)')


def _stats(out: str) -> dict:
    m = None
    for m in _RE_STATES.finditer(out):
        pass
    st = {'generated': int(m.group(1)), 'distinct': int(m.group(2)), 'queue': int(m.group(3))} if m else {}
    d = _RE_DEPTH.search(out)
    if d:
        st['depth'] = int(d.group(1))
    return st


def run_model(module: str, cfg: str | None = None, workers: int = 16, timeout: int = 3600, coverage: bool = False,
              extra: list | None = None, env: dict | None = None, heap: str = '8g') -> dict:
    """Model-check spec/<module>.tla with spec/<cfg>.cfg. Returns stats; raises TLCError on anything but success or a
    genuine property violation (reported in the result as 'violated')."""
    t0 = time.time()
    meta = tempfile.mkdtemp(prefix='meta-', dir=scratch())
    args = ['-workers', str(workers), '-metadir', meta, '-noGenerateSpecTE']
    if coverage:
        args += ['-coverage', '1']
    if cfg:
        args += ['-config', cfg if cfg.endswith('.cfg') else cfg + '.cfg']
    if extra:
        args += extra
    args.append(module)
    rc, out = _java(args, env=env, timeout=timeout, heap=heap)
    shutil.rmtree(meta, ignore_errors=True)
    res = _stats(out)
    res['wall_s'] = round(time.time() - t0, 2)
    res['rc'] = rc
    res['out'] = out
    res['violated'] = None
    m = re.search(r'Error: Invariant (\S+) is violated|Error: Action property (\S+) is violated|'
                  r'Error: Temporal properties were violated|Error: Deadlock reached|'
                  r'Error: Assumption .* is false', out)
    if m:
        res['violated'] = m.group(1) or m.group(2) or m.group(0)
    elif rc != 0 or ('Model checking completed. No error has been found.' not in out and 'states generated' not in out):
        if '-simulate' in (extra or []) and rc == 0:
            pass
        else:
            raise TLCError(f'TLC failed on {module} (rc={rc}):\n{out[-3000:]}')
    if coverage:
        res['coverage'] = parse_coverage(out)
    return res


_RE_COV = re.compile(r'^<(\w+) line (\d+), col (\d+) to line (\d+), col (\d+) of module (\w+)(?: \([\d ]+\))?>: (\d+):(\d+)', re.M)


def parse_coverage(out: str) -> dict:
    """Per-action (distinct, total) counts from `-coverage 1` output (last report wins)."""
    cov = {}
    for m in _RE_COV.finditer(out):
        cov[m.group(1)] = {'distinct': int(m.group(7)), 'taken': int(m.group(8))}
    return cov


def _match_brackets(s: str, i: int) -> int:
    """s[i:i+2] == '<<' ; return index one past the matching '>>' (strings are skipped)."""
    depth = 0
    n = len(s)
    while i < n:
        c = s[i]
        if c == '"':
            i += 1
            while i < n and s[i] != '"':
                if s[i] == '\\':
                    i += 1
                i += 1
        elif s.startswith('<<', i):
            depth += 1
            i += 1
        elif s.startswith('>>', i):
            depth -= 1
            i += 1
            if depth == 0:
                return i + 1
        i += 1
    raise TLCError('unbalanced VERDICT tuple in TLC output')


_RE_PAIR = re.compile(r'<<\s*(\d+)\s*,\s*"([^"]*)"\s*,\s*"([^"]*)"\s*>>')
_RE_STR = re.compile(r'"([^"]*)"')


def parse_verdicts(out: str) -> dict:
    """{trace id: {'bad': [(step, clause)], 'seen': [clause]}} from PrintT(<<"VERDICT", id, bad, seen>>) lines."""
    res = {}
    i = 0
    start = re.compile(r'<<\s*"VERDICT"')
    while True:
        ms = start.search(out, i)
        if not ms:
            break
        i = ms.start()
        j = _match_brackets(out, i)
        body = out[i:j]
        i = j
        m = re.match(r'<<\s*"VERDICT",\s*(\d+),\s*', body)
        if not m:
            raise TLCError('cannot parse VERDICT: ' + body[:200])
        tid = int(m.group(1))
        rest = body[m.end():]
        # rest = {bad...}, {seen...}>>  -- split at the first '}' that closes the first set
        depth = 0
        k = 0
        for k, c in enumerate(rest):
            if c == '{':
                depth += 1
            elif c == '}':
                depth -= 1
                if depth == 0:
                    break
        badtxt, seentxt = rest[:k + 1], rest[k + 1:]
        res[tid] = {'bad': [(int(a), b, c) for a, b, c in _RE_PAIR.findall(badtxt)],
                    'seen': _RE_STR.findall(seentxt)}
    return res


def run_traces(batch: dict, module: str = 'PfstTrace', cfg: str | None = None, timeout: int = 3600,
               heap: str = '12g', keep: str | None = None) -> tuple[dict, dict]:
    """Validate a batch of recorded traces. Returns (verdicts, stats). Raises TLCError on machinery failure, which
    includes a missing verdict for any trace."""
    t0 = time.time()
    d = tempfile.mkdtemp(prefix='batch-', dir=scratch())
    path = os.path.join(d, 'batch.json')
    with open(path, 'w') as f:
        json.dump(batch, f, separators=(',', ':'))
    size = os.path.getsize(path)
    args = ['-workers', '1', '-metadir', os.path.join(d, 'meta'), '-noGenerateSpecTE',
            '-config', (cfg or module) + '.cfg', module]
    rc, out = _java(args, env={'TRACE_FILE': path}, timeout=timeout, heap=heap)
    if keep:
        shutil.copy(path, keep)
    shutil.rmtree(d, ignore_errors=True)
    if rc != 0 or 'Model checking completed. No error has been found.' not in out:
        i = out.find('Error:')
        raise TLCError(f'TLC trace validation failed (rc={rc}):\n{out[i:i + 1500] if i >= 0 else out[-3000:]}')
    verd = parse_verdicts(out)
    ids = [t['id'] for t in batch['traces']]
    missing = [i for i in ids if i not in verd]
    if missing:
        raise TLCError(f'no verdict for traces {missing[:10]} (of {len(missing)})')
    st = _stats(out)
    st['wall_s'] = round(time.time() - t0, 2)
    st['batch_bytes'] = size
    return verd, st
