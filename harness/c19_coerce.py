"""C19 driver: run coercions of the real pfst and record observations + stdlib oracle facts.

The tables that define the cases (modes, admitted kinds, embeddings, (kind x mode) matrix, put slots) are *not* defined
here: they are emitted by TLC from spec/Coerce.tla (CoerceMC) and passed in as `table`.  This module only
  * builds operands (catalogue x layouts, hosted non-root operands, inputs of tests/data/data_coerce.py),
  * calls pfst (as_(), FST(node, mode), FST(pure AST, mode), put with coerce on/off),
  * projects every tree with harness/proj.py `Tables` (ast walking only),
  * parses result sources with CPython through the spec's embeddings (ast.parse only),
and writes events for spec/CoerceTrace.tla.  No verdict is computed here.
"""

from __future__ import annotations

import ast
import io
import os
import re
import tokenize

from harness.proj import Tables

# ----------------------------------------------------------------------------------------------------------------------
# operand catalogue: (parse mode used to build the operand, source, shape tag)

CATALOGUE = [
    ('expr', 'a', 'name'), ('expr', '_', 'wildcard'), ('expr', 'a.b', 'dotted'), ('expr', 'a.b.c', 'dotted3'),
    ('expr', '1', 'const-int'), ('expr', "'s'", 'const-str'), ('expr', 'None', 'const-none'),
    ('expr', 'True', 'const-bool'), ('expr', '...', 'const-ellipsis'),
    ('expr', '-1', 'neg'), ('expr', '1+2j', 'complex'), ('expr', 'a + b', 'binop'), ('expr', 'a | b', 'bitor'),
    ('expr', 'a.b | 1 | c', 'bitor3'),
    ('expr', 'a or b', 'boolop'), ('expr', 'a < b', 'compare'), ('expr', 'not a', 'unary'),
    ('expr', 'f()', 'call0'), ('expr', 'f(a)', 'call1'), ('expr', 'f(a, b, k=v)', 'call-kw'),
    ('expr', 'f(a.b, *c, k=v, **d)', 'call-star'), ('expr', 'a.b(c=1, d=[e, f])', 'call-attr-nested'),
    ('expr', 'f(g(a), k=h(b))', 'call-nested'),
    ('expr', 'f(k=a, j=b)', 'call-kw2'), ('expr', 'a.b.c.d', 'dotted4'),
    ('expr', 'a[b]', 'subscript'), ('expr', '*a', 'starred'), ('expr', '*a.b', 'starred-dotted'),
    ('expr', '(a, b)', 'tuple2-par'), ('expr', 'a, b', 'tuple2'), ('expr', 'a,', 'tuple1'), ('expr', '()', 'tuple0'),
    ('expr', 'a, b, c', 'tuple3'), ('expr', 'a.b, c.d', 'tuple-dotted'), ('expr', '(a, b), c', 'tuple-nested'),
    ('expr', 'a, *b', 'tuple-star'), ('expr', '1, "s", None', 'tuple-const'), ('expr', 'a, b + c, f(d)', 'tuple-subexpr'),
    ('expr', 'a, k', 'tuple-ak'),
    ('expr', '[a, b]', 'list2'), ('expr', '[]', 'list0'), ('expr', '[a]', 'list1'), ('expr', '[a, *b]', 'list-star'),
    ('expr', '[a, [b, c]]', 'list-nested'), ('expr', '[a.b, c()]', 'list-deco'), ('expr', '[a, b, c, d]', 'list4'),
    ('expr', '{a, b}', 'set2'), ('expr', '{a}', 'set1'), ('expr', '{*a, b}', 'set-star'),
    ('expr', '{a: b}', 'dict1'), ('expr', '{}', 'dict0'), ('expr', '{a: b, **c}', 'dict-star'),
    ('expr', '{1: a, "k": [b, c]}', 'dict-const-nested'), ('expr', '{a.b: c, d: e}', 'dict2'),
    ('expr', 'lambda: a', 'lambda'), ('expr', 'a if b else c', 'ifexp'), ('expr', '[x for x in y]', 'listcomp'),
    ('expr', '(a := b)', 'walrus'), ('expr', '(yield)', 'yield'), ('expr', 'await a', 'await'),
    ('expr_slice', 'a:b', 'slice'), ('expr_slice', 'a:b, c', 'tuple-slice'), ('expr_slice', ':', 'slice-empty'),
    ('expr_arglike', '*not a', 'arglike-only'),
    ('stmt', 'a', 'expr-stmt'), ('stmt', 'a = b', 'assign'), ('stmt', 'a, b', 'expr-stmt-tuple'),
    ('stmt', 'import a.b as c, d', 'import'), ('stmt', 'from . import a as b', 'importfrom'),
    ('stmt', 'with a as b, c: pass', 'with'), ('stmt', 'del a, b', 'delete'), ('stmt', 'pass', 'pass'),
    ('stmt', 'def f(a, b=1): pass', 'funcdef'), ('stmt', 'global a, b', 'global'), ('stmt', 'f(a, k=v)', 'expr-stmt-call'),
    ('stmt', 'a: int = 1', 'annassign'), ('stmt', 'return a', 'return'),
    ('exec', 'a', 'module1'), ('exec', '', 'module0'), ('exec', 'a\nb', 'module2'), ('exec', 'a = 1', 'module-assign'),
    ('exec', 'f(a, k=v)', 'module-call'), ('exec', 'a.b', 'module-dotted'), ('exec', '[a, *b]', 'module-list'),
    ('eval', 'a', 'expression'), ('single', 'a', 'interactive'),
    ('ExceptHandler', 'except a as b: pass', 'handler'), ('_ExceptHandlers', 'except a: pass\nexcept: pass', 'handlers2'),
    ('_ExceptHandlers', '', 'handlers0'),
    ('match_case', 'case a: pass', 'case'), ('_match_cases', 'case a: pass\ncase _: pass', 'cases2'),
    ('_match_cases', '', 'cases0'),
    ('_Assign_targets', 'a =', 'targets1'), ('_Assign_targets', 'a = b =', 'targets2'), ('_Assign_targets', '', 'targets0'),
    ('_Assign_targets', 'a.b = c[0] =', 'targets-attr-sub'), ('_Assign_targets', '(a, b) = c =', 'targets-tuple'),
    ('_Assign_targets', '*a, b =', 'targets-star'), ('_Assign_targets', 'a = b = c =', 'targets3'),
    ('_decorator_list', '@a', 'decos1'), ('_decorator_list', '@a\n@b()', 'decos2'), ('_decorator_list', '', 'decos0'),
    ('_decorator_list', '@a.b\n@c(x=y)', 'decos-attr-call'),
    ('_arglike', 'k=v', 'arglike-kw'), ('_arglike', '**k', 'arglike-dstar'),
    ('_arglikes', '', 'arglikes0'), ('_arglikes', 'a', 'arglikes1'), ('_arglikes', 'a, b', 'arglikes2'),
    ('_arglikes', 'a, k=v', 'arglikes-kw'), ('_arglikes', 'a, *b, k=v, **d', 'arglikes-star'),
    ('_arglikes', 'k=v, j=w', 'arglikes-kwonly'), ('_arglikes', 'a.b, c=d.e', 'arglikes-dotted'),
    ('_arglikes', '*a', 'arglikes-vararg'), ('_arglikes', '**k', 'arglikes-kwarg'),
    ('boolop', 'and', 'op-and'), ('operator', '+', 'op-add'), ('operator', '|', 'op-bitor'), ('unaryop', 'not', 'op-not'),
    ('unaryop', '-', 'op-usub'), ('cmpop', 'is not', 'op-isnot'), ('cmpop', '<', 'op-lt'),
    ('comprehension', 'for a in b', 'comp'), ('comprehension', 'for a in b if c if d', 'comp-ifs'),
    ('comprehension', 'async for a in b', 'comp-async'), ('comprehension', 'for a, b in c', 'comp-tuple'),
    ('_comprehensions', '', 'comps0'), ('_comprehensions', 'for a in b', 'comps1'),
    ('_comprehensions', 'for a in b for c in d if e', 'comps2'),
    ('_comprehension_ifs', '', 'ifs0'), ('_comprehension_ifs', 'if a', 'ifs1'), ('_comprehension_ifs', 'if a if b', 'ifs2'),
    ('_comprehension_ifs', 'if a.b if c(d)', 'ifs-attr-call'), ('_comprehension_ifs', 'if a if b if c', 'ifs3'),
    ('arguments', '', 'args0'), ('arguments', 'a', 'args1'), ('arguments', 'a, b', 'args2'),
    ('arguments', 'a, b=1', 'args-default'), ('arguments', 'a, /, b, *c, d=2, **e', 'args-all'),
    ('arguments', '*a', 'args-vararg'), ('arguments', '**k', 'args-kwarg'),
    ('arguments', 'a: int = 1, *, b: str', 'args-annot'), ('arguments', '*, a, b=1', 'args-kwonly'),
    ('arguments', 'a=1, b=2', 'args-defaults2'), ('arguments', 'a, b=c.d, *e', 'args-default-dotted'),
    ('arguments', 'a, *, k=v', 'args-kwonly-default'), ('arguments', 'a, b, /', 'args-posonly'),
    ('arguments', '*a, b=1', 'args-vararg-kwdefault'), ('arguments', 'a, *b, c', 'args-vararg-kwonly'),
    ('arguments_lambda', 'a, b=1', 'largs-default'), ('arguments_lambda', '*a, **k', 'largs-star'),
    ('arg', 'a', 'arg'), ('arg', 'a: int', 'arg-annot'), ('arg', 'a: b.c', 'arg-annot-dotted'),
    ('keyword', 'a=1', 'kw-const'), ('keyword', 'a=b', 'kw-name'), ('keyword', '**k', 'kw-dstar'),
    ('keyword', 'a=b.c', 'kw-dotted'), ('keyword', 'a=[b, c]', 'kw-list'),
    ('alias', 'a', 'alias'), ('alias', 'a.b', 'alias-dotted'), ('alias', 'a as b', 'alias-as'),
    ('alias', 'a.b.c as d', 'alias-dotted-as'), ('alias', 'a.b.c.d', 'alias-dotted4'), ('alias', '*', 'alias-star'),
    ('_aliases', '', 'aliases0'), ('_aliases', 'a', 'aliases1'), ('_aliases', 'a, b', 'aliases2'),
    ('_aliases', 'a.b, c', 'aliases-dotted'), ('_aliases', 'a as b, c.d as e', 'aliases-as'), ('_aliases', '*', 'aliases-star'),
    ('_aliases', 'a, b, c', 'aliases3'),
    ('_Import_names', 'a.b, c as d', 'import-names'), ('_ImportFrom_names', 'a, b as c', 'importfrom-names'),
    ('withitem', 'a', 'withitem'), ('withitem', 'a as b', 'withitem-as'), ('withitem', 'a.b as c', 'withitem-dotted-as'),
    ('withitem', '(a, b)', 'withitem-tuple'), ('withitem', 'a as (b, c)', 'withitem-as-tuple'),
    ('withitem', 'f(a) as b', 'withitem-call-as'), ('withitem', 'a.b', 'withitem-dotted'),
    ('_withitems', '', 'withitems0'), ('_withitems', 'a', 'withitems1'), ('_withitems', 'a, b', 'withitems2'),
    ('_withitems', 'a as b, c', 'withitems-as'), ('_withitems', 'a as b, c as d', 'withitems-as2'),
    ('_withitems', 'a.b, c()', 'withitems-attr-call'),
    ('pattern', 'a', 'pat-capture'), ('pattern', '_', 'pat-wildcard'), ('pattern', '1', 'pat-int'),
    ('pattern', "'s'", 'pat-str'), ('pattern', 'None', 'pat-none'), ('pattern', 'True', 'pat-true'),
    ('pattern', 'a.b', 'pat-value-dotted'), ('pattern', '[a, b]', 'pat-seq2'), ('pattern', '[a, *b]', 'pat-seq-star'),
    ('pattern', '[a, *_]', 'pat-seq-starwild'), ('pattern', '[]', 'pat-seq0'), ('pattern', '(a, b)', 'pat-seq-par'),
    ('pattern', 'a, b', 'pat-seq-bare'), ('pattern', '[a, [b, c]]', 'pat-seq-nested'),
    ('pattern', '{1: a}', 'pat-map1'), ('pattern', '{1: a, **r}', 'pat-map-rest'), ('pattern', '{}', 'pat-map0'),
    ('pattern', '{"k": a, x.y: [b]}', 'pat-map2'), ('pattern', '{1: a, "k": b, **r}', 'pat-map2-rest'),
    ('pattern', 'c()', 'pat-class0'), ('pattern', 'c(a, b)', 'pat-class2'), ('pattern', 'c(a, k=b)', 'pat-class-kw'),
    ('pattern', 'c.d(a, k=[b, *e])', 'pat-class-nested'), ('pattern', 'c(k=a, j=b)', 'pat-class-kw2'),
    ('pattern', 'a | b', 'pat-or'), ('pattern', '1 | 2 | x.y', 'pat-or3'), ('pattern', 'a as b', 'pat-as'),
    ('pattern', '[a, b] as c', 'pat-seq-as'), ('pattern', '-1', 'pat-neg'), ('pattern', '1+2j', 'pat-complex'),
    ('pattern', '*a', 'pat-star'), ('pattern', '(a)', 'pat-grouped'),
    ('_pattern_attrlikes', '', 'pattrs0'), ('_pattern_attrlikes', 'a', 'pattrs1'), ('_pattern_attrlikes', 'a, b', 'pattrs2'),
    ('_pattern_attrlikes', 'a, k=b', 'pattrs-kw'), ('_pattern_attrlikes', 'k=a, j=b', 'pattrs-kw2'),
    ('_pattern_attrlikes', '1, k=[a, *b]', 'pattrs-nested'),
    ('type_param', 'T', 'tparam'), ('type_param', 'T: int', 'tparam-bound'), ('type_param', '*T', 'tparam-tuple'),
    ('type_param', '**T', 'tparam-spec'), ('type_param', 'T: (a, b)', 'tparam-constraints'),
    ('_type_params', '', 'tparams0'), ('_type_params', 'T', 'tparams1'), ('_type_params', 'T, U', 'tparams2'),
    ('_type_params', 'T: int, *U, **V', 'tparams-all'),
]

# hosted (non-root) operands: (host source parsed 'exec', attribute path from the Module, shape tag)
HOSTED = [
    ('import a.b', ['body', 0, 'names', 0], 'child-alias-dotted'),
    ('import a as b, c', ['body', 0, 'names', 1], 'child-alias'),
    ('f(a, k=v)', ['body', 0, 'value', 'keywords', 0], 'child-keyword'),
    ('f(a, k=v)', ['body', 0, 'value'], 'child-call'),
    ('def f(a, b=1, *c): pass', ['body', 0, 'args'], 'child-arguments'),
    ('def f(a: int, b): pass', ['body', 0, 'args', 'args', 0], 'child-arg'),
    ('with a as b, c: pass', ['body', 0, 'items', 0], 'child-withitem-as'),
    ('with a as b, c: pass', ['body', 0, 'items', 1], 'child-withitem'),
    ('match x:\n case [a, *b]: pass', ['body', 0, 'cases', 0, 'pattern'], 'child-pat-seq'),
    ('match x:\n case c(a, k=b): pass', ['body', 0, 'cases', 0, 'pattern'], 'child-pat-class'),
    ('match x:\n case {1: a, **r}: pass', ['body', 0, 'cases', 0, 'pattern'], 'child-pat-map'),
    ('a = b = c', ['body', 0, 'targets', 0], 'child-name-store'),
    ('a.b = c', ['body', 0, 'targets', 0], 'child-attr-store'),
    ('[x for x in y if z]', ['body', 0, 'value', 'generators', 0], 'child-comprehension'),
    ('x = [a, b.c]', ['body', 0, 'value'], 'child-list'),
    ('x = (a, b)', ['body', 0, 'value'], 'child-tuple'),
    ('x = {a: b, **c}', ['body', 0, 'value'], 'child-dict'),
    ('class c(a, b.c): pass', ['body', 0, 'bases', 1], 'child-base-dotted'),
    ('type A[T: int] = v', ['body', 0, 'type_params', 0], 'child-tparam'),
    ('x = 1\ny', ['body', 1], 'child-expr-stmt'),
]


# ----------------------------------------------------------------------------------------------------------------------
# seeded random operands: containers of every convertible family filled with 0..4 elements drawn from pools

_ATOMS = ['a', 'b', 'x.y', 'p.q.r', '1', "'s'", 'None', '_', 'f()', 'g(a, k=b)', '[c, d]', '(e, f)', '-1', 'a + b',
          '{1: v}', 'h.i(j)', '*s', '*t.u']
_PATS = ['a', '_', '1', "'s'", 'None', 'x.y', '[c, d]', '(e, f)', 'k()', 'k(a, b=c)', '{1: v}', '{1: v, **r}', '*s', '*_',
         'a | b', 'a as b', '-1']


def random_operands(rng, n):
    """n (mode, source, shape) triples; sources that pfst does not build are dropped by the caller"""
    out = []
    for _ in range(n):
        fam = rng.choice(['Tuple', 'List', 'Set', 'Dict', 'Call', '_arglikes', 'arguments', '_aliases', '_withitems',
                          'pattern-seq', 'pattern-class', 'pattern-map', '_pattern_attrlikes', '_type_params',
                          '_decorator_list', '_Assign_targets', '_comprehension_ifs', 'keyword', 'withitem'])
        k = rng.choice([0, 1, 1, 2, 2, 3, 4])
        at = [rng.choice(_ATOMS) for _ in range(k)]
        nm = [rng.choice('abcdefg') + str(i) for i in range(k)]
        if fam == 'Tuple':
            src, mode = (', '.join(at) + (',' if k == 1 else '')) if k else '()', 'expr'
        elif fam == 'List':
            src, mode = '[' + ', '.join(at) + ']', 'expr'
        elif fam == 'Set':
            src, mode = ('{' + ', '.join(at) + '}') if k else '{*()}', 'expr'
        elif fam == 'Dict':
            src, mode = '{' + ', '.join(('**' + a.lstrip('*')) if a.startswith('*') else f'{n_}: {a}'
                                        for n_, a in zip(nm, at)) + '}', 'expr'
        elif fam in ('Call', '_arglikes'):
            pos = [a for a in at if rng.random() < 0.6]
            kws = [f'{n_}={a.lstrip("*")}' for n_, a in zip(nm, at) if a not in pos]
            if rng.random() < 0.2:
                kws.append('**kw')
            body = ', '.join(pos + kws)
            src, mode = (f'fn({body})', 'expr') if fam == 'Call' else (body, '_arglikes')
        elif fam == 'arguments':
            parts = []
            dflt = False
            for n_, a in zip(nm, at):
                if rng.random() < 0.4 or dflt:
                    parts.append(f'{n_}={a.lstrip("*")}')
                    dflt = True
                else:
                    parts.append(n_ + (': int' if rng.random() < 0.2 else ''))
            if rng.random() < 0.3:
                parts.append('*va')
                if rng.random() < 0.5:
                    parts.append('ko' + ('=1' if rng.random() < 0.5 else ''))
            if rng.random() < 0.2:
                parts.append('**kw')
            src, mode = ', '.join(parts), 'arguments'
        elif fam == '_aliases':
            src, mode = ', '.join(rng.choice(['{0}', '{0}.m', '{0} as z{0}', '{0}.m.n as z{0}']).format(n_) for n_ in nm), \
                '_aliases'
        elif fam in ('_withitems', 'withitem'):
            its = [a.lstrip('*') + rng.choice(['', '', f' as {n_}', f' as ({n_}, w)']) for n_, a in zip(nm, at)]
            src, mode = (', '.join(its), '_withitems') if fam == '_withitems' else ((its or ['a'])[0], 'withitem')
        elif fam == 'pattern-seq':
            ps = [rng.choice(_PATS) for _ in range(k)]
            stars = [i for i, p in enumerate(ps) if p.startswith('*')]
            for i in stars[1:]:
                ps[i] = ps[i].lstrip('*')
            src, mode = rng.choice(['[{}]', '({},)' if k == 1 else '({})', '[{}]']).format(', '.join(ps)), 'pattern'
        elif fam in ('pattern-class', '_pattern_attrlikes'):
            ps = [rng.choice(_PATS).lstrip('*') for _ in range(k)]
            cut = rng.randint(0, k)
            body = ', '.join(ps[:cut] + [f'{n_}={p}' for n_, p in zip(nm[cut:], ps[cut:])])
            src, mode = (f'cls.x({body})', 'pattern') if fam == 'pattern-class' else (body, '_pattern_attrlikes')
        elif fam == 'pattern-map':
            ps = [rng.choice(_PATS).lstrip('*') for _ in range(k)]
            src, mode = '{' + ', '.join([f'{i}: {p}' for i, p in enumerate(ps)] + (['**rest'] if rng.random() < 0.3 else [])) \
                + '}', 'pattern'
        elif fam == '_type_params':
            src, mode = ', '.join(rng.choice(['{0}', '{0}: int', '*{0}', '**{0}', '{0}: (a, b)']).format(n_.upper())
                                  for n_ in nm), '_type_params'
        elif fam == '_decorator_list':
            src, mode = '\n'.join('@' + a.lstrip('*') for a in at), '_decorator_list'
        elif fam == '_Assign_targets':
            tg = [rng.choice(['a', 'b.c', 'd[0]', '(e, f)', '[g, *h]', '*i, j']) for _ in range(k)]
            src, mode = ' '.join(t + ' =' for t in tg), '_Assign_targets'
        elif fam == '_comprehension_ifs':
            src, mode = ' '.join('if ' + a.lstrip('*') for a in at), '_comprehension_ifs'
        else:  # keyword
            src, mode = rng.choice(['{0}={1}', '**{1}']).format((nm or ['k'])[0], (at or ['v'])[0].lstrip('*')), 'keyword'
        out.append((mode, src, 'random-' + fam))
    return out


LAYOUTS = ('base', 'spaces', 'tight', 'newline', 'comment', 'backslash', 'parens')

_EXPR_MODES = {'expr', 'expr_slice', 'expr_arglike'}


def layout(src: str, mode: str, name: str) -> str | None:
    """A candidate re-layout of an operand source (None = not applicable). Accepted by the caller only if it builds
    an operand with the same structure as the base layout."""
    if name == 'base':
        return src
    if name == 'parens':
        return '(' + src + ')' if mode in _EXPR_MODES or mode in ('pattern', 'withitem') else None
    if ',' not in src or "'" in src or '"' in src:
        return None
    if name == 'spaces':
        return re.sub(r',\s*', ' ,  ', src).rstrip(' ') if not src.endswith(',') else None
    if name == 'tight':
        return re.sub(r',\s*', ',', src)
    if name == 'newline':
        return re.sub(r', ', ',\n  ', src)
    if name == 'comment':
        return re.sub(r', ', ', # c\n  ', src)
    if name == 'backslash':
        return re.sub(r', ', ', \\\n  ', src)
    return None


# ----------------------------------------------------------------------------------------------------------------------
# stdlib-only helpers

_SKIP_TOK = {tokenize.NL, tokenize.NEWLINE, tokenize.COMMENT, tokenize.INDENT, tokenize.DEDENT, tokenize.ENDMARKER}


def ntokens(src: str) -> int:
    """number of significant tokens of a source text (-1 if it does not tokenize)"""
    n = 0
    try:
        for t in tokenize.generate_tokens(io.StringIO(src).readline):
            if t.type not in _SKIP_TOK:
                n += 1
    except (tokenize.TokenError, IndentationError, SyntaxError):
        return -1
    return n


def blank_comments(src: str) -> str:
    """replace end-of-line comments by nothing (node positions unchanged); tokenised inside parentheses so that a
    fragment with bare line breaks tokenises"""
    lines = src.split('\n')
    try:
        toks = list(tokenize.generate_tokens(io.StringIO('(\n' + src + '\n)').readline))
    except (tokenize.TokenError, IndentationError, SyntaxError):
        return src
    for t in toks:
        if t.type == tokenize.COMMENT:
            ln = t.start[0] - 2
            if 0 <= ln < len(lines):
                lines[ln] = lines[ln][:t.start[1]].rstrip()
    return '\n'.join(lines)


def embed_text(src: str, emb: dict) -> str:
    if emb.get('bs'):
        src = blank_comments(src)
        body = src.rstrip('\n')
        src = body.replace('\n', '\\\n') + src[len(body):]
    if emb['dca']:
        src = '\n'.join(' ' * emb['dca'] + ln for ln in src.split('\n'))
    return emb['pre'] + src + emb['post']


def embed_parse(src: str, emb: dict):
    """CPython's parse of the embedding of `src`; AST or None."""
    text = embed_text(src, emb)
    try:
        if emb['id'] in ('eval', 'single'):
            return ast.parse(text, mode=emb['id'])
        return ast.parse(text)
    except (SyntaxError, ValueError, RecursionError, MemoryError):
        return None


def clone_ast(a):
    """Pure AST (no positions, no pfst links) with the same structure, built by ast walking only."""
    if isinstance(a, list):
        return [clone_ast(x) for x in a]
    if not isinstance(a, ast.AST):
        return a
    kw = {}
    for name in a._fields:
        if hasattr(a, name):
            kw[name] = clone_ast(getattr(a, name))
    return a.__class__(**kw)


def struct_diff(a, b, path=''):
    """first structural difference (kinds / primitive values, no positions) between two ASTs - replay detail only"""
    if isinstance(a, ast.AST) or isinstance(b, ast.AST):
        if a.__class__ is not b.__class__:
            return f'{path or "/"}: {a.__class__.__name__} != {b.__class__.__name__}'
        for name in a._fields:
            if name == 'ctx':
                continue
            d = struct_diff(getattr(a, name, None), getattr(b, name, None), f'{path}/{name}')
            if d:
                return d
        return None
    if isinstance(a, list) or isinstance(b, list):
        if not (isinstance(a, list) and isinstance(b, list)) or len(a) != len(b):
            return f'{path}: length'
        for i, (x, y) in enumerate(zip(a, b)):
            d = struct_diff(x, y, f'{path}[{i}]')
            if d:
                return d
        return None
    return None if (a == b and type(a) is type(b)) else f'{path}: {a!r} != {b!r}'


def ast_nodes(a):
    out = []
    stack = [a]
    while stack:
        x = stack.pop()
        if isinstance(x, ast.AST):
            out.append(x)
            for name in x._fields:
                v = getattr(x, name, None)
                if isinstance(v, list):
                    stack.extend(v)
                elif isinstance(v, ast.AST):
                    stack.append(v)
    return out


def dotted_parts(tab: Tables, have: dict):
    """lexical fact for the spec's dotted-name normalisation: string primitives containing '.' -> labels of parts"""
    from harness.proj import prim_repr
    out = []
    for i, e in enumerate(tab.stab, 1):
        if i in have:
            continue
        have[i] = True
        if e['k'] == '#' and e['v'][:1] == 's' and '.' in e['v']:
            try:
                s = ast.literal_eval(e['v'][1:])
            except (ValueError, SyntaxError):
                continue
            if isinstance(s, str) and all(p.isidentifier() for p in s.split('.')):
                out.append({'s': i, 'p': [prim_repr(p) for p in s.split('.')]})
    return out


# ----------------------------------------------------------------------------------------------------------------------

class Recorder:
    def __init__(self, table: dict):
        self.tab = Tables()
        self.modes = {m['mode']: m for m in table['modes']}
        self.slots = table['slots']
        self._dots_seen = {}
        self.dots = []

    # -- operands ------------------------------------------------------------------------------------------------------
    @staticmethod
    def build(spec):
        """spec = ('src', mode, src) | ('host', host_src, path). Returns the operand FST node (fresh each call)."""
        from fst import FST
        if spec[0] == 'src':
            return FST(spec[2], spec[1])
        n = FST(spec[1], 'exec')
        for p in spec[2]:
            n = n[p] if isinstance(p, int) else getattr(n, p)
        return n

    def embed_facts(self, src: str, mode_row: dict):
        """per embedding alternative of the mode: [ok, root pid of CPython's parse of the embedding]"""
        out = []
        for emb in mode_row['embeds']:
            t = embed_parse(src, emb)
            out.append({'ok': t is not None, 'root': self.tab.pid(t) if t is not None else 0})
        return out

    def op_state(self, n, a0=None):
        """projection of an operand's *root* tree + linkage facts"""
        root = n.root
        ok = True
        try:
            for x in ast_nodes(root.a):
                if x.f.a is not x:
                    ok = False
        except Exception:  # noqa: BLE001
            ok = False
        try:
            text = root.src
        except Exception:  # noqa: BLE001
            text = None
        s, p = self.tab.node(root.a)
        return {'linked': ok and (a0 is None or n.a is a0), 'text': self.tab.text(text) if text is not None else 0,
                's': s, 'p': p}

    def result_facts(self, r, n, mode: str, op_ids):
        from fst import FST
        a = r.a
        kind = a.__class__.__name__
        s, p = self.tab.node(a)
        try:
            src = r.src
        except Exception:  # noqa: BLE001
            src = None
        row = self.modes.get(kind) if mode == 'all' else self.modes[mode]
        res = {'kind': kind, 's': s, 'p': p, 'same': r is n, 'isroot': bool(r.is_root),
               'shared': sum(1 for x in ast_nodes(a) if id(x) in op_ids),
               'ntok': ntokens(src) if src is not None else -1,
               'text': self.tab.text(src) if src is not None else 0,
               'alts': self.embed_facts(src, row) if (src is not None and row) else []}
        return res, src

    # -- one case ------------------------------------------------------------------------------------------------------
    def case(self, tid: int, spec, mode: str, shape: str, lay: str, routes, put_slots=True):
        """Run all routes of one (operand, mode) case. Returns the trace dict (or None if the operand cannot be built)."""
        from fst import FST
        try:
            n0 = self.build(spec)
        except Exception:  # noqa: BLE001
            return None
        isroot = bool(n0.is_root)
        okind = n0.a.__class__.__name__
        os_, op_ = self.tab.node(n0.a)
        try:
            osrc = n0.src if isroot else n0.copy().src
        except Exception:  # noqa: BLE001
            osrc = None
        row = self.modes[mode] if mode != 'all' else self.modes.get(okind)
        op = {'kind': okind, 's': os_, 'p': op_, 'root': isroot,
              'alts': self.embed_facts(osrc, row) if (isroot and osrc is not None and row) else []}
        steps = []
        scripts = []
        ref = []  # result AST of the first successful formatted route (replay detail only)

        def run(call, copy, fn, n, pure=None):
            """fn() performs the call on operand n; record the event"""
            keep = ast_nodes(n.root.a) if n is not None else ast_nodes(pure)
            ids = {id(x) for x in keep}
            a0 = n.a if n is not None else None
            pre = self.op_state(n) if n is not None else {'linked': True, 'text': 0, 's': self.tab.sid(pure),
                                                           'p': self.tab.pid(pure)}
            ev = {'call': call, 'copy': copy, 'root': isroot if n is not None else True, 'pre': pre}
            try:
                r = fn()
            except Exception as exc:  # noqa: BLE001
                ev.update(outcome='raise', exc=type(exc).__name__, msg=str(exc)[:160],
                          res={'kind': '', 's': 0, 'p': 0, 'same': False, 'isroot': False, 'shared': 0, 'ntok': 0,
                               'text': 0, 'alts': []})
                rsrc = None
                diff = None
            else:
                res, rsrc = self.result_facts(r, n, mode, ids)
                ev.update(outcome='ok', exc='', msg='', res=res)
                diff = None
                if call != 'ast' and not ref:
                    ref.append(r.a)
                elif call == 'ast' and ref:
                    diff = struct_diff(ref[0], r.a)
            if n is not None:
                preserved = copy or not isroot
                ev['post'] = self.op_state(n, a0) if preserved else pre
            else:
                ev['post'] = {'linked': True, 'text': 0, 's': self.tab.sid(pure), 'p': self.tab.pid(pure)}
            del keep
            steps.append(ev)
            scripts.append({'call': call, 'copy': copy, 'result_src': rsrc, 'result_kind': ev['res']['kind'],
                            'exc': ev['exc'], 'msg': ev['msg'], 'diff': diff})
            return ev

        for route in routes:
            try:
                n = self.build(spec)
            except Exception:  # noqa: BLE001
                continue
            if route == 'as_':
                run('as_', False, lambda n=n: n.as_(mode), n)
            elif route == 'as_copy':
                run('as_', True, lambda n=n: n.as_(mode, copy=True), n)
            elif route == 'ctor':
                run('ctor', True, lambda n=n: FST(n, mode), n)
            elif route == 'ctor_nocopy':
                run('ctor', False, lambda n=n: FST(n, mode, copy=False), n)
            elif route == 'ast':
                pa = clone_ast(n.a)
                run('ast', True, lambda pa=pa: FST(pa, mode), None, pure=pa)

        if put_slots:
            for slot in self.slots:
                if slot['mode'] != mode:
                    continue
                self.puts(spec, mode, slot, steps, scripts)

        self.dots += dotted_parts(self.tab, self._dots_seen)
        return {'id': tid, 'mode': mode, 'op': op, 'steps': steps}, \
               {'spec': list(spec), 'mode': mode, 'shape': shape, 'layout': lay, 'opsrc': osrc, 'opkind': okind,
                'routes': list(routes), 'events': scripts}

    # -- puts ----------------------------------------------------------------------------------------------------------
    def target(self, slot):
        from fst import FST
        root = FST(slot['tmpl'], 'exec')
        t = root
        for p in slot['path']:
            v = getattr(t, p['n'])
            t = v[p['i'] - 1] if isinstance(getattr(t.a, p['n']), list) else v
        return root, t

    def tstate(self, root):
        try:
            text = root.src
        except Exception:  # noqa: BLE001
            text = None
        s, p = self.tab.node(root.a)
        ps = 0
        if text is not None:
            try:
                ps = self.tab.sid(ast.parse(text))
            except (SyntaxError, ValueError):
                ps = 0
        return {'s': s, 'p': p, 'text': self.tab.text(text) if text is not None else 0, 'srcS': ps}

    def do_put(self, t, slot, code, coerce):
        f = slot['field']
        if slot['form'] == 'one':
            return t.put(code, field=f, coerce=coerce)
        if slot['form'] == 'elt':
            return t.put(code, 0, field=f, coerce=coerce)
        return t.put_slice(code, 'end', 'end', f, coerce=coerce)

    def puts(self, spec, mode, slot, steps, scripts):
        def as_copy(n):
            return n.copy() if not n.is_root else n

        for call in ('putc', 'pute', 'putn'):
            try:
                n = as_copy(self.build(spec))
                root, t = self.target(slot)
            except Exception:  # noqa: BLE001
                continue
            pre = self.tstate(root)
            ev = {'call': call, 'copy': False, 'root': True, 'slot': slot['id'], 'pre': pre,
                  'res': {'kind': '', 's': 0, 'p': 0, 'same': False, 'isroot': False, 'shared': 0, 'ntok': 0, 'text': 0,
                          'alts': []}}
            conv = 'n/a'
            try:
                if call == 'pute':
                    try:
                        code = n.as_(mode)
                        conv = 'ok'
                    except Exception as exc:  # noqa: BLE001
                        conv = 'raise'
                        raise
                    self.do_put(t, slot, code, True)
                else:
                    self.do_put(t, slot, n, call == 'putc')
            except Exception as exc:  # noqa: BLE001
                ev.update(outcome='raise', exc=type(exc).__name__, msg=str(exc)[:160])
            else:
                ev.update(outcome='ok', exc='', msg='')
            ev['conv'] = conv
            ev['post'] = self.tstate(root)
            steps.append(ev)
            try:
                psrc = root.src
            except Exception:  # noqa: BLE001
                psrc = None
            scripts.append({'call': call, 'slot': slot['id'], 'post_src': psrc, 'exc': ev['exc'], 'msg': ev['msg'],
                            'conv': conv})

    def batch(self, traces):
        d = self.tab.dump()
        d['dots'] = self.dots
        d['traces'] = traces
        return d


# ----------------------------------------------------------------------------------------------------------------------
# extra operands: inputs (only) of the repository's own coercion cases

def repo_inputs(limit=None):
    """(parse mode, source) pairs of tests/data/data_coerce.py - inputs only, never the recorded outputs."""
    path = '/repo/tests/data/data_coerce.py'
    out = []
    try:
        text = open(path).read()
    except OSError:
        return out
    tree = ast.parse(text)
    seen = set()
    for node in ast.walk(tree):
        if isinstance(node, ast.Tuple) and len(node.elts) >= 6:
            e = node.elts[5]
            if isinstance(e, ast.Tuple) and len(e.elts) == 2 and all(isinstance(x, ast.Constant) and
                                                                     isinstance(x.value, str) for x in e.elts):
                key = (e.elts[0].value, e.elts[1].value)
                if key not in seen:
                    seen.add(key)
                    out.append(key)
    return out[:limit] if limit else out
