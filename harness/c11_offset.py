"""C11 driver: trivia splices through the public `put_src(..., action='offset')`.

Direction V: every gap between tokens of corpus programs x trivia-preserving replacements, the call made on the innermost node
(by CPython's own positions) that contains both neighbouring tokens.  Direction G: instances emitted by spec/OffsetGen.tla are
rendered as Python expressions and replayed.  Only observations (what pfst answered) and stdlib oracle facts (ast / tokenize /
str splicing) are recorded; spec/OffsetTrace.tla gives the verdicts.
"""

from __future__ import annotations

import ast
import io
import random
import tokenize
import warnings

from harness.proj import Tables, try_parse

# `1if x else y` (a deleted blank after a number) is the same token sequence and still valid, CPython only warns
warnings.filterwarnings('ignore', category=SyntaxWarning)

T = tokenize
NOT_REAL = {T.NL, T.COMMENT, T.NEWLINE, T.INDENT, T.DEDENT, T.ENDMARKER}
FSTART = getattr(T, 'FSTRING_START', -1)
FEND = getattr(T, 'FSTRING_END', -2)

REPL_INLINE = ['', ' ', '  ', '\\\n ', ' # c\n', '\n', '\n  ', ' \\\n', '# é\n ']
# small sources sampled densely in quick and enumerated completely in thorough (shapes the corpus sample may miss: decorators, implicit string
# concatenation, non-ASCII lines, one-line compound statements, slices, patterns)
EXTRA_SOURCES = [
    "@deco(a, b)\n@ other\ndef f(x):\n    return x\n@ d1\n@d2 (x)\nclass D: pass\n",
    "class C(A, B):\n    @ prop\n    def m(self, a=1, *b, c: int = 2, **d) -> None:\n        return [a, (b), {c: d}]  # \u00e9\n",
    "x = ('a' '\u00e9'\n     'c')\ny = [i for i in r if i]; z = lambda a, b=1: a\n",
    "with a as b, c as d: pass\nmatch v:\n    case [1, *r] | {'k': w}: pass\n",
    "\u00e9 = f(\u00e9, *a, k=v)[1:2, ::3]\nif \u00e9: \u00e9 += 1\nelse: del \u00e9\n",
    "def g(): \n  try: pass\n  except (A, B) as e: raise X from e\n  finally: return\n",
    # children whose syntax order is not field order (the offset walk's early `break`s rely on syntax order)
    "r = f(k=1, *a, j=2, **kw)\ns = g(k=1, *a)\nclass K(A, m=M, *B): pass\n"
    "def h(p=0, /, q=1, *, s=2, t=3): return {p: q, **s, t: 4}\n"
    "match v:\n    case {'k': w, 'j': u, **z}: pass\n"
    "try: pass\nexcept E: pass\nelse: x = [1]\nfinally: pass\n",
]

# Everything the offset walk special-cases, in MULTI-LINE form with token gaps on each of its lines (`x (y)` is a call whose
# node ends on the line it is on).  Small on purpose: enumerated completely in every tier.
#  - decorators (lineno of the definition is past its decorators): first and later ones, multi-line, nested calls,
#    on def / async def / class / method
#  - nodes without own positions (arguments, comprehension, withitem, match_case, operators)
#  - children whose syntax order interleaves fields (Call / ClassDef args+keywords, Dict, MatchMapping, defaults, Compare)
MULTILINE_SOURCES = [
    "@deco(g (a, b), h.i,\n      c (d))\n@ second(\n    x (y))\ndef f(): pass\n",
    "@ d.e(g (a)[0], k=h (b),\n       *c (1))\nasync def f(): pass\n@(m . n\n  (p (q), r))\n@ last\nclass C(A,\n        B): pass\n",
    "class K:\n    @ wrap(inner (a, b),\n           c (d))\n    @ again (\n        e)\n    def m(self): pass\n",
    "def f(a, b=g (1),\n      /, c=h (2), *d,\n      e=i (3), **k): pass\n"
    "r = [x (y) for x in p (q)\n     if x if y (z)\n     for z in w (v)]\n",
    "with (a (b) as c,\n      d (e) as f): pass\n"
    "match s (t):\n    case [a, b (c=1),\n          *r] if g (h): pass\n    case {'k': v (),\n          **z}: pass\n",
    "r = f(a (1), k=b (2),\n      *c (3), j=d (4),\n      **e (5))\nclass K(A (1), m=M (2),\n        *B (3)): pass\n",
    "d = {a (1): b (2),\n     **c (3), e: f (4)}\nx = a (1) < b (2) < \\\n    c (3)\ny = lambda p, q=g (1), *, \\\n    s=h (2): p (q)\n",
    # first decorators whose grouping parenthesis / `@` is on an earlier line than the decorator expression
    "@(\n  deco)\nclass C: pass\n@ (\n  a . b (c))\ndef f(): pass\n@ \\\n  (\n  d (e))\nasync def g(): pass\n",
    # f-strings: plain, self-documenting (`=`), conversions, format specs with nested fields, nested and multi-line
    # triple-quoted f-strings, non-ASCII text before / inside / after (AST columns are UTF-8 bytes)
    "\u00e9 = 1; x = f'pr\u00e9{a  + b = }' ; y = f'{ (a)= !r}\u00fc'\n",
    "z = f'{a  + \"\u00fc\" = :>5}{ b !r} \u03bb {c:{ w }}'\n",
    "w = f\'\'\'\u03b1{a +\n  \u03bb  = }\u03b2 {\n  b (c) }\'\'\'\n",
    "v = f'\u00e9{ f\"{ a  = }\u00fc\" + g (x) }'\nu = f'{ a }{ b  !s:>{ w }}' f' \u00e9{ c = }'\n",
    # derived extents: own grouping parentheses (after '(' / before ')' / between '))') and trailing comments of blocks
    "x = ( a  ) + ( ( b ) )\ny = f( ( c ) , ( d  ),\n       k=( e  ) )\nz = ( ( p ) , ( q  ) )\n",
    "if ( a  ):  # c1\n    pass  # c2\nelif ( ( b ) ) : pass  # c3\nwhile ( c ): # c4\n    x = ( 1  ) # c5\n",
    "def f( a = ( 1  ) ):  # c\n    return ( a  ) # d\nfor i in ( x  ) :  # e\n    pass  # f\nwith ( ( m ) ) as n:  # g\n    pass\n"
    "match ( s  ):\n    case ( ( 1 ) ) | [ ( a  ) ]:  # h\n        pass # i\n",
]


def explode(src: str) -> str:
    """Layout family: every bracketed construct in multi-line form - a line break (+ indentation) after every opening
    bracket and every comma inside brackets.  stdlib only; returned unchanged unless it is the same token sequence."""
    tk = toks(src)
    if tk is None:
        return src
    lines = src.split('\n')
    depth = fdepth = 0
    cuts = []
    for t in tk:
        if t.type == FSTART:
            fdepth += 1
        elif t.type == FEND:
            fdepth -= 1
        if t.type != T.OP or fdepth > 0:
            continue
        if t.string in '([{':
            depth += 1
            cuts.append((t.end[0] - 1, t.end[1], depth))
        elif t.string in ')]}':
            depth -= 1
        elif t.string == ',' and depth > 0:
            cuts.append((t.end[0] - 1, t.end[1], depth))
    for ln, col, d in reversed(cuts):
        l = lines[ln]
        if not l[col:].strip() or l[col:].lstrip().startswith('#'):
            continue  # already at a line end
        ind = len(l) - len(l.lstrip())
        lines[ln: ln + 1] = [l[:col], ' ' * (ind + 2 * d) + l[col:].lstrip()]
    new = '\n'.join(lines)
    tn = toks(new)
    if tn is None or sig(tn) != sig(tk) or try_parse(new) is None:
        return src
    return new

REPL_LINES = ['', '\n', '# c\n', '\n\n', '    # c\n', '\n# é\n']


# ----------------------------------------------------------------------------------------------------------------------
# stdlib facts about a source

def toks(src: str):
    try:
        return list(T.generate_tokens(io.StringIO(src).readline))
    except (T.TokenError, IndentationError, SyntaxError):
        return None


def sig(tk):
    """The non-trivia token sequence (a trivia-preserving replacement leaves it unchanged)."""
    return [(t.type, '' if t.type == T.NEWLINE else t.string) for t in tk if t.type not in (T.NL, T.COMMENT)]


def bcol(lines, ln, col):
    return len(lines[ln][:col].encode())


def splice(src: str, p, q, r: str) -> str:
    lines = src.split('\n')
    head = lines[p[0]][:p[1]]
    tail = lines[q[0]][q[1]:]
    lines[p[0]: q[0] + 1] = (head + r + tail).split('\n')
    return '\n'.join(lines)


def splice_text(S, p, q) -> str:
    """The old text of the spot [p, q)."""
    if p[0] == q[0]:
        return S.lines[p[0]][p[1]:q[1]]
    return '\n'.join([S.lines[p[0]][p[1]:]] + S.lines[p[0] + 1:q[0]] + [S.lines[q[0]][:q[1]]])


def end_of(p, r: str):
    rl = r.split('\n')
    return (p[0], p[1] + len(rl[0])) if len(rl) == 1 else (p[0] + len(rl) - 1, len(rl[-1]))


class Src:
    """A source with its tokens, CPython tree and spot candidates (all stdlib)."""

    def __init__(self, src: str):
        self.src = src
        self.lines = src.split('\n')
        self.tk = toks(src)
        self.tree = try_parse(src)
        self.ok = self.tk is not None and self.tree is not None
        if self.ok:
            self.sig = sig(self.tk)
            self.real = [t for t in self.tk if t.type not in NOT_REAL]

    # token coordinates -> (0-based line, char col)
    @staticmethod
    def tstart(t):
        return (t.start[0] - 1, t.start[1])

    @staticmethod
    def tend(t):
        if t.type in (T.NEWLINE, T.NL) and t.string:
            return (t.end[0], 0)  # the position after the line break
        return (t.end[0] - 1, t.end[1])

    def spots(self):
        """[(p, q, type)]: A = between consecutive tokens of the stream, B = between consecutive real tokens across
        comments / newlines inside a logical line, C = whole lines between logical lines, file start and end."""
        out = []
        tk = self.tk
        n = len(tk)
        nl = len(self.lines)
        for i in range(n - 1):
            a, b = tk[i], tk[i + 1]
            # f-strings are not skipped: their literal text is FSTRING_MIDDLE tokens (a change there changes the token
            # sequence and is outside the domain), the expression parts of the fields are ordinary tokens with ordinary gaps
            if a.type in (T.INDENT, T.DEDENT, T.ENDMARKER):
                continue
            if a.type in (T.NEWLINE, T.NL):
                if a.type == T.NEWLINE and a.string:
                    # C: from the line after the logical line to the line of the next real token
                    j = i + 1
                    while j < n and tk[j].type in (T.NL, T.COMMENT, T.INDENT, T.DEDENT):
                        j += 1
                    if j < n and tk[j].type != T.ENDMARKER:
                        out.append(((a.end[0], 0), (tk[j].start[0] - 1, 0), 'C'))
                    elif j < n and a.end[0] < nl:
                        out.append(((a.end[0], 0), (nl - 1, len(self.lines[-1])), 'C'))
                continue
            if b.type in (T.INDENT, T.DEDENT, T.ENDMARKER):
                continue
            pa, pb = self.tend(a), self.tstart(b)
            if pa <= pb:
                out.append((pa, pb, 'A'))
            if a.type not in NOT_REAL and b.type in (T.NL, T.COMMENT):
                j = i + 1
                while j < n and tk[j].type in (T.NL, T.COMMENT):
                    j += 1
                if j < n and tk[j].type not in (T.INDENT, T.DEDENT, T.ENDMARKER) and j > i + 1:
                    pj = self.tstart(tk[j])
                    if pa <= pj and (pa, pj) != (pa, pb):
                        out.append((pa, pj, 'B'))
        first = next((t for t in tk if t.type not in (T.NL, T.COMMENT, T.INDENT, T.DEDENT)), None)
        if first is not None and first.type != T.ENDMARKER:
            out.append(((0, 0), (first.start[0] - 1, 0), 'C'))
        return out

    def fields(self):
        """[(start, end, is_debug)] of every f-string replacement field `{...}` (positions of the braces, 0-based line /
        char col), from the token stream: a field is self-documenting when an `=` directly precedes `}`, `!` or `:` at
        field level."""
        if hasattr(self, '_fields'):
            return self._fields
        out, stack = [], []
        tk = self.tk
        for i, t in enumerate(tk):
            if t.type == FSTART:
                stack.append(['f'])
            elif t.type == FEND:
                while stack and stack[-1][0] != 'f':
                    stack.pop()
                if stack:
                    stack.pop()
            elif t.type == T.OP and stack:
                top = stack[-1]
                if t.string == '{' and (top[0] == 'f' or (top[0] == 'field' and top[3])):
                    stack.append(['field', self.tstart(t), False, False])  # kind, start, debug, in format spec
                elif t.string in '([{' and top[0] in ('field', 'b'):
                    stack.append(['b'])
                elif t.string in ')]' and top[0] == 'b':
                    stack.pop()
                elif t.string == '}':
                    if top[0] == 'b':
                        stack.pop()
                    elif top[0] == 'field':
                        out.append((top[1], self.tend(t), top[2]))
                        stack.pop()
                elif top[0] == 'field' and not top[3]:
                    nxt = next((u for u in tk[i + 1:] if u.type not in (T.NL, T.COMMENT)), None)
                    if t.string == '=' and nxt is not None and nxt.type == T.OP and nxt.string in ('}', '!', ':'):
                        top[2] = True
                    elif t.string == ':':
                        top[3] = True
        self._fields = out
        return out

    def in_debug_field(self, p, q) -> bool:
        return any(d and a <= p and q <= b for a, b, d in self.fields())

    def in_field(self, p, q) -> bool:
        return any(a <= p and q <= b for a, b, d in self.fields())

    def self_path(self, p, q):
        """Path [(field, index|None)] of the innermost positioned node that contains both neighbouring real tokens of the
        spot [p, q) (CPython positions, bytes); [] = the Module."""
        prev = nxt = None
        for t in self.real:
            if self.tend(t) <= p:
                prev = t
            elif self.tstart(t) >= q:
                nxt = t
                break
        if prev is None or nxt is None:
            return [], None
        lo = (prev.start[0], bcol(self.lines, prev.start[0] - 1, prev.start[1]))
        hi = (nxt.end[0], bcol(self.lines, nxt.end[0] - 1, nxt.end[1]))

        def holds(a):
            return ((a.lineno, a.col_offset) <= lo) and (hi <= (a.end_lineno, a.end_col_offset))

        def enter(a):  # decorators lie before the position CPython gives a decorated definition
            d = getattr(a, 'decorator_list', None)
            return bool(d) and ((d[0].lineno, d[0].col_offset) <= lo) and (hi <= (a.end_lineno, a.end_col_offset))

        path, node, best, bestn = [], self.tree, [], None
        stack = [(self.tree, [])]
        # depth-first: a positioned node must hold both tokens to be entered; position-less nodes are transparent
        while stack:
            node, path = stack.pop()
            for f in node._fields:
                v = getattr(node, f, None)
                kids = [(v, None)] if isinstance(v, ast.AST) else [(e, i) for i, e in enumerate(v)] \
                    if isinstance(v, list) else []
                for c, i in kids:
                    if not isinstance(c, ast.AST) or isinstance(c, (ast.expr_context, ast.operator, ast.unaryop,
                                                                   ast.boolop, ast.cmpop)):
                        continue
                    cp = path + [(f, i)]
                    if isinstance(node, ast.JoinedStr) and isinstance(c, ast.Constant):
                        continue  # literal text of an f-string; the text CPython gives a `{x = }` field overlaps the field,
                        #           the field (its FormattedValue and what is below) owns the trivia
                    if hasattr(c, 'end_col_offset') and getattr(c, 'end_col_offset', None) is not None:
                        if holds(c):
                            if len(cp) > len(best):
                                best, bestn = cp, c
                            stack.append((c, cp))
                        elif enter(c):
                            stack.append((c, cp))
                    else:
                        stack.append((c, cp))
        return best, bestn


def in_fstring(node_path_nodes) -> bool:
    return any(isinstance(n, (ast.JoinedStr, ast.FormattedValue)) for n in node_path_nodes)


def navigate(a, path):
    for f, i in path:
        v = getattr(a, f)
        a = v if i is None else v[i]
    return a


# ----------------------------------------------------------------------------------------------------------------------
# recording

class Rec:
    def __init__(self):
        self.tab = Tables()

    def state(self, root):
        """Projection of (live tree, source text) of a pfst root."""
        src = root.src
        ls, lp = self.tab.node(root.a)
        t = try_parse(src)
        if t is None:
            ss, sp, ok = 0, 0, False
        else:
            ss, sp = self.tab.node(t)
            ok = True
        return {'liveS': ls, 'liveP': lp, 'srcOk': ok, 'srcS': ss, 'srcP': sp, 'text': self.tab.text(src)}, src

    # ---- derived, cached answers of the public read-only API (observations; compared per accessor by OffsetTrace) --------
    def did(self, ans) -> int:
        d = self.__dict__.setdefault('_d', {})
        i = d.get(ans)
        if i is None:
            i = d[ans] = len(d) + 1
        return i

    def derived_vec(self, root, with_text=False):
        """Per accessor the vector (node order = ast.walk) of answer ids; optionally the characters at both ends of every
        reported grouping-parentheses span (read from the source text: a stdlib fact about the reported span)."""
        out = {k: [] for k in DERIVED}
        ends = []
        lines = root.lines if with_text else None
        for n in ast.walk(root.a):
            f = getattr(n, 'f', None)
            if f is None:
                continue
            ans = derived(f)
            for k, v in zip(DERIVED, ans):
                out[k].append(self.did(v))
            if with_text:
                pr = ans[2]
                if isinstance(pr, tuple) and len(pr) == 5 and pr[4] >= 1:
                    try:
                        ends.append([ord(lines[pr[0]][pr[1]]), ord(lines[pr[2]][pr[3] - 1])])
                    except (IndexError, TypeError):
                        ends.append([0, 0])
        return out, ends

    def cons_vec(self, vec):
        """Hash-cons the per-accessor answer vectors: one id per (accessor, whole vector); equal ids <=> equal vectors."""
        return {k: self.did(('vec', k, tuple(v))) for k, v in vec.items()}

    def fresh_derived(self, src):
        """The same answers from a tree freshly built from `src` (history-independence reference)."""
        c = self.__dict__.setdefault('_fd', {})
        v = c.get(src)
        if v is None:
            if len(c) > 64:
                c.clear()
            try:
                v = self.derived_vec(fresh(src))[0]
            except Exception as e:  # noqa: BLE001
                v = {k: [self.did(('fresh-raise', type(e).__name__))] for k in DERIVED}
            c[src] = v
        return v


DERIVED = ('loc', 'bloc', 'pars', 'parsUnshared', 'flags')
WARM_MODES = ('none', 'all', 'anc', 'sib')


def _ans(fn):
    try:
        v = fn()
    except Exception as e:  # noqa: BLE001
        return ('raise', type(e).__name__)
    if v is None:
        return None
    if isinstance(v, tuple):
        return tuple(v) + ((v.n,) if hasattr(v, 'n') else ())
    return v


def derived(f):
    """The derived, per-node cached answers: loc, bloc, pars(), pars(shared=False), delimiter flags."""
    a = f.a
    flags = None
    if isinstance(a, ast.Tuple):
        flags = _ans(f.is_parenthesized_tuple)
    elif isinstance(a, ast.MatchSequence):
        flags = _ans(f.is_delimited_matchseq)
    return (_ans(lambda: f.loc), _ans(lambda: f.bloc), _ans(f.pars), _ans(lambda: f.pars(shared=False)), flags)


def warm_nodes(root, target, mode):
    """The nodes whose derived answers are read (and so cached) before the edit."""
    if mode == 'all':
        return [n.f for n in ast.walk(root.a) if getattr(n, 'f', None) is not None]
    if mode == 'anc':
        out, f = [], target
        while f is not None:
            out.append(f)
            f = f.parent
        return out
    if mode == 'sib':
        out = []
        stack = list(ast.iter_child_nodes(target.a))
        while stack:  # children of the node called on; position-less children are transparent
            n = stack.pop()
            f = getattr(n, 'f', None)
            if f is None:
                continue
            out.append(f)
            if not hasattr(n, 'end_col_offset'):
                stack.extend(ast.iter_child_nodes(n))
        return out
    return []


def classify(p, q, r, typ, kind):
    ml = p[0] != q[0] or '\n' in r
    op = 'ins' if p == q else 'del' if r == '' else 'rep'
    return f'{kind}:{typ}:{op}{"ML" if ml else "SL"}'


def prepare(S: Src, p, q, r):
    """Oracle side of one splice on source S: None if outside the domain (not trivia-preserving), else the facts."""
    if p == q and r == '':
        return None
    new = splice(S.src, p, q, r)
    if new == S.src and p == q:
        return None
    N = Src(new)
    if not N.ok or N.sig != S.sig:
        return None
    path, node = S.self_path(p, q)
    # f-string internals are outside every generator
    a = S.tree
    chain = []
    for f, i in path:
        v = getattr(a, f)
        a = v if i is None else v[i]
        chain.append(a)
    rl = r.split('\n')
    return {'new': N, 'path': path, 'kind': type(node).__name__ if node is not None else 'Module',
            'dbg': S.in_debug_field(p, q), 'fld': S.in_field(p, q), 'cont': '\\\n' in r or '\\\n' in splice_text(S, p, q),
            'pB': [p[0] + 1, bcol(S.lines, p[0], p[1])], 'qB': [q[0] + 1, bcol(S.lines, q[0], q[1])],
            'nl': len(rl) - 1, 'last': len(rl[-1].encode())}


def do_splice(rec: Rec, root, S: Src, p, q, r, typ, fact, warm='none', model=None):
    """Perform one put_src(action='offset') on `root` (whose source is S.src) and return the event.  `warm` says which
    nodes have their derived answers read (cached) just before the edit."""
    if warm is True:
        warm = 'all'
    elif not warm:
        warm = 'none'
    target = navigate(root.a, fact['path']).f
    exc = ''
    try:
        exc = 'query before edit: '
        for f in warm_nodes(root, target, warm):
            f.loc, f.bloc, f.pars(), f.pars(shared=False)
            if isinstance(f.a, ast.Tuple):
                f.is_parenthesized_tuple()
            elif isinstance(f.a, ast.MatchSequence):
                f.is_delimited_matchseq()
        exc = ''
        target.put_src(r, p[0], p[1], q[0], q[1], 'offset')
        outcome = 'ok'
    except Exception as e:  # noqa: BLE001
        outcome = 'raise'
        exc += f'{type(e).__name__}: {e}'[:200]
    post, post_src = rec.state(root)
    has_d = outcome == 'ok' and post['srcOk']
    if has_d:
        live, ends = rec.derived_vec(root, with_text=True)
        frsh = rec.fresh_derived(post_src)
        post['d'] = {'live': rec.cons_vec(live), 'fresh': rec.cons_vec(frsh), 'parsEnds': ends}
    else:
        live = frsh = {}
        post['d'] = {'live': {k: 0 for k in DERIVED}, 'fresh': {k: 0 for k in DERIVED}, 'parsEnds': []}
    # case class of a stale derived answer (classification from logged facts, never a verdict): kinds of the nodes whose
    # answers differ, which accessors, and how the spot relates to comments (stdlib facts about the old text)
    dcls = ''
    if has_d and post['d']['live'] != post['d']['fresh']:
        lv, fr = live, frsh
        nodes = [n for n in ast.walk(root.a) if getattr(n, 'f', None) is not None]
        acc = sorted(k for k in DERIVED if lv.get(k) != fr.get(k))
        kinds = sorted({type(nodes[i]).__name__ for k in acc if len(lv[k]) == len(fr[k]) == len(nodes)
                        for i in range(len(nodes)) if lv[k][i] != fr[k][i]})
        old = splice_text(S, p, q)
        rel = ('incomment' if '#' in old else 'addcomment' if '#' in r else
               'precomment' if S.lines[q[0]][q[1]:].lstrip().startswith('#') else
               'aftercomment' if '#' in S.lines[p[0]][:p[1]] else
               'afterat' if S.lines[p[0]][:p[1]].rstrip().endswith('@') else 'other')
        dcls = f"stale={','.join(kinds) or '?'}|acc={','.join(acc)}|{rel}"
    ev = {'call': 'splice', 'outcome': outcome, 'exc': ascii(exc), 'p': fact['pB'], 'q': fact['qB'], 'nl': fact['nl'],
          'last': fact['last'], 'cls': classify(p, q, r, typ + ('d' if fact.get('dbg') else 'f' if fact.get('fld') else '') + ('c' if fact.get('dbg') and fact.get('cont') else ''), fact['kind']) + ':' + warm, 'warm': warm, 'dcls': dcls,
          'selfPath': [{'n': f, 'i': 1 if i is None else i + 1} for f, i in fact['path']],
          'expText': rec.tab.text(fact['new'].src), 'hasModel': model is not None, 'hasDerived': has_d,
          'dbg': bool(fact.get('dbg')),
          'm': model if model is not None else {'n': 0}, 'post': post}
    return ev, post_src


def fresh(src):
    from fst import FST
    return FST(src, 'exec')


def _good(ev, post_src, want_src):
    """Steering only (never a verdict): is the tree still usable for the next step?"""
    return (ev['outcome'] == 'ok' and post_src == want_src and ev['post']['liveP'] == ev['post']['srcP']
            and ev['post']['d']['live'] == ev['post']['d']['fresh'])


def _script(S, p, q, r, typ, fact, ev, post_src):
    return {'src': S.src, 'p': list(p), 'q': list(q), 'r': r, 'typ': typ, 'path': fact['path'], 'warm': ev['warm'],
            'outcome': ev['outcome'], 'exc': ev['exc'], 'post_src': post_src}


def run_source(rec: Rec, tid0: int, src: str, cands, rng: random.Random, chunk=30):
    """Do/undo traces on one source: for each candidate (p, q, r, typ) of the ORIGINAL source splice it in, then splice the
    old text back (also a trivia splice), on the same tree as long as it stays usable.  Returns [(trace, script)]."""
    S0 = Src(src)
    out = []
    root = None
    tr = sc = None
    for p, q, r, typ in cands:
        fact = prepare(S0, p, q, r)
        if fact is None:
            continue
        if root is None or len(tr['steps']) >= 2 * chunk:
            root = fresh(src)
            init, _ = rec.state(root)
            tr, sc = {'id': tid0 + len(out), 'init': init, 'steps': []}, []
            out.append((tr, sc))
        ev, post_src = do_splice(rec, root, S0, p, q, r, typ, fact, warm=rng.choice(WARM_MODES))
        tr['steps'].append(ev)
        sc.append(_script(S0, p, q, r, typ, fact, ev, post_src))
        if not _good(ev, post_src, fact['new'].src):
            root = None
            continue
        N = fact['new']
        old = '\n'.join(S0.lines[p[0]: q[0] + 1])
        old = old[p[1]: len(old) - (len(S0.lines[q[0]]) - q[1])]
        p2, q2 = p, end_of(p, r)
        f2 = prepare(N, p2, q2, old)
        if f2 is None:
            root = None
            continue
        ev2, post2 = do_splice(rec, root, N, p2, q2, old, typ + 'u', f2, warm=rng.choice(WARM_MODES))
        tr['steps'].append(ev2)
        sc.append(_script(N, p2, q2, old, typ + 'u', f2, ev2, post2))
        if not _good(ev2, post2, src):
            root = None
    return out


def run_walk(rec: Rec, tid: int, src: str, nsteps: int, rng: random.Random):
    """A random walk of trivia splices on one tree (each step on the source the previous one left)."""
    cur = Src(src)
    root = fresh(src)
    init, _ = rec.state(root)
    tr, sc = {'id': tid, 'init': init, 'steps': []}, []
    for _ in range(nsteps):
        cands = all_candidates(cur)
        rng.shuffle(cands)
        for p, q, r, typ in cands[:60]:
            fact = prepare(cur, p, q, r)
            if fact is not None:
                break
        else:
            break
        ev, post_src = do_splice(rec, root, cur, p, q, r, typ + 'w', fact, warm=rng.choice(WARM_MODES))
        tr['steps'].append(ev)
        sc.append(_script(cur, p, q, r, typ + 'w', fact, ev, post_src))
        if not _good(ev, post_src, fact['new'].src):
            break
        cur = fact['new']
    return tr, sc


def hot_spots(S: Src):
    """Spots next to grouping-parenthesis tokens or before a comment: where a node's derived extent (pars / bloc) reaches
    past its own span."""
    op_end, cl_start, cl_end, cm_start = set(), set(), set(), set()
    for t in S.tk:
        if t.type == T.OP and t.string == '(':
            op_end.add(S.tend(t))
        elif t.type == T.OP and t.string == ')':
            cl_start.add(S.tstart(t))
            cl_end.add(S.tend(t))
        elif t.type == T.COMMENT:
            cm_start.add(S.tstart(t))
    return lambda p, q: p in op_end or q in cl_start or p in cl_end or q in cm_start


def all_candidates(S: Src):
    out = []
    for p, q, typ in S.spots():
        reps = REPL_LINES if typ == 'C' else REPL_INLINE
        for r in reps:
            out.append((p, q, r, typ))
            if p != q and r:
                out.append((p, p, r, typ))
                out.append((q, q, r, typ))
    return out


# ----------------------------------------------------------------------------------------------------------------------
# direction G: rendering of Offset.tla instances

IDENTS = ['a', 'bb', 'c', 'é', 'd1', 'e']
BINOPS = ['|', '^', '&', '+', '*']


class Render:
    """Atoms (in the order of OffsetCore!AtomsOf) of a model tree as Python text."""

    def __init__(self, row, variant=0):
        self.n = row['n']
        self.par = [0] + row['par']
        self.kind = [''] + row['kind']
        self.sep = [False] + row['sep']
        self.wrap = [''] + list(row.get('wrap') or ['none'] * row['n'])
        self.kids = {k: [m for m in range(1, self.n + 1) if self.par[m] == k] for k in range(1, self.n + 1)}
        self.variant = variant
        self.atoms = []  # (owner, text, opens, closes)
        self._emit(1, 0)

    def _emit(self, k, level):
        if self.wrap[k] == 'pars' and level != 'in':  # own grouping parentheses: atoms of the parent
            self.atoms.append((self.par[k], '(', 1))
            self._emit_in(k)
            self.atoms.append((self.par[k], ')', -1))
            return
        if level == 'in':
            level = 0
        kd, ks = self.kind[k], self.kids[k]
        if kd == 'tok':
            self.atoms.append((k, IDENTS[(k + self.variant) % len(IDENTS)], 0))
            return
        if kd == 'brk':
            self.atoms.append((k, '[', 1))
            for i, c in enumerate(ks):
                if i:
                    self.atoms.append((k, ',', 0))
                self._emit(c, 0)
            self.atoms.append((k, ']', -1))
        elif kd == 'pre':
            self.atoms.append((k, '-', 0))
            self._emit(ks[0], level)
        elif kd == 'post':
            self._emit(ks[0], level)
            self.atoms.append((k, '(', 1))
            for i, c in enumerate(ks[1:]):
                if i:
                    self.atoms.append((k, ',', 0))
                self._emit(c, 0)
            self.atoms.append((k, ')', -1))
        elif kd == 'bare':
            if len(ks) == 2:
                self._emit(ks[0], level + 1)
                self.atoms.append((k, BINOPS[min(level, len(BINOPS) - 1)], 0))
                self._emit(ks[1], level + 1)
            else:
                for i, c in enumerate(ks):
                    if i:
                        self.atoms.append((k, '<', 0))
                    self._emit(c, 0)

    def _emit_in(self, k):
        w, self.wrap[k] = self.wrap[k], 'none'
        self._emit(k, 0)
        self.wrap[k] = w

    def ast_path(self, k):
        """Path of model node k below the expression (root = Module.body[0].value)."""
        if k == 1:
            return []
        p = self.par[k]
        ks = self.kids[p]
        i = ks.index(k)
        kd = self.kind[p]
        if kd == 'brk':
            step = ('elts', i)
        elif kd == 'pre':
            step = ('operand', None)
        elif kd == 'post':
            step = ('func', None) if i == 0 else ('args', i - 1)
        elif len(ks) == 2:
            step = ('left', None) if i == 0 else ('right', None)
        else:
            step = ('left', None) if i == 0 else ('comparators', i - 1)
        return self.ast_path(p) + [step]

    def shape_ok(self, tree):
        """The CPython parse has the shape of the model tree (operator precedence did not regroup it)."""
        want = {'tok': ast.Name, 'brk': ast.List, 'pre': ast.UnaryOp, 'post': ast.Call}
        try:
            e = tree.body[0].value
            for k in range(1, self.n + 1):
                nd = navigate(e, self.ast_path(k))
                kd = self.kind[k]
                cls = want.get(kd) or (ast.BinOp if len(self.kids[k]) == 2 else ast.Compare)
                if not isinstance(nd, cls):
                    return False
            return len(tree.body) == 1
        except (AttributeError, IndexError, TypeError):
            return False


def gap_text(gap, inside, salt):
    out = ''
    for i, a in enumerate(gap):
        if i:
            out += (['\n', '# c\n', '#é\n'][salt % 3] if inside else '\\\n')
        out += ' ' * a
    return out


def layout(R: Render, gaps, salt):
    """Concrete text and, per atom, (start, end) in (0-based line, char col)."""
    text = ''
    depth = 0
    pos = []
    for j, (o, s, d) in enumerate(R.atoms):
        ls = text.split('\n')
        st = (len(ls) - 1, len(ls[-1]))
        text += s
        pos.append((st, (st[0], st[1] + len(s))))
        depth += d
        if j < len(gaps):
            text += gap_text(gaps[j], depth > 0, salt + j)
    return text, pos


def model_case(rec: Rec, tid: int, row, sp, salt: int):
    """Render one (instance, splice) of OffsetGen, replay it, map the observed positions back to model coordinates.
    Returns (trace, script) or (None, reason)."""
    R = Render(row, salt)
    gaps = row['gaps']
    if len(R.atoms) != len(gaps) + 1:
        return None, 'atoms'
    g, mp, mq, ins = sp
    text, apos = layout(R, gaps, salt)
    depth = sum(d for _, _, d in R.atoms[:g])
    base = apos[g - 1][1]

    def absp(pt):
        return (base[0], base[1] + pt[1]) if pt[0] == 1 else (base[0] + pt[0] - 1, pt[1])

    p, q = absp(mp), absp(mq)
    r = gap_text(ins, depth > 0, salt + 7)
    src = text + '\n'
    S = Src(src)
    if not S.ok or not R.shape_ok(S.tree):
        return None, 'shape'
    fact = prepare(S, p, q, r)
    if fact is None:
        return None, 'domain'
    # the node the model calls `self`: the innermost node containing both neighbouring atoms
    a, b = R.atoms[g - 1][0], R.atoms[g][0]
    chain = lambda k: [k] + (chain(R.par[k]) if R.par[k] else [])  # noqa: E731
    ca = chain(a)
    slf = next(k for k in chain(b) if k in ca)
    mpath = [('body', 0), ('value', None)] + R.ast_path(slf)
    if mpath != fact['path']:
        return None, 'self'  # harness and model disagree about the innermost node: not a case of this instance
    # new layout -> table real (line, bytecol) -> model point, through the atom boundaries of the new text
    new_text, npos = layout_new(R, gaps, g, mp, mq, ins, salt, fact['new'].src)
    if new_text is None:
        return None, 'newlayout'
    root = fresh(src)
    init, _ = rec.state(root)
    ev, post_src = do_splice(rec, root, S, p, q, r, 'G', fact, warm=WARM_MODES[salt % 4])
    obs = []
    e = root.a.body[0].value if root.a.body and hasattr(root.a.body[0], 'value') else None
    for k in range(1, R.n + 1):
        try:
            nd = navigate(e, R.ast_path(k))
            st = npos.get((nd.lineno, nd.col_offset), (-1, -1))
            en = npos.get((nd.end_lineno, nd.end_col_offset), (-1, -1))
        except Exception:  # noqa: BLE001
            st = en = (-2, -2)
        obs.append([st[0], st[1], en[0], en[1]])
    ev['hasModel'] = True
    ev['m'] = {'n': row['n'], 'par': row['par'], 'kind': row['kind'], 'sep': row['sep'],
               'wrap': list(row.get('wrap') or ['none'] * row['n']), 'gaps': gaps, 'g': g, 'p': mp,
               'q': mq, 'ins': ins, 'obs': obs}
    script = [{'src': src, 'p': p, 'q': q, 'r': r, 'typ': 'G', 'path': fact['path'], 'outcome': ev['outcome'],
               'warm': ev['warm'], 'exc': ev['exc'], 'post_src': post_src, 'row': {k: row[k] for k in ('n', 'par', 'kind', 'sep', 'wrap', 'gaps') if k in row},
               'sp': sp, 'salt': salt}]
    return {'id': tid, 'init': init, 'steps': [ev]}, script


def new_gap(gap, p, q, ins):
    pre = gap[:p[0] - 1]
    suf = gap[q[0]:]
    rest = gap[q[0] - 1] - q[1]
    if len(ins) == 1:
        return pre + [p[1] + ins[0] + rest] + suf
    return pre + [p[1] + ins[0]] + ins[1:-1] + [ins[-1] + rest] + suf


def layout_new(R: Render, gaps, g, mp, mq, ins, salt, new_src):
    """Atom boundaries of the NEW text: {(lineno, bytecol): model point}.  The new text is located by searching the atom
    strings in order in `new_src` (stdlib only); the model points come from laying the atoms out with unit widths over the
    new gap vector (the geometry of OffsetCore!StartsUpTo, recomputed by TLC for the verdict)."""
    g2 = [list(x) for x in gaps]
    g2[g - 1] = new_gap(gaps[g - 1], mp, mq, ins)
    tk = [t for t in (toks(new_src) or []) if t.type not in NOT_REAL]
    if len(tk) != len(R.atoms) or any(t.string != s for t, (_, s, _) in zip(tk, R.atoms)):
        return None, None
    lines = new_src.split('\n')
    table = {}
    ml, mc = 1, 0
    for j, t in enumerate(tk):
        rs = (t.start[0], bcol(lines, t.start[0] - 1, t.start[1]))
        re_ = (t.end[0], bcol(lines, t.end[0] - 1, t.end[1]))
        table[rs] = (ml, mc)
        table[re_] = (ml, mc + 1)
        mc += 1
        if j < len(g2):
            gp = g2[j]
            if len(gp) == 1:
                mc += gp[0]
            else:
                ml += len(gp) - 1
                mc = gp[-1]
    return new_src, table
