"""C09 driver: renders the cases of the TLC-emitted table, executes the real pfst edit, records observations and
standard-library oracle facts.  No verdict is computed here."""

from __future__ import annotations

import ast
import random

from harness import c09_cat as cat
from harness.proj import Tables, try_parse

TLAYS = ('bare', 'tpar', 'tneed', 'bslash', 'encl', 'enclc')
CLAYS = ('one', 'cpar', 'ml', 'mlc')
FORMS = ('src', 'ast', 'fst')
APIS = ('replace', 'put', 'setattr')


def _path_json(path):
    return [{'n': f, 'i': (i or 0) + 1} for f, i in path]


def _walk(node, path):
    for f, i in path:
        node = getattr(node, f)
        if i is not None:
            node = node[i]
    return node


def _lc(src, off):
    line = src.count('\n', 0, off) + 1
    col = off - (src.rfind('\n', 0, off) + 1)
    return line, col


def old_text(slot, cls, tlay):
    """Text of the operand that is being replaced, for target layouts tpar / tneed."""
    if slot == 'Call.args.sologen':
        return cat.SOLOGEN_OLD if tlay == 'bare' else None
    if slot in cat.OLD:
        return {'tpar': '(' + cat.OLD[slot] + ')', 'tneed': None}.get(tlay, cat.OLD[slot])
    if tlay == 'tpar':
        return '(HOLE)'
    if tlay == 'tneed':
        if cat.is_fill(slot):
            return None
        return {'load': '(lambda: HOLE)', 'pat': '(HOLE as zz)'}.get(cls)
    return 'HOLE'


def template(slot, cls, tlay):
    """(source, offset, length, path, preS-ast) or None when the layout does not exist / is not valid Python."""
    base = tlay if tlay in ('bslash', 'encl', 'enclc') else 'bare'
    r0 = cat.render(slot, base, cat.OLD.get(slot, 'HOLE'))
    if r0 is None:
        return None
    t0 = try_parse(r0[0])
    if t0 is None:
        return None
    path = cat.PATH[slot] if slot in cat.PATH else cat.find_hole(t0)
    if path is None:
        return None
    old = old_text(slot, cls, tlay)
    if old is None:
        return None
    src, off, ln = cat.render(slot, base, old)
    tree = try_parse(src)
    if tree is None:
        return None
    try:
        _walk(tree, path)
    except (AttributeError, IndexError, TypeError):
        return None
    return src, off, ln, path, tree


def par_text(kind, text):
    if kind == 'StarredOr':
        return '*(' + text[1:] + ')'
    if kind in cat.NO_PAR_FORM:
        return None
    return '(' + text + ')'


def _splice(src, off, ln, text):
    return src[:off] + text + src[off + ln:]


def gram_event(tab: Tables, slot, cls, child):
    """spec <-> CPython: renderings with/without parentheses parsed by ast.parse."""
    tp = template(slot, cls, 'bare')
    if tp is None or slot == 'Call.args.sologen':
        tp = template('Call.args.only' if slot == 'Call.args.sologen' else slot, cls, 'bare')
    src, off, ln, path, tree = tp
    one, ml = cat.K[child]
    fill = cat.is_fill(slot)
    try:
        new = tab.sid(cat.child_ast(child, one))
    except SyntaxError:
        raise AssertionError(f'catalogue child {child} does not parse')
    ptxt = par_text(child, one)

    def rend(ctext, ppar):
        if ctext is None:
            return -1
        t = ctext
        if fill:
            t = f'{ctext} as HOLE'
            if ppar:
                t = f'({t})'
        elif ppar:
            return -1
        tr = try_parse(_splice(src, off, ln, t))
        return tab.sid(tr) if tr is not None else 0

    ev = {'call': 'gram', 'slot': slot, 'child': child, 'cls': f'{slot}|{child}', 'preS': tab.sid(tree),
          'path': _path_json(path + ([('pattern', None)] if fill else [])), 'newS': new,
          'r00': rend(one, False), 'r10': rend(ptxt, False), 'r01': rend(one, True), 'r11': rend(ptxt, True),
          'rblank': rend(' ' + one, False) if cat.is_fstring_slot(slot) else -1,
          'r20': rend('(' + ptxt + ')', False) if ptxt and not fill and child not in cat.NO_PAR_FORM else -1,
          'mlS': -1, 'mlNewS': 0, 'comp00': -1, 'comp10': -1, 'depth': cat.depth_at(src, *_lc(src, off)), 'selfEnc': True}
    if (child in ('Starred', 'StarredOr') or (child == 'JoinedStr' and slot in cat.OLD)) and not fill:
        for key, t in (('comp00', one), ('comp10', ptxt)):
            if t and rend(t, False) > 0:
                body = _splice(src, off, ln, t)
                wrapped = 'async def _w():\n' + ''.join('    ' + x + '\n' for x in body.split('\n'))
                try:
                    compile(wrapped, '<c09>', 'exec', flags=0, dont_inherit=True)
                    ev[key] = 1
                except SyntaxError:
                    ev[key] = 0
    if ml is not None and not fill:
        ev['mlNewS'] = tab.sid(cat.child_ast(child, ml))
        ev['selfEnc'] = cat.self_enclosed(ml)
        ev['mlS'] = rend(ml, False)
    return ev


def _mode(kind):
    if kind in cat.PAT_KINDS:
        return 'pattern'
    if kind == 'Slice':
        return 'expr_slice'
    if kind in ('Starred', 'StarredOr'):
        return 'expr_arglike'
    return 'expr'


def put_event(tab: Tables, slot, cls, child, tlay, clay, form, api):
    """pfst <-> spec: execute one real edit. Returns event dict or None when the case does not exist."""
    from fst import FST

    fill = cat.is_fill(slot)
    if fill and api == 'replace':
        api = 'put'
    text = cat.child_text(child, clay)
    if text is None or (form == 'ast' and clay != 'one'):
        return None
    tp = template(slot, cls, tlay)
    if tp is None:
        return None
    src, off, ln, path, tree = tp
    try:
        newast = cat.child_ast(child, text)
    except SyntaxError:
        return None
    new = tab.sid(newast)
    if form == 'src':
        code = text
    elif form == 'ast':
        code = newast
    else:
        try:
            code = FST(text, _mode(child))
        except Exception:  # noqa: BLE001  (this layout cannot be handed over as an FST: not a case)
            return None
    line, col = _lc(src, off)
    eline, ecol = _lc(src, off + ln)
    T = cat.sig_tokens(src)
    idx = [k for k, t in enumerate(T) if t[2] >= (line, col) and t[3] <= (eline, ecol)]
    i, j = idx[0], idx[-1] + 1
    pre_t = [t[1] for t in T[:i]]
    suf_t = [t[1] for t in T[j:]]

    root = FST(src, 'exec')
    tgt = _walk(root.a, path).f
    outcome, exc = 'ok', ''
    try:
        if fill:
            if api == 'put':
                tgt.put(code, field='pattern')
            else:
                tgt.pattern = code
        elif api == 'replace':
            tgt.replace(code)
        else:
            f, k = path[-1]
            par = _walk(root.a, path[:-1]).f
            if api == 'put':
                if k is None:
                    par.put(code, field=f)
                else:
                    par.put(code, k, field=f)
            elif k is None:
                setattr(par, f, code)
            else:
                getattr(par, f)[k] = code
    except Exception as e:  # noqa: BLE001
        outcome, exc = 'raise', f'{type(e).__name__}: {str(e)[:120]}'
    post = root.src  # also after a refusal: the source the tree is left with
    ptree = try_parse(post)
    R = cat.sig_tokens(post) if outcome == 'ok' else None
    ctx_kept, outer, outer_br, inner, ctx_sub = False, 0, 0, 0, False
    if R is not None:
        rs = [t[1] for t in R]
        ctx_sub = cat.is_subseq(pre_t + suf_t, rs)
        if len(rs) >= len(pre_t) + len(suf_t) and rs[:len(pre_t)] == pre_t and rs[len(rs) - len(suf_t):] == suf_t:
            ctx_kept = True
            outer = cat.outer_pars(rs[len(pre_t):len(rs) - len(suf_t)])
            outer_br = cat.outer_pars(rs[len(pre_t):len(rs) - len(suf_t)], '[', ']')
            mid = rs[len(pre_t):len(rs) - len(suf_t)]
            inner = cat.outer_pars(mid[1:]) if mid[:1] == ['*'] else 0
    return {'call': 'put', 'slot': slot, 'child': child, 'tlay': tlay, 'clay': clay, 'form': form, 'api': api,
            'cls': f'{slot}|{child}|{tlay}|{clay}|{form}|{api}',
            'preS': tab.sid(tree), 'path': _path_json(path + ([('pattern', None)] if fill else [])), 'newS': new,
            'depth': cat.depth_at(src, line, col), 'ml': '\n' in text, 'selfEnc': cat.self_enclosed(text),
            'outcome': outcome, 'exc': exc, 'postS': tab.sid(ptree) if ptree is not None else 0,
            'ctxKept': ctx_kept, 'outerPars': outer, 'outerBr': outer_br, 'innerPars': inner, 'ctxSub': ctx_sub, 'sameText': post == src, 'src': src, 'code': text, 'post': post}


def run_cases(cases, kind='put'):
    """cases: list of tuples. Returns (batch, meta) with one trace per slot."""
    tab = Tables()
    by_slot = {}
    for c in cases:
        ev = gram_event(tab, *c) if kind == 'gram' else put_event(tab, *c)
        if ev is not None:
            by_slot.setdefault(ev['slot'], []).append(ev)
    return tab, by_slot
