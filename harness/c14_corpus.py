"""C14 - extra inputs aimed at the places where syntactic order differs from AST field order (inputs only).

(mode, source). `exec` programs also go through the layout mutators of harness/layouts.py.
"""

EXTRA = [
    # Call / ClassDef: positional (starred) arguments interleaved with keywords
    ('exec', 'f(a, *b, k=1, *c, **d, e=2)\nf(*a, k=1, *b, m=2, *c)\nf(k=1, *a)\nf(a, b, k=1, **d)\nf(*a, **d)\nf(**d, k=1)\n'),
    ('exec', 'class C(a, *b, k=1, *c, **d): pass\nclass D(*a, metaclass=M, *b, x=1, *c): pass\nclass E(k=1, *a): x = 1\n'
             'class F(A, B, metaclass=M): pass\nclass G: pass\nclass H(): pass\n'),
    ('exec', 'class K[T, *Ts, **P](Base[T], *mix, key=val, *more):\n    @dec\n    def m[U: int](self, x: U = 1, /, *a: int, k: U = 2, **kw) -> U: return x\n'),
    # arguments: every combination of defaults
    ('exec', 'def f(a, b=1, /, c=2, *, d, e=3, **k): pass\ndef g(a=1, b=2, /, c=3): pass\ndef h(a, /, b, c=1): pass\n'
             'def i(*, a, b=1, c): pass\ndef j(*a, b=1): pass\ndef k(a, b, /): pass\ndef l(a=1, /): pass\n'
             'def m(a: int = 1, *b: int, c: str, d: str = "x", **e: dict) -> None: pass\n'),
    # one kind of parameter only (each emptiness test of `arguments` on its own)
    ('exec', 'def o(**k): pass\ndef p(*a): pass\ndef q(a, /): pass\ndef r(*, a): pass\ndef s(a): pass\ndef t(): pass\n'
             'u = lambda **k: k\nv = lambda *a: a\nw = lambda a, /: a\nx = lambda *, a: a\ny = lambda a: a\nz = [lambda: 0, lambda **k: 1]\n'),
    ('exec', 'x = lambda: 0\ny = lambda a, b=1, /, c=2, *d, e, f=3, **g: (a, b)\nz = lambda *, a=1: a\nw = lambda a=1, /, b=2: a\nv = lambda *a, **k: a\n'),
    # Dict with ** unpacking, MatchMapping with rest, MatchClass with keywords
    ('exec', 'd = {**a, "k": v, **b, 1: 2, **c}\ne = {**a}\nf = {}\ng = {k: v for k, v in it if k if v}\n'),
    ('exec', 'match x:\n    case {"a": 1, "b": [p, *q], **rest}: pass\n    case {**r}: pass\n    case {}: pass\n'
             '    case P(1, a, k=2, m=[x, y]) | Q(): pass\n    case [a, *_, b] | (c, d): pass\n    case str() as s if s: pass\n'
             '    case -1 | 2j | "s" | None | a.b.c: pass\n    case [*rest] if (n := len(rest)) > 1: pass\n    case _: pass\n'),
    # Compare chains, BoolOp, operators of every kind, AugAssign
    ('exec', 'r = a < b <= c == d != e > f >= g is h is not i in j not in k\ns = a and b and c or d or not e\n'
             't = -a + +b - ~c * d @ e / f // g % h ** i << j >> k | l ^ m & n\nu += 1; u -= 2; u *= 3; u @= 4; u /= 5; u //= 6; u %= 7; u **= 8\n'
             'u <<= 9; u >>= 10; u |= 11; u ^= 12; u &= 13\nv = (a) + (b)\nw = (a if b else c) if (d) else (e)\nq = (a) < (b) < ((c))\n'),
    # decorators, type parameters, type aliases
    ('exec',
             '@d1\n@d2(x, y=1)\n@d3.attr\ndef f[T: (int, str), *Ts, **P](a: T, *args: *Ts, **kw: P.kwargs) -> T:\n    return a\n\n'
             '@cd\nclass C[T: int]: pass\ntype A[T, *Ts, **P] = dict[T, tuple[*Ts]]\ntype B = int\n'),
    # async / with / try / loops with else / global / nonlocal / assert / raise / del / import
    ('exec', 'async def f():\n    async with a as b, c(), (d) as (e, f): pass\n    async for x, y in z: pass\n    else: pass\n'
             '    await g\n    return [i async for i in a if i async for j in i]\n'),
    ('exec', 'try:\n    pass\nexcept A as a:\n    pass\nexcept (B, C):\n    raise X from Y\nexcept:\n    raise\nelse:\n    pass\nfinally:\n    pass\n'
             'try: pass\nexcept* E as g: pass\nexcept* (F, G): pass\n'
             'with a, b as c: pass\nwith (a as b, c as d,): pass\nfor i in j:\n    break\nelse:\n    continue_ = 1\nwhile a:\n    pass\nelse:\n    pass\n'
             'if a: pass\nelif b: pass\nelif c: pass\nelse: pass\nassert a, "m"\ndel a, b[c], d.e\n'
             'def n():\n    global g1, g2\n    def m():\n        nonlocal q\n    q = 1\nimport a.b as c, d\nfrom .. import e as f, g\nfrom h import *\n'),
    # comprehensions, walrus, starred, slices, subscripts, attribute chains, ifexp, yield
    ('exec', 'a = [x for x in y if x if y for z in x if z]\nb = {k: v async for k, v in it}\nc = {x for x in y}\nd = (x for x in y)\n'
             'e = [(i := j) for j in k if (m := j)]\nf = a[1:2, ::3, x:, :y, ...]\ng = a.b.c[d].e(f)(g)[h]\nh = [*a, b, *c]\ni, *j = k\n'
             'def gen():\n    x = yield\n    y = yield a, b\n    z = yield from c\n    return (yield)\n'),
    # f-strings (incl. debug, conversions, nested format specs), string concatenation, bytes, numbers
    ('exec', 'a = f"x{b}y{c!r}z{d:>{w}.{p}}{e=}{f = !s:^10}"\nb = f"{x}" "lit" f"{y:{z}}"\nc = f"{f(*a, k=1, *b)}{ {1: 2}[1] }{(lambda: 0)}"\n'
             'd = "a" "b" \'c\'\ne = b"x" rb"y"\nf = 1, 1.5, 2j, 0x10, 1_000, True, None, ...\ng = f"""\n{a\n + b}\n{c}"""\n'),
    # parenthesised / multi-line layouts where order still has to follow the text
    ('exec', 'f(\n    a,  # one\n    *b,\n    k = 1,\n    *c,\n    **d\n)\nclass C(\n    A,\n    *bases,\n    metaclass = M,\n    *more,\n): pass\n'
             'x = {\n    **a,\n    "k": (\n        v\n    ),\n    **b,\n}\ndef f(\n    a, b = 1, /,\n    c = 2,\n    *args,\n    d, e = 3,\n    **kw\n): pass\n'),
    ('exec', 'if (a\n    and b\n    or c): pass\nr = (a\n     < b\n     <= c)\ns = a + \\\n    b * \\\n    c\nt = [\n  x\n  for x in y\n  if x\n]\n'),
    ('exec', 'ä = ö("ü", *é, ñ=1, *ß)\nclass Ä(Ö, *Ü, ï=1, *Ÿ): pass\nd = {**ä, "日本": 語, **ö}\nx = ä + ö * ü < é\n'),
    ('exec', ''),
    ('exec', 'pass'),
    ('exec', '# only a comment\n'),
    ('exec', 'x\n'),
    # other root kinds
    ('eval', 'f(a, *b, k=1, *c) + {**d, 1: 2}[x] if y else [z for z in w]'),
    ('eval', 'lambda a, b=1, *c, d, e=2, **f: a < b < c'),
    ('eval', '(a, b)'),
    ('single', 'x = f(*a, k=1, *b); y = -x\n'),
    ('single', 'if a: b\n'),
    # no Module above the tree (FST(src) gives the minimal node)
    ('min', 'f(a, *b, k=1, *c, **d)'),
    ('min', 'a < b < c and not d'),
    ('min', 'class C(a, *b, k=1, *c):\n    def f(self, x=1, /, *y, z=2): pass'),
    ('min', 'with a as b, c: pass'),
]
