"""C13 driver: mark() -> pure-AST mutations of `root.a` -> reconcile(), recorded as a trace for spec/ReconcileTrace.tla.

Only *observations* (what pfst returned) and *oracle facts* from the standard library are recorded:
  - hash-consed ids (harness/proj.py) of the user's mutated AST (raw and normalised through ast.unparse/ast.parse), of
    ast.parse(result.src) and of the live tree of the result;
  - per statement of the *marked* source (ast + plain line inspection): path, line block (leading comment block at the
    statement's own indentation + the statement's lines, trailing line comment included) as an interned id, and the id of
    the block found at the same path / with the same number of leading lines in the result source;
  - per mutation: its kind and the *sites* it wrote to, each as (marked path of the AST object whose field was assigned,
    field, mode self|slot|list, index).  Which statements that touches is computed by TLC (ReconcileOps!TouchSites).
No verdict is computed here.
"""

from __future__ import annotations

import ast
import random

from fst import FST

from . import grammar, snippets
from .proj import Tables, try_parse

CTX = (ast.Load, ast.Store, ast.Del)
FSTRINGY = (ast.JoinedStr, ast.FormattedValue) + ((ast.TemplateStr, ast.Interpolation) if hasattr(ast, 'TemplateStr') else ())


# ----------------------------------------------------------------------------------------------------------------------
# paths / walking (pure AST)

def pj(path):
    return [{'n': f, 'i': (1 if i is None else i + 1)} for f, i in path]


def walk(tree, into_fstr=False):
    """(node, path) for every AST node reachable from `tree` (each *position*, so an aliased object shows up once per
    position). ctx nodes are skipped, f-string internals are not entered."""
    stack = [(tree, ())]
    while stack:
        node, path = stack.pop()
        yield node, path
        if isinstance(node, FSTRINGY) and not into_fstr:
            continue
        for name in node._fields:
            v = getattr(node, name, None)
            if isinstance(v, ast.AST):
                if not isinstance(v, CTX):
                    stack.append((v, path + ((name, None),)))
            elif isinstance(v, list):
                for i in range(len(v) - 1, -1, -1):
                    if isinstance(v[i], ast.AST):
                        stack.append((v[i], path + ((name, i),)))


def node_at(tree, path):
    n = tree
    try:
        for f, i in path:
            n = getattr(n, f)
            if i is not None:
                n = n[i]
    except (AttributeError, IndexError, TypeError):
        return None
    return n if isinstance(n, ast.AST) else None


def contains(sub, obj) -> bool:
    """obj is `sub` or lies below it."""
    return any(n is obj for n, _ in walk(sub, True))


# ----------------------------------------------------------------------------------------------------------------------
# statement line blocks of a source text

class Blocks:
    def __init__(self):
        self._b = {}

    def id(self, key) -> int:
        i = self._b.get(key)
        if i is None:
            i = self._b[key] = len(self._b) + 1
        return i


def _col(line: str, byte_col: int) -> int:
    return len(line.encode('utf-8')[:byte_col].decode('utf-8', 'replace'))


def _span(node, lines):
    """(first line, char col of first line, last line, char col end) 1-based lines, decorators included."""
    l0, c0 = node.lineno, node.col_offset
    for d in getattr(node, 'decorator_list', ()) or ():
        if (d.lineno, d.col_offset) < (l0, c0):
            l0, c0 = d.lineno, d.col_offset
    c0 = _col(lines[l0 - 1], c0)
    if getattr(node, 'decorator_list', None) and lines[l0 - 1][:c0].rstrip().endswith('@'):
        c0 = lines[l0 - 1][:c0].rstrip().__len__() - 1
    return l0, c0, node.end_lineno, _col(lines[node.end_lineno - 1], node.end_col_offset)


def stmt_rows(src: str, tree, blocks: Blocks):
    """One row per `ast.stmt` of `tree` (= ast.parse(src)): path, line-owner flag, number of leading comment lines,
    interned block id, plus position class facts."""
    lines = src.split('\n')
    rows = []
    for node, path in walk(tree, True):
        if not isinstance(node, ast.stmt):
            continue
        l0, c0, l1, c1 = _span(node, lines)
        head = lines[l0 - 1][:c0]
        tail = lines[l1 - 1][c1:]
        own = head.strip() == '' and (tail.strip() == '' or tail.lstrip().startswith('#'))
        k = 0
        if own:
            while l0 - 2 - k >= 0:
                ln = lines[l0 - 2 - k]
                if ln.lstrip().startswith('#') and ln[:len(ln) - len(ln.lstrip())] == head:
                    k += 1
                else:
                    break
            key = ('L',) + tuple(lines[l0 - 1 - k:l1])
        else:
            key = ('S', ast.get_source_segment(src, node) or '')
        rows.append({'path': path, 'own': own, 'k': k, 'blk': blocks.id(key), 'kind': node.__class__.__name__,
                     'cmt': k > 0 or (own and tail.strip() != '')})
    return rows


def result_blocks(res_src: str, res_tree, mrows, blocks: Blocks):
    """For every marked row the id of the block found in the result at the same path, taking as many lines above the
    statement as the marked statement had leading comment lines (0 when the path does not lead to a statement)."""
    if res_tree is None:
        return [0] * len(mrows)
    lines = res_src.split('\n')
    out = []
    for r in mrows:
        node = node_at(res_tree, r['path'])
        if not isinstance(node, ast.stmt):
            out.append(0)
            continue
        if r['own']:
            l0, c0, l1, c1 = _span(node, lines)
            key = ('L',) + tuple(lines[max(0, l0 - 1 - r['k']):l1])
        else:
            key = ('S', ast.get_source_segment(res_src, node) or '')
        out.append(blocks.id(key))
    return out


def skeleton(tree) -> str:
    """Statement skeleton of a module: S = simple statement, B(body|orelse) = compound statement."""
    def lst(l):
        return ','.join(one(s) for s in l)

    def one(s):
        if hasattr(s, 'body') and isinstance(s.body, list):
            return 'B(' + lst(s.body) + '|' + lst(getattr(s, 'orelse', []) or []) + ')'
        return 'S'
    return lst(tree.body)


# ----------------------------------------------------------------------------------------------------------------------
# session: one FST root through mark / mutate / reconcile rounds

class Session:
    def __init__(self, tab: Tables, blocks: Blocks, src: str):
        self.tab = tab
        self.blocks = blocks
        self.root = FST(src, 'exec')
        self.steps = []
        self.script = []
        self.mrows = []
        self.mpaths = {}
        self._keep = []
        self.dead = False
        self.kinds = []
        self._others = []
        self.other_ids = set()

    # -- mark ----------------------------------------------------------------------------------------------------------
    def mark(self):
        self.root.mark()
        src = self.root.src
        tree = try_parse(src)
        ok = tree is not None and self.tab.sid(tree) == self.tab.sid(self.root.a) and \
            self.tab.pid(tree) == self.tab.pid(self.root.a)
        self.msrc = src
        self.mtree = tree
        self.tabs = any(ln.startswith('\t') for ln in src.split('\n'))
        self.mrows = stmt_rows(src, tree, self.blocks) if tree is not None else []
        self._keep = [n for n, _ in walk(self.root.a, True)]
        self.mpaths = {id(n): p for n, p in walk(self.root.a, True)}
        self.kinds = []
        self.steps.append({'call': 'mark', 'ok': ok, 'text': self.tab.text(src),
                           'stmts': [{'path': pj(r['path']), 'blk': r['blk'], 'own': r['own'], 'cmt': r['cmt'],
                                      'kind': r['kind']} for r in self.mrows]})
        self.script.append({'call': 'mark', 'src': src})

    def site(self, owner, field, mode, idx=None, src=''):
        p = self.mpaths.get(id(owner))
        org = 'mark' if p is not None else 'other' if id(owner) in self.other_ids else 'new'
        return {'known': p is not None, 'org': org, 'path': pj(p or ()), 'kind': owner.__class__.__name__, 'n': field,
                'mode': mode, 'i': 0 if idx is None else idx + 1, 'src': src}

    def parent_kind(self, node) -> str:
        """Class of the parent the object had in the marked tree ('' if it was not part of it)."""
        p = self.mpaths.get(id(node))
        if not p or self.mtree is None:
            return ''
        par = node_at(self.mtree, p[:-1])
        return par.__class__.__name__ if par is not None else ''

    def register_other(self, fst_root):
        """Remember the AST objects of another FST tree (kept alive) so that sites inside them are classed 'other'."""
        self._others.append(fst_root)
        for n, _ in walk(fst_root.a, True):
            self.other_ids.add(id(n))

    def mutated(self, kind, pos, sites, desc):
        self.kinds.append(kind)
        self.steps.append({'call': 'mutate', 'kind': kind, 'pos': pos, 'sites': sites})
        self.script.append({'call': 'mutate', 'kind': kind, 'pos': pos, 'desc': desc})

    # -- FST-native edit after mark (documented to invalidate the mark) -------------------------------------------------
    def fstedit(self, rng):
        stmts = [n for n, _ in walk(self.root.a) if isinstance(n, ast.stmt) and getattr(n, 'f', None) is not None]
        pre = self.root.src
        how = rng.randrange(4)
        try:
            n = rng.choice(stmts)
            if how == 0:
                n.f.replace(f'fst_edit_{rng.randrange(100)} = 1')
            elif how == 1:
                n.f.parent.put_slice(f'fst_ins_{rng.randrange(100)}()', n.f.pfield.idx, n.f.pfield.idx, n.f.pfield.name)
            elif how == 2:
                exprs = [m for m, _ in walk(n) if isinstance(m, (ast.Name, ast.Constant)) and
                         isinstance(getattr(m, 'ctx', None), (ast.Load, type(None))) and getattr(m, 'f', None)]
                if not exprs:
                    raise ValueError
                rng.choice(exprs).f.replace('fst_expr')
            else:
                ln = n.f.ln
                self.root.put_src('fst_raw = 0\n', ln, 0, ln, 0)
            exc = None
        except Exception as e:  # noqa: BLE001
            exc = e
        changed = exc is None and self.root.src != pre
        self.steps.append({'call': 'fstedit', 'changed': changed, 'how': how})
        self.script.append({'call': 'fstedit', 'how': how, 'exc': None if exc is None else repr(exc), 'src': self.root.src})
        return changed

    # -- reconcile ------------------------------------------------------------------------------------------------------
    def reconcile(self, model=None):
        user = self.root.a
        try:
            usrc = ast.unparse(user)
            norm = try_parse(usrc)
        except Exception:  # noqa: BLE001  (malformed user AST: outside the domain)
            usrc, norm = '', None
        try:
            raw_s = self.tab.sid(user)
        except Exception:  # noqa: BLE001
            raw_s = -1
        norm_s = self.tab.sid(norm) if norm is not None else 0
        ev = {'call': 'reconcile', 'userOk': norm is not None, 'userRawS': raw_s, 'userS': norm_s,
              'kinds': '+'.join(self.kinds) or 'none'}
        try:
            res = self.root.reconcile()
            exc = None
        except Exception as e:  # noqa: BLE001
            res, exc = None, e
        ev['outcome'] = 'ok' if exc is None else 'raise'
        ev['exc'] = '' if exc is None else type(exc).__name__
        ev['msg'] = '' if exc is None else str(exc)[:120].encode('ascii', 'replace').decode()
        if res is not None:
            rsrc = res.src
            rtree = try_parse(rsrc)
            ls, lp = self.tab.node(res.a)
            ss, sp = self.tab.node(rtree) if rtree is not None else (0, 0)
            ev['res'] = {'text': self.tab.text(rsrc), 'srcOk': rtree is not None, 'srcS': ss, 'srcP': sp, 'liveS': ls,
                         'liveP': lp, 'blks': result_blocks(rsrc, rtree, self.mrows, self.blocks),
                         'isRoot': bool(res.is_root), 'shape': skeleton(rtree) if rtree is not None else '?'}
            self.root = res
        else:
            rsrc = None
            ev['res'] = {'text': 0, 'srcOk': False, 'srcS': 0, 'srcP': 0, 'liveS': 0, 'liveP': 0,
                         'blks': [0] * len(self.mrows), 'isRoot': False, 'shape': '?'}
            self.dead = True
        m = model or {}
        ev['model'] = {'has': bool(m), 'shape': m.get('shape', ''), 'touched': m.get('touched', [])}
        self.steps.append(ev)
        self.script.append({'call': 'reconcile', 'user_src': usrc, 'exc': None if exc is None else repr(exc)[:300],
                            'res_src': rsrc})
        return res

    def trace(self, tid):
        return {'id': tid, 'steps': self.steps}


# ----------------------------------------------------------------------------------------------------------------------
# extra inputs of this check (the shared corpus has few compound statements with two long blocks and few `**` dicts)

EXTRA_PROGRAMS = [
    'if x:  # hx\n    a = 1  # a\n    b = 2  # b\n    c = 3  # c\nelse:  # e\n    d = 4  # d\n    # lead e\n    e = 5  # e\n    del f  # f\n',
    'for i in seq:\n    # lead a\n    a = 1  # a\n    b += 2  # b\n    call(c)\nelse:\n    d = 4  # d\n    e(5)  # e\n    f = 6\nafter = 0  # after\n',
    'try:\n    a = 1  # a\n    b = 2  # b\n    c = 3  # c\nexcept E as exc:  # h\n    h1 = 1  # h1\n    h2 = 2  # h2\nelse:\n    d = 4  # d\n'
    '    e = 5  # e\nfinally:\n    # lead f\n    f = 6  # f\n    g = 7  # g\n    h = 8\n',
    'while cond:  # w\n    a = 1  # a\n    b = 2  # b\nelse:\n    d = 4  # d\n    e = 5  # e\n    f = 6  # f\n\ndef fn():\n    if y:\n'
    '        p = 1  # p\n        q = 2  # q\n    else:\n        r = 3  # r\n        s = 4  # s\n    return p\n',
    'd = {k1: v1, k2: v2, **rest}  # d\ne = {**first, k: v,\n     k3: [1, 2],  # c\n     **last}\nf = {1: a, 2: b, 3: c}\ng = {**only}\n',
    'zero = 0  # z\nno = False  # no\nempty = \'\'  # e\nraw = b\'\'  # b\nfz = 0.0\ncz = 0j  # cz\nnone = None\ndots = ...  # d\n'
    'call(0, False, \'\', key=0.0)  # call\nmatch m:\n    case False:  # cf\n        r = 0  # r0\n    case None | True:\n        r = 1\n'
    'def f(a=0, b=False, *, c=\'\', d=None):  # sig\n    return [0, 1, b\'\', 1.0, True]  # ret\n',
    '@deco1  # d1\n@deco2(arg)\ndef fn[T, *Ts](a, b):  # sig\n    # lead x\n    x  =  1  # x\n    return x  # r\n\n'
    '@cdeco\nclass K[T](Base1, Base2, metaclass=M, kw=1):  # k\n    # lead attr\n    attr  =  2  # attr\n    def m(self): pass  # m\n\n'
    'with open(a) as f, lock, ctx() as c:  # w\n    # lead body\n    use(f,  c)  # use\n\nasync def af():\n    async with a as b, c:  # aw\n'
    '        await  b  # ab\n\nclass Plain:  # p\n    y  =  3  # y\n\ndef nodeco(q):\n    return  q  # rq\n',
    'cfg = {\n    "a": 1,  # ca\n    "b": {"x": x, **inner},  # cb\n    **base,\n    "c": 3,\n}\nuse(cfg, {**p, **q}, {k: v})\n',
]

# ----------------------------------------------------------------------------------------------------------------------
# random pure-AST mutation of an arbitrary program (direction V)

ASDL_BASE = {'stmt': ast.stmt, 'expr': ast.expr, 'keyword': ast.keyword, 'alias': ast.alias, 'withitem': ast.withitem,
             'excepthandler': ast.excepthandler, 'match_case': ast.match_case, 'arg': ast.arg, 'pattern': ast.pattern,
             'comprehension': ast.comprehension, 'type_param': ast.type_param}
NEW_SRC = {'stmt': snippets.STMT, 'expr': [e for e in snippets.EXPR if not e.startswith(('*', 'yield', 'await'))],
           'keyword': snippets.KEYWORD, 'alias': snippets.ALIAS_FROM, 'withitem': snippets.WITHITEM,
           'excepthandler': snippets.HANDLER, 'match_case': snippets.MATCH_CASE, 'arg': snippets.ARG,
           'pattern': snippets.PATTERN, 'comprehension': snippets.COMPREHENSION, 'type_param': snippets.TYPE_PARAM}
OTHER_STMT = ['oth = 1  # other tree', '# lead other\nother_call(a,  b)  # trail other', 'if oc:  # oh\n    o1 = 1  # o1\n',
              'for oi in oj:\n    # inner\n    use(oi)\n', 'def ofn(a, b = 2):  # sig\n    return a  # r\n',
              'ol = [1,  # one\n      2]\n', 'with octx as ov:\n    ov()  # call\n']
OTHER_EXPR = ['oname', '(o1 +  o2)', 'ofunc(oa,  ob)', '[oa,  # c\n ob]', '"ostr"', '17', 'o.attr', 'o[idx]', '{ok:  ov}']
FOREIGN_TWO_BLOCK = [
    ('if fc{n}:  # fh\n    fa{n} = 1  # fa\n    fb{n} = 2  # fb\n    fc{n}(1)  # fc\nelse:\n    # lead fd\n    fd{n} = 4  # fd\n'
     '    fe{n} = 5  # fe\n    ff{n}: int = 6  # ff\n', ('body', 'orelse')),
    ('for fi{n} in fj{n}:\n    fa{n} = 1  # fa\n    fb{n} += 2\n    fc{n}(1)  # fc\nelse:\n    fd{n} = 4  # fd\n    fe{n}(5)\n'
     '    ff{n} = 6  # ff\n', ('body', 'orelse')),
    ('while fw{n}:\n    fa{n} = 1  # fa\n    # lead fb\n    fb{n} = 2\n    fc{n} = 3\nelse:\n    fd{n} = 4  # fd\n    fe{n} = 5  # fe\n'
     '    ff{n} = 6\n', ('body', 'orelse')),
    ('try:  # ft\n    fa{n} = 1  # fa\n    fb{n} = 2  # fb\n    fc{n} = 3\nfinally:\n    fd{n} = 4  # fd\n    fe{n} = 5\n'
     '    ff{n}(7)  # ff\n', ('body', 'finalbody')),
    ('try:\n    fa{n} = 1  # fa\n    fb{n} = 2\n    fc{n} = 3  # fc\nexcept FE{n}:\n    pass\nelse:\n    fd{n} = 4  # fd\n'
     '    fe{n} = 5  # fe\n    ff{n} = 6\n', ('body', 'orelse')),
]


def foreign_pair(sess, rng, n=0):
    """Two statements of one compound statement of another FST tree, from two different blocks at consecutive indices."""
    src, fields = rng.choice(FOREIGN_TWO_BLOCK)
    src = src.format(n=n)
    f = FST(src, 'exec')
    sess.register_other(f)
    o = f.a.body[0]
    fa, fb = fields if rng.random() < 0.5 else fields[::-1]
    c = rng.randrange(2)
    return [getattr(o, fa)[c], getattr(o, fb)[c + 1]], f'{o.__class__.__name__}.{fa}[{c}],{fb}[{c + 1}]'


HEADER_LISTS = ('decorator_list', 'type_params', 'bases', 'keywords', 'items')

# value lattice of Constant.value (labels as in spec/ReconcilePrim.tla)
CONST_LATTICE = [('None', None), ('False', False), ('True', True), ('0', 0), ('1', 1), ('0.0', 0.0), ('1.0', 1.0), ('0j', 0j),
                 ('s', ''), ('sx', 'x'), ('b', b''), ('bx', b'x'), ('...', Ellipsis)]


def const_label(v):
    for lab, w in CONST_LATTICE:
        if type(w) is type(v) and w == v:
            return lab
    return ''


def pair_class(old, new):
    """Input classification of a primitive change (same names as ReconcilePrim!PairClass)."""
    try:
        if old == new and type(old) is not type(new):
            return 'eqval'
    except Exception:  # noqa: BLE001
        pass
    if new is None:
        return 'truthy2none' if old else 'falsy2none'
    if old is None:
        return 'none2truthy' if new else 'none2falsy'
    return 'falsy2falsy' if not old and not new else 'other'


SKIP_PRIM = {'kind', 'type_comment', 'simple', 'conversion', 'lineno', 'str', 'tag'}
NO_LIST_OPS = {('Compare', 'ops'), ('Compare', 'comparators'), ('arguments', 'posonlyargs'), ('arguments', 'args'),
               ('arguments', 'kwonlyargs'), ('arguments', 'kw_defaults'), ('arguments', 'defaults'),
               ('MatchMapping', 'keys'), ('MatchMapping', 'patterns'), ('MatchClass', 'kwd_attrs'),
               ('MatchClass', 'kwd_patterns'), ('Dict', 'keys'), ('Dict', 'values'), ('JoinedStr', 'values'),
               ('Module', 'type_ignores')}


def strip_pos(node):
    for n in ast.walk(node):
        for a in ('lineno', 'col_offset', 'end_lineno', 'end_col_offset'):
            if hasattr(n, a):
                try:
                    delattr(n, a)
                except AttributeError:
                    pass
    return node


class Mutator:
    """Applies one random mutation to the working AST of a Session and records its sites."""

    def __init__(self, sess: Session, rng: random.Random):
        self.s = sess
        self.rng = rng
        self.others = []  # keep other trees alive

    # sources ----------------------------------------------------------------------------------------------------------
    def new_node(self, typ):
        while True:
            src = self.rng.choice(NEW_SRC[typ])
            try:
                n = snippets.parse_elem(typ, src)
                break
            except SyntaxError:
                continue
        if self.rng.random() < 0.5:
            strip_pos(n)
        return n, 'new', src

    def other_node(self, typ):
        if typ == 'stmt':
            src = self.rng.choice(OTHER_STMT)
            f = FST(src, 'exec')
            self.s.register_other(f)
            return f.a.body[0], 'other', src
        if typ == 'expr':
            src = self.rng.choice(OTHER_EXPR)
            f = FST(f'ov = {src}  # other value', 'exec')
            self.s.register_other(f)
            return f.a.body[0].value, 'other', src
        return self.new_node(typ)

    def same_node(self, typ, owner, exclude=None):
        base = ASDL_BASE[typ]
        cands = [n for n, _ in walk(self.s.root.a) if isinstance(n, base) and n is not exclude]
        self.rng.shuffle(cands)
        for c in cands[:8]:
            if not contains(c, owner):
                return c, 'same', c.__class__.__name__
        return None

    def source(self, typ, owner, exclude=None):
        r = self.rng.random()
        if r < 0.4:
            return self.new_node(typ)
        if r < 0.75:
            return self.same_node(typ, owner, exclude) or self.new_node(typ)
        return self.other_node(typ)

    # one mutation -----------------------------------------------------------------------------------------------------
    # alignment-sensitive special cases (spec/Reconcile.tla SiblingCopy, ForeignPair) ------------------------------------
    STMT_BLOCKS = ('body', 'orelse', 'finalbody')

    def sibling(self, nodes) -> bool:
        """The k-th statement of one block of a compound statement is linked at / moved to / inserted behind the k-th
        place of a sibling block of the same statement."""
        rng, s = self.rng, self.s
        cands = []
        for o, _ in nodes:
            if not isinstance(o, ast.stmt):
                continue
            fl = [f for f in self.STMT_BLOCKS if isinstance(getattr(o, f, None), list) and getattr(o, f)]
            for f in fl:
                for g in fl:
                    if f != g:
                        cands.append((o, f, g))
        if not cands:
            return False
        big = [c for c in cands if len(getattr(c[0], c[1])) >= 2 and len(getattr(c[0], c[2])) >= 2]
        o, f, g = rng.choice(big or cands)
        F, G = getattr(o, f), getattr(o, g)
        k = rng.randrange(min(len(F), len(G)))
        if len(F) >= 2 and rng.random() < 0.7:
            k = min(k, len(F) - 2)             # keep a following statement in F
        kind = o.__class__.__name__
        how = rng.choice(['replace', 'replace', 'insert', 'moveover'])
        x = G[k]
        if how == 'replace':
            if F[k] is x:
                return False
            F[k] = x
            s.mutated('replace_same', 'stmt.list.sibling', [s.site(o, f, 'slot', k, src=kind)], f'{kind}.{f}[{k}] = {kind}.{g}[{k}]')
        elif how == 'insert':
            F.insert(k + 1, x)
            s.mutated('insert_same', 'stmt.list.sibling', [s.site(o, f, 'list', k + 1, src=kind)],
                      f'{kind}.{f}.insert({k + 1}, {kind}.{g}[{k}])')
        else:
            if len(G) < 2 and g == 'body':
                return False
            F[k] = G.pop(k)
            s.mutated('move', 'stmt.list.sibling', [s.site(o, g, 'list', k), s.site(o, f, 'slot', k, src=kind)],
                      f'{kind}.{f}[{k}] = {kind}.{g}.pop({k})')
        return True

    def pair(self, nodes) -> bool:
        """Adjacent statements from two blocks of one compound statement of another tree put side by side."""
        rng, s = self.rng, self.s
        lists = [(o, f) for o, _ in nodes for f, t, q in grammar.FIELDS.get(o.__class__.__name__, ())
                 if t == 'stmt' and q == '*']
        if not lists:
            return False
        o, f = rng.choice(lists)
        lst = getattr(o, f)
        pr, d = foreign_pair(s, rng, rng.randrange(50))
        i = rng.randrange(len(lst) + 1)
        kind = o.__class__.__name__
        if lst and rng.random() < 0.3:         # over an existing statement
            i = min(i, len(lst) - 1)
            lst[i:i + 1] = pr
        else:
            lst[i:i] = pr
        s.mutated('insert_other', 'stmt.list.pair', [s.site(o, f, 'list', i)], f'{kind}.{f}[{i}:{i}] = other {d}')
        return True

    def dict_pairs(self, nodes) -> bool:
        """Membership / order of the (key, value) pairs of a Dict, including `**value` entries (key None)."""
        rng, s = self.rng, self.s
        dicts = [o for o, _ in nodes if isinstance(o, ast.Dict)]
        if not dicts:
            return False
        star = [o for o in dicts if any(k is None for k in o.keys)]
        o = rng.choice(star if star and rng.random() < 0.7 else dicts)
        K, V = o.keys, o.values
        n = len(K)
        if len(V) != n:
            return False
        had = any(k is None for k in K)
        op = rng.choice(['delete', 'delete', 'insert', 'insert_star', 'swap', 'dup', 'star', 'unstar'])

        def ex():
            got = self.source('expr', o)
            return got[0] if got else ast.Name(id=f'dx{rng.randrange(50)}')

        i = rng.randrange(n) if n else 0
        if op == 'delete' and n >= 1:
            at = 'star' if K[i] is None else 'key'
            del K[i], V[i]
            kind = 'delete'
        elif op in ('insert', 'insert_star'):
            i = rng.randrange(n + 1)
            at = 'star' if op == 'insert_star' else 'key'
            K.insert(i, None if op == 'insert_star' else ex())
            V.insert(i, ex())
            kind = 'insert_new'
        elif op == 'swap' and n >= 2:
            i, j = sorted(rng.sample(range(n), 2))
            at = 'star' if K[i] is None or K[j] is None else 'key'
            K[i], K[j] = K[j], K[i]
            V[i], V[j] = V[j], V[i]
            kind = 'swap'
        elif op == 'dup' and n >= 1:
            j = rng.randrange(n + 1)
            at = 'star' if K[i] is None else 'key'
            K.insert(j, K[i])
            V.insert(j, V[i])
            kind = 'dup'
        elif op == 'star' and n >= 1 and K[i] is not None:
            K[i] = None
            at, kind = 'star', 'delete'
        elif op == 'unstar' and n >= 1 and K[i] is None:
            K[i] = ex()
            at, kind = 'star', 'insert_new'
        else:
            return False
        ctxt = 'withstar' if had or any(k is None for k in K) else 'nostar'
        s.mutated(kind, f'dict.pair.{at}/{ctxt}', [s.site(o, 'keys', 'list', i), s.site(o, 'values', 'list', i)],
                  f'Dict pairs {op} @{i}')
        return True

    def step(self) -> bool:
        rng = self.rng
        s = self.s
        nodes = [(n, p) for n, p in walk(s.root.a) if not isinstance(n, FSTRINGY)]
        r = rng.random()
        if r < 0.08 and self.sibling(nodes):
            return True
        if 0.08 <= r < 0.13 and self.pair(nodes):
            return True
        if 0.13 <= r < (0.40 if any(isinstance(n, ast.Dict) and None in n.keys for n, _ in nodes) else 0.19) and \
                self.dict_pairs(nodes):
            return True
        for _ in range(30):
            strat = None
            if rng.random() < 0.3:
                # stratified by (node class, list field): rare statement-ish lists (Try.finalbody, While.orelse, Match.cases,
                # ...) are mutated as often as Module.body
                groups = {}
                for o, _p in nodes:
                    for f, t, qq in grammar.FIELDS.get(o.__class__.__name__, ()):
                        if qq == '*' and (t in grammar.STMTISH or (isinstance(o, ast.stmt) and f in HEADER_LISTS)):
                            groups.setdefault((o.__class__.__name__, f), []).append((o, (f, t, qq)))
                if groups:
                    strat = rng.choice(groups[rng.choice(sorted(groups))])
            if strat:
                owner, (field, typ, q) = strat
                kind = owner.__class__.__name__
            else:
                owner, cur = rng.choice(nodes) if rng.random() < 0.5 else \
                    rng.choice([x for x in nodes if isinstance(x[0], (ast.stmt, ast.mod))] or nodes)
                kind = owner.__class__.__name__
                fl = [f for f in grammar.FIELDS.get(kind, ()) if f[0] != 'ctx']
                if not fl:
                    continue
                field, typ, q = rng.choice(fl)
            val = getattr(owner, field, None)
            where = ('stmt' if typ in grammar.STMTISH else 'expr' if typ == 'expr' else 'prim' if typ in grammar.PRIM_TYPES
                     else 'op' if typ in grammar.OP_TYPES else typ)
            if typ in ASDL_BASE and q == '*':
                if (kind, field) in NO_LIST_OPS:
                    ops = ['replace']
                else:
                    ops = ['replace', 'insert', 'delete', 'swap', 'dup', 'move', 'insert']
                op = rng.choice(ops)
                n = len(val)
                pc = (lambda i: 'only' if n == 1 else 'first' if i == 0 else 'last' if i == n - 1 else 'mid')

                def mk(i, node):   # input classification: an `if` becomes the first statement of an `else:` block
                    if kind == 'If' and field == 'orelse' and i == 0 and isinstance(node, ast.If):
                        return '/If.orelse<If' + ('~tabs' if s.tabs else '')
                    return ''

                if op == 'replace' and n and (kind, field) == ('Dict', 'keys') and rng.random() < 0.3:
                    i = rng.randrange(n)
                    if val[i] is None:
                        continue
                    val[i] = None      # `k: v` becomes `**v`
                    s.mutated('delete', f'{where}.opt', [s.site(owner, field, 'slot', i)], f'Dict.keys[{i}] = None')
                    return True
                if op == 'replace' and n:
                    i = rng.randrange(n)
                    if val[i] is None:
                        continue
                    got = self.source(typ, owner, val[i])
                    if not got:
                        continue
                    node, org, d = got
                    val[i] = node
                    s.mutated(f'replace_{org}', f'{where}.list.{pc(i)}{mk(i, node)}',
                              [s.site(owner, field, 'slot', i, src=s.parent_kind(node))],
                              f'{kind}.{field}[{i}] = {org}:{d}')
                    return True
                if op == 'insert':
                    i = rng.randrange(n + 1)
                    got = self.source(typ, owner)
                    if not got:
                        continue
                    node, org, d = got
                    val.insert(i, node)
                    s.mutated(f'insert_{org}', f'{where}.list.{"end" if i == n else pc(i)}{mk(i, node)}',
                              [s.site(owner, field, 'list', i, src=s.parent_kind(node))], f'{kind}.{field}.insert({i}, {org}:{d})')
                    return True
                if op == 'delete' and n >= 2:
                    i = rng.randrange(n)
                    del val[i]
                    s.mutated('delete', f'{where}.list.{pc(i)}', [s.site(owner, field, 'list', i)],
                              f'del {kind}.{field}[{i}]')
                    return True
                if op == 'swap' and n >= 2:
                    i, j = sorted(rng.sample(range(n), 2))
                    val[i], val[j] = val[j], val[i]
                    s.mutated('swap', f'{where}.list.{pc(i)}', [s.site(owner, field, 'list', i)],
                              f'swap {kind}.{field}[{i}],[{j}]')
                    return True
                if op == 'dup' and n:
                    i = rng.randrange(n)
                    j = rng.randrange(n + 1)
                    val.insert(j, val[i])
                    s.mutated('dup', f'{where}.list.{pc(i)}', [s.site(owner, field, 'list', j)],
                              f'{kind}.{field}.insert({j}, same[{i}])')
                    return True
                if op == 'move' and n >= 2:
                    # move an element into another list of the same ASDL type elsewhere in the tree
                    dests = [(o2, f2) for o2, _ in nodes for f2, t2, q2 in grammar.FIELDS.get(o2.__class__.__name__, ())
                             if t2 == typ and q2 == '*' and (o2.__class__.__name__, f2) not in NO_LIST_OPS and
                             not (o2 is owner and f2 == field)]
                    if not dests:
                        continue
                    i = rng.randrange(n)
                    o2, f2 = rng.choice(dests)
                    if contains(val[i], o2):
                        continue
                    x = val.pop(i)
                    l2 = getattr(o2, f2)
                    j = rng.randrange(len(l2) + 1)
                    l2.insert(j, x)
                    s.mutated('move', f'{where}.list.{pc(i)}',
                              [s.site(owner, field, 'list', i), s.site(o2, f2, 'list', j, src=kind)],
                              f'{o2.__class__.__name__}.{f2}.insert({j}, {kind}.{field}.pop({i}))')
                    return True
                continue
            if typ in ASDL_BASE and q in ('', '?'):
                if q == '?' and val is not None and rng.random() < 0.2:
                    setattr(owner, field, None)
                    s.mutated('delete', f'{where}.opt', [s.site(owner, field, 'slot')], f'{kind}.{field} = None')
                    return True
                got = self.source(typ, owner, val)
                if not got:
                    continue
                node, org, d = got
                setattr(owner, field, node)
                s.mutated(f'replace_{org}' if val is not None else f'insert_{org}', f'{where}.{"opt" if q else "one"}',
                          [s.site(owner, field, 'slot')], f'{kind}.{field} = {org}:{d}')
                return True
            if typ in grammar.OP_TYPES and q == '':
                classes = [c for c in {'operator': ast.operator, 'boolop': ast.boolop, 'unaryop': ast.unaryop,
                                       'cmpop': ast.cmpop}[typ].__subclasses__() if not isinstance(val, c)]
                c = rng.choice(classes)
                setattr(owner, field, c())
                s.mutated('replace_new', 'op.one', [s.site(owner, field, 'slot')], f'{kind}.{field} = {c.__name__}()')
                return True
            if typ in grammar.PRIM_TYPES and field not in SKIP_PRIM:
                if q == '*' and isinstance(val, list) and val:  # Global / Nonlocal names, MatchClass.kwd_attrs
                    if kind not in ('Global', 'Nonlocal'):
                        continue
                    op = rng.choice(['set', 'insert', 'delete', 'swap'])
                    i = rng.randrange(len(val))
                    if op == 'set':
                        val[i] = f'nm{rng.randrange(50)}'
                    elif op == 'insert':
                        val.insert(i, f'nm{rng.randrange(50)}')
                    elif op == 'delete' and len(val) >= 2:
                        del val[i]
                    elif op == 'swap' and len(val) >= 2:
                        val[0], val[-1] = val[-1], val[0]
                    else:
                        continue
                    s.mutated('setprim' if op == 'set' else op, 'prim.list', [s.site(owner, field, 'self')],
                              f'{kind}.{field} {op} @{i}')
                    return True
                if q == '*':
                    continue
                new = self.new_prim(owner, field, val, typ, q)
                if new is NotImplemented:
                    continue
                setattr(owner, field, new)
                eqv = typ == 'constant' and new == val and type(new) is not type(val)   # e.g. True -> 1, 1 -> 1.0
                if typ == 'constant' and (const_label(val) or const_label(new)):
                    lat = f':{const_label(val) or "v"}>{const_label(new) or "v"}/{pair_class(val, new)}'
                elif new is None or val is None:
                    lat = f':{"None" if val is None else "v"}>{"None" if new is None else "v"}/{pair_class(val, new)}'
                else:
                    lat = ''
                dotted = '/dotted' if kind == 'ImportFrom' and field == 'level' and '.' in (owner.module or '') else ''
                if (kind, field) in (('ImportFrom', 'module'), ('alias', 'name')) and val and id(owner) in s.mpaths:
                    # a dotted name written with blanks / continuation lines around its dots (input classification)
                    seg = ast.get_source_segment(s.msrc, owner) or ''
                    if '.' in val and val not in seg:
                        dotted = '/spaced'
                if kind == 'Constant' and id(owner) in s.mpaths and hasattr(owner, 'end_col_offset'):
                    # input classification: the old literal touches an identifier / keyword character in the marked source
                    # (`else''`, `''if x`) and the new literal starts / ends with one
                    ls = s.msrc.split('\n')
                    try:
                        l0, l1 = ls[owner.lineno - 1], ls[owner.end_lineno - 1]
                        before = l0[:_col(l0, owner.col_offset)][-1:]
                        after = l1[_col(l1, owner.end_col_offset):][:1]
                    except IndexError:
                        before = after = ''
                    text = '...' if new is Ellipsis else repr(new)
                    ident = (lambda c: c.isalnum() or c == '_')
                    if (before and ident(before) and ident(text[0])) or (after and ident(after) and ident(text[-1])):
                        dotted += '/tight'
                s.mutated('setprim_eq' if eqv else 'setprim', f'prim.{kind}.{field}{lat}{dotted}', [s.site(owner, field, 'self')], f'{kind}.{field} = {new!r}')
                return True
        return False

    def new_prim(self, owner, field, val, typ, q):
        rng = self.rng
        if typ == 'identifier':
            if val is None:
                return NotImplemented if rng.random() < 0.5 else f'id{rng.randrange(50)}'
            if q == '?' and rng.random() < 0.3:
                return None                               # asname / ExceptHandler.name / keyword.arg / rest ... removed
            if isinstance(owner, (ast.alias, ast.ImportFrom)):
                return f'mod{rng.randrange(50)}'
            return rng.choice([f'id{rng.randrange(50)}', val + '_x', 'z'])
        if typ == 'constant':
            if isinstance(owner, ast.Constant) and rng.random() < 0.35:      # any other point of the value lattice
                return rng.choice([w for _l, w in CONST_LATTICE if type(w) is not type(val) or w != val])
            if isinstance(owner, ast.MatchSingleton):
                return rng.choice([v for v in (True, False, None) if v is not val])
            if isinstance(val, (bool, int, float)) and val in (0, 1) and rng.random() < 0.6:
                return rng.choice([v for v in (bool(val), int(val), float(val)) if type(v) is not type(val)])
            if isinstance(val, bool) or val is None or val is Ellipsis:
                return rng.choice([v for v in (True, False, None) if v is not val])
            if isinstance(val, int):
                return val + 1 + rng.randrange(5)
            if isinstance(val, str):
                return val + rng.choice(['x', ' y', "'q"])
            if isinstance(val, float):
                return abs(val) + 1.5
            if isinstance(val, bytes):
                return val + b'z'
            return NotImplemented
        if typ == 'int' and isinstance(val, int):
            if field == 'is_async':
                return 1 - val
            if field == 'level':
                return val + 1 if (val == 0 or getattr(owner, 'module', None) is None or rng.random() < 0.5) else val - 1
        return NotImplemented
