"""C05 oracle side: build the embeddings of spec/ParseModes.tla (table read from the JSON TLC emitted), let CPython
parse them, and record the facts the trace specification judges.  Standard library only (ast, tokenize); no pfst."""

from __future__ import annotations

import ast
import io
import tokenize

TRIVIA = {tokenize.NL, tokenize.NEWLINE, tokenize.COMMENT, tokenize.INDENT, tokenize.DEDENT, tokenize.ENDMARKER}
OPEN, CLOSE = '([{', ')]}'


def _toks(src):
    for s in (src, src + '\n'):  # a fragment may end in a continuation backslash
        try:
            return list(tokenize.generate_tokens(io.StringIO(s).readline))
        except (tokenize.TokenError, SyntaxError, IndentationError, ValueError):
            pass
    return None


def has_tokens(frag: str) -> bool:
    """Does the fragment contain anything but blanks, comments and bare continuation backslashes?"""
    for ln in frag.split('\n'):
        i = ln.find('#')
        if i >= 0:
            ln = ln[:i]
        if ln.strip() not in ('', '\\'):
            return True
    return False


def is_blank(frag: str) -> bool:
    """only blanks, newlines and bare continuation backslashes (no comment)"""
    return all(ln.strip() in ('', '\\') for ln in frag.split('\n'))


def lead_trivia(frag: str) -> bool:
    """is there layout (blank / comment line / indentation) in front of the first token?"""
    return frag[:1] in (' ', '\t', '\n', '#', '\\')


def join_lines(frag: str):
    """`join`: the fragment lives inside one logical line of a simple statement, so its bare newlines (bracket depth
    0) are joined with backslashes; a comment that ends such a line is removed (it would hide the continuation; nothing
    follows a comment on its line, so no position changes).  None if the fragment does not tokenize."""
    if '\n' not in frag:
        return frag
    toks = _toks(frag)
    if toks is None:
        return None
    lines = frag.split('\n')
    depth = 0
    prev = None
    add = set()
    cut = {}
    for t in toks:
        if t.type == tokenize.OP:
            if t.string in OPEN:
                depth += 1
            elif t.string in CLOSE:
                depth -= 1
        elif t.type in (tokenize.NL, tokenize.NEWLINE) and t.string == '\n' and depth <= 0:
            if prev is not None and prev.type == tokenize.COMMENT and prev.start[0] == t.start[0]:
                cut[t.start[0]] = prev.start[1]
            add.add(t.start[0])
        prev = t
    for ln in add:
        if ln - 1 < len(lines) - 1:  # a newline follows this line inside the fragment
            if ln in cut:
                lines[ln - 1] = lines[ln - 1][:cut[ln]]
            lines[ln - 1] += '\\'
    return '\n'.join(lines)


def logical_starts(frag: str):
    """Physical lines (1-based) of the fragment on which a logical line starts."""
    toks = _toks(frag)
    n = frag.count('\n') + 1
    if toks is None:
        return [i for i in range(1, n + 1)]
    out = []
    fresh = True
    lines = frag.split('\n')
    last_end = 0
    for t in toks:
        if t.type in (tokenize.NL, tokenize.COMMENT, tokenize.INDENT, tokenize.DEDENT, tokenize.ENDMARKER):
            continue
        if t.type == tokenize.NEWLINE:
            fresh = True
            continue
        if fresh:
            ln = t.start[0]
            # the logical line may begin on earlier physical lines that hold nothing but a continuation backslash
            while ln - 1 > last_end and ln - 2 < len(lines) and lines[ln - 2].strip() == '\\':
                ln -= 1
            out.append(ln)
            fresh = False
        last_end = t.end[0]
    return out


def _bcol(line: str, ccol: int) -> int:
    return len(line[:ccol].encode())


def _off2lc(text: str, off: int):
    """character offset -> (1-based line, byte column)"""
    ln = text.count('\n', 0, off)
    start = text.rfind('\n', 0, off) + 1
    return ln + 1, len(text[start:off].encode())


def _py_parse(text, py):
    try:
        return ast.parse(text, mode=py)
    except (SyntaxError, ValueError, RecursionError, MemoryError, OverflowError):
        return None


class Embedder:
    def __init__(self, table: dict, tab):
        self.table = table  # mode -> row
        self.tab = tab  # proj.Tables
        self._ph = {}

    def build(self, alt, frag):
        """-> (embedding text, start offset, end offset, indented embedding lines) or None"""
        f = frag
        tail = ''
        if alt['join']:
            # trivia behind the last token goes behind the suffix; bare newlines before it are joined
            toks = [t for t in (_toks(frag) or []) if t.type not in TRIVIA]
            if toks:
                lines = frag.split('\n')
                el, ec = toks[-1].end
                cut = sum(len(x) + 1 for x in lines[:el - 1]) + ec
                f, tail = frag[:cut], frag[cut:]
                tail = tail.replace('\\\n', '\n')
                if tail.rstrip(' \t').endswith('\\'):
                    tail = tail.rstrip(' \t')[:-1]
            f = join_lines(f)
            if f is None:
                return None
        ind_lines = []
        dl = len(alt['pre']) - 1
        if alt['ind']:
            lines = f.split('\n')
            for ln in logical_starts(f):
                if 1 <= ln <= len(lines):
                    lines[ln - 1] = ' ' * alt['ind'] + lines[ln - 1]
                    ind_lines.append(ln + dl)
            f = '\n'.join(lines)
        pre = '\n'.join(alt['pre'])
        suf = '\n'.join(alt['suf'])
        return pre + f + suf + tail, len(pre), len(pre) + len(f), ind_lines

    def ph_sid(self, mode, i, alt):
        key = (mode, i)
        if key not in self._ph:
            b = self.build(alt, alt['ph'])
            a = _py_parse(b[0], alt['py']) if b else None
            if a is None:
                raise AssertionError(f'placeholder embedding of {mode}[{i}] does not parse: {b and b[0]!r}')
            self._ph[key] = self.tab.sid(a)
        return self._ph[key]

    def facts(self, mode, frag):
        row = self.table[mode]
        out = []
        for i, alt in enumerate(row['alts']):
            phs = self.ph_sid(mode, i, alt)
            rec = {'parses': False, 'full': 0, 'fullS': 0, 'phS': phs, 'straddle': False, 'balanced': False, 'region': [0, 0, 0, 0],
                   'tok': [0, 0, 0, 0], 'indLines': [], 'emb': ''}
            out.append(rec)
            b = self.build(alt, frag)
            if b is None:
                continue
            text, s, e, ind_lines = b
            rec['emb'] = text
            a = _py_parse(text, alt['py'])
            if a is None:
                continue
            sl, sc = _off2lc(text, s)
            el, ec = _off2lc(text, e)
            rec['region'] = [sl, sc, el, ec]
            rec['indLines'] = ind_lines
            toks = _toks(text)
            if toks is None:  # cannot happen for text that parses; be total anyway
                rec['straddle'] = True
                toks = []
            lines = text.split('\n')
            first = last = None
            depth = 0
            balanced = True
            for t in toks:
                if t.type in TRIVIA:
                    continue
                ts = (t.start[0], _bcol(lines[t.start[0] - 1], t.start[1]))
                te = (t.end[0], _bcol(lines[t.end[0] - 1], t.end[1]))
                if te <= (sl, sc) or ts >= (el, ec):
                    continue
                if ts < (sl, sc) or te > (el, ec):
                    rec['straddle'] = True
                    continue
                if first is None:
                    first = ts
                last = te
                if t.type == tokenize.OP and t.string in OPEN:
                    depth += 1
                elif t.type == tokenize.OP and t.string in CLOSE:
                    depth -= 1
                    if depth < 0:
                        balanced = False
            if first is not None:
                rec['tok'] = [first[0], first[1], last[0], last[1]]
            rec['balanced'] = balanced and depth == 0
            rec['parses'] = True
            rec['fullS'], rec['full'] = self.tab.node(a)
        return out
