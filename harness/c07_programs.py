"""Extra inputs for the C07 / C08 enumeration (inputs only): shapes the shared corpus is thin on - multi-line strings in
and out of docstring position inside indented blocks, nested docstrings, multi-line operands enclosed only by their
parent's brackets, walrus / arglike / yield operands, comment-rich containers."""

EXTRA = [
# e0 docstrings and look-alikes at depth
'''\
class Outer:
    """Outer doc.

    indented detail
        deeper
    """

    def method(self):
        """Method doc
        second line
        """
        x = 1
        """stray string
        in the body
        """
        if x:
            """not a docstring
            either
            """
            y = """assigned
            value keeps its blanks"""
        b"""bytes are never
        a docstring"""
        tag = u'legacy', u"""multi
        line"""
        return x

    class Inner:
        \'\'\'Inner doc
          ragged
        \'\'\'
        attr = None
''',
# e1 multi-line operands enclosed only by the parent's brackets
'''\
result = func(first +
              second,
              not third,
              key=fourth *
              fifth)
items = [alpha if beta
         else gamma,
         lambda q: q +
         1]
sub = table[row +
            1, col]
with (ctx_a as va,
      ctx_b as vb):
    pass
''',
# e2 walrus, arglike, yield operands
'''\
def gen(seq):
    got = (yield)
    h((yield got), (yield from seq))
    if (n := len(seq)) > 1:
        call(*seq or [], **(opts or {}))
    data[(m := n)] = [(k := n), k]
    return f(*not_a if flag else b)
''',
# e3 comment-rich containers and blocks
'''\
values = [
    # leading one
    one,  # t1
    # leading two
    two,  # t2

    three,
]  # closing
def handler(a,  # ca
            b=2,  # cb
            *rest,  # cr
            **kw):  # ck
    # body comment
    try:  # try
        step()  # s
    # before except
    except E:  # e
        pass
    # before else
    else:  # el
        ok()
    # before finally
    finally:  # f
        done()  # d
    # trailing block comment
    return a
''',
# e4 elif chains and inline bodies
'''\
if a: x = 1
elif b: x = 2
elif c:
    x = 3
else: x = 4
while w: w -= 1
else: z = 0
for i in j: k = i
try: t()
except E as e: u()
else: v()
finally: w()
''',
]
