"""Extra inputs for the C07 / C08 enumeration (inputs only): shapes the shared corpus is thin on - multi-line strings in
and out of docstring position inside indented blocks, nested docstrings, multi-line operands enclosed only by their
parent's brackets, walrus / arglike / yield operands, comment-rich containers."""

EXTRA = [
# e0 docstrings and look-alikes at depth
'''\
class Outer:
    """Outer doc.

    indented detail
        deeper
    """

    def method(self):
        """Method doc
        second line
        """
        x = 1
        """stray string
        in the body
        """
        if x:
            """not a docstring
            either
            """
            y = """assigned
            value keeps its blanks"""
        b"""bytes are never
        a docstring"""
        tag = u'legacy', u"""multi
        line"""
        return x

    class Inner:
        \'\'\'Inner doc
          ragged
        \'\'\'
        attr = None
''',
# e1 multi-line operands enclosed only by the parent's brackets
'''\
result = func(first +
              second,
              not third,
              key=fourth *
              fifth)
items = [alpha if beta
         else gamma,
         lambda q: q +
         1]
sub = table[row +
            1, col]
with (ctx_a as va,
      ctx_b as vb):
    pass
''',
# e2 walrus, arglike, yield operands
'''\
def gen(seq):
    got = (yield)
    h((yield got), (yield from seq))
    if (n := len(seq)) > 1:
        call(*seq or [], **(opts or {}))
    data[(m := n)] = [(k := n), k]
    return f(*not_a if flag else b)
''',
# e3 comment-rich containers and blocks
'''\
values = [
    # leading one
    one,  # t1
    # leading two
    two,  # t2

    three,
]  # closing
def handler(a,  # ca
            b=2,  # cb
            *rest,  # cr
            **kw):  # ck
    # body comment
    try:  # try
        step()  # s
    # before except
    except E:  # e
        pass
    # before else
    else:  # el
        ok()
    # before finally
    finally:  # f
        done()  # d
    # trailing block comment
    return a
''',
# e4 elif chains and inline bodies
'''\
if a: x = 1
elif b: x = 2
elif c:
    x = 3
else: x = 4
while w: w -= 1
else: z = 0
for i in j: k = i
try: t()
except E as e: u()
else: v()
finally: w()
''',
]

# e5: sequences whose remaining tail keeps a separator after a cut (targets; positionals followed by keywords; class
# bases followed by keywords; class patterns followed by keyword patterns), several per line
EXTRA.append('''\
first = second = third = fourth = 0
obj.attr = table[key] = (p, q) = value
log("text", level, count, sep=1, end=2)
res = outer(inner(a, b, k=1), c, d, key=fn(x, y, z=0))
class Shape(Base, Mixin, metaclass=Meta, flag=True): pass
match point:
    case Point(px, py, z=0, w=1): pass
    case Pair(Point(ax, ay, t=2), other, name="n"): pass
def params(a, b=1, *rest, c, d=2, **kw): return [a, b], {c: d, **kw}, (rest, kw)
del first, second[0], third.attr
import alpha, beta.gamma as bg, delta
pair = ('s', b,)
trio = [a, 't', c,]
uniq = {a, b, 'u',}
solo = (a,)
res2 = call(a, 'v', c,)
idx = grid[i, 'w', k]
with open(a) as f, lock as g, h: pass
from pkg import name1, name2 as n2, name3
def scope():
    global gone, gtwo, gthree
    return not a or 'x' and c or d, [v for v in a if b if 'y' if c]
''')

# e6: keyword-adjacent headers and identifiers that begin with keywords (also as the first token of block statements)
EXTRA.append('''\
if(a): r = 1
elif(b):
    r = 2
elif[c][0]:
    r = 3
else:
    elif_count = 4
if a:
    pass
else:
    elif_count = 1
    else_ = 2
while(a):
    iffy = 1
else:
    elif_x = iffy
for(x)in(y):
    notx = x
else:
    else_y = 0
try:
    import_x = 1
except(E):
    async_x = 2
else:
    elif_z = 3
finally:
    else_w = 4
with(a)as(b):
    format = b
def ret():
    if a:
        return(x)
    elif"s":
        return[x]
    else:
        elif_r = yield(x)
    assert(x), (y)
    del(x)
    raise(E)from(F)
async def co():
    v = await(x)
    w = not(x) and(y) or(z) in(q) is(r)
    return lambda:(x)
match(x):
    case(1):
        pass
    case[y]:
        elif_m = y
''')

# e7: operands followed by keywords (if / else / for / in / and / or / is / not in), one construct per line, so that the
# wrapbreak + kwadj layouts give `(a +\n b)if c else d`, `[x for x in(p or\n q)if c]`, `(a\n .b)and(c)`
EXTRA.append('''\
x = [a + b if c else d]
v = [k.attr for k in p or q if k.w]
y = {k: 1 if p or q else 2 for k in z.items}
z = a.b and c.d or e + f
w = a + b in c.d
u = a - b is not c.e
t = not a.b if a * b else c - d
s = [i * j for i in r.s for j in i.t if i < j and j]
def pick(seq):
    return [v.x for v in seq.items if v.y and v.z]
def gen(seq):
    return (m + n for m in seq.a or seq.b if m not in seq.c)
q = a + b if c + d else e + f
''')

# e8: comments in every gap of multi-line operand chains, parameter lists and optional blocks
EXTRA.append('''\
flag = (aaa and  # c1
        bbb and
        ccc)  # end
wide_flag = (aaa or  # a longer comment after the operator
             bbb or  # c2
             ccc or
             ddd)
chain = (first <  # c3
         second <=
         third)
tight_chain = (p ==  # c4
  q != r)
def f(  # open
    a,  # pa
    b=1,  # pb
): pass
def g(  # gopen
        x, y): return x
if y:
    z = 1
else:
    # under else
    z = 2
while y:
    z = 3
else:  # on else
    # under else 2
    z = 4
    w = 5
try:
    t()
except E:
    pass
# above finally
finally:
    # under finally
    u()
for i in j:
    pass
# above else
else:
    # under else 3
    v()
''')

# e9: inside f-strings - replacement-field expressions, containers in them, nested f-strings, conversions, format specs,
# self-documenting fields
EXTRA.append('''\
name = 'w'
msg = f"hello {name}!"
calc = f"{a + b} and {c * (d - e)}"
items = f"{[x, y, z]} {(p, q)} {{'k': v}} { {k: v} }"
conv = f"{obj!r} {obj!s:>10} {val:{width}.{prec}f}"
nest = f"{f'{inner}' + other} {'-'.join(f'{i}' for i in seq)}"
debug = f"{x = } {x+y=} {obj.attr = !r} {value = :>8}"
call = f"{func(a, b=1)} {d['key']} {obj.m(arg).n}"
cond = f"{a if b else c} {(lambda: z)()} {not flag}"
multi = f"""{first}
{second + third}
{[u,
  v]}"""
def fmt(rows):
    return f"{len(rows)} rows: {', '.join(str(r) for r in rows)}" + f"{rows[0]:{w}}"
''')
