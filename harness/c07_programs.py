"""Extra inputs for the C07 / C08 enumeration (inputs only): shapes the shared corpus is thin on - multi-line strings in
and out of docstring position inside indented blocks, nested docstrings, multi-line operands enclosed only by their
parent's brackets, walrus / arglike / yield operands, comment-rich containers."""

EXTRA = [
# e0 docstrings and look-alikes at depth
'''\
class Outer:
    """Outer doc.

    indented detail
        deeper
    """

    def method(self):
        """Method doc
        second line
        """
        x = 1
        """stray string
        in the body
        """
        if x:
            """not a docstring
            either
            """
            y = """assigned
            value keeps its blanks"""
        b"""bytes are never
        a docstring"""
        tag = u'legacy', u"""multi
        line"""
        return x

    class Inner:
        \'\'\'Inner doc
          ragged
        \'\'\'
        attr = None
''',
# e1 multi-line operands enclosed only by the parent's brackets
'''\
result = func(first +
              second,
              not third,
              key=fourth *
              fifth)
items = [alpha if beta
         else gamma,
         lambda q: q +
         1]
sub = table[row +
            1, col]
with (ctx_a as va,
      ctx_b as vb):
    pass
''',
# e2 walrus, arglike, yield operands
'''\
def gen(seq):
    got = (yield)
    h((yield got), (yield from seq))
    if (n := len(seq)) > 1:
        call(*seq or [], **(opts or {}))
    data[(m := n)] = [(k := n), k]
    return f(*not_a if flag else b)
''',
# e3 comment-rich containers and blocks
'''\
values = [
    # leading one
    one,  # t1
    # leading two
    two,  # t2

    three,
]  # closing
def handler(a,  # ca
            b=2,  # cb
            *rest,  # cr
            **kw):  # ck
    # body comment
    try:  # try
        step()  # s
    # before except
    except E:  # e
        pass
    # before else
    else:  # el
        ok()
    # before finally
    finally:  # f
        done()  # d
    # trailing block comment
    return a
''',
# e4 elif chains and inline bodies
'''\
if a: x = 1
elif b: x = 2
elif c:
    x = 3
else: x = 4
while w: w -= 1
else: z = 0
for i in j: k = i
try: t()
except E as e: u()
else: v()
finally: w()
''',
]

# e5: sequences whose remaining tail keeps a separator after a cut (targets; positionals followed by keywords; class
# bases followed by keywords; class patterns followed by keyword patterns), several per line
EXTRA.append('''\
first = second = third = fourth = 0
obj.attr = table[key] = (p, q) = value
log("text", level, count, sep=1, end=2)
res = outer(inner(a, b, k=1), c, d, key=fn(x, y, z=0))
class Shape(Base, Mixin, metaclass=Meta, flag=True): pass
match point:
    case Point(px, py, z=0, w=1): pass
    case Pair(Point(ax, ay, t=2), other, name="n"): pass
def params(a, b=1, *rest, c, d=2, **kw): return [a, b], {c: d, **kw}, (rest, kw)
del first, second[0], third.attr
import alpha, beta.gamma as bg, delta
''')
