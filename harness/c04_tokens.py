"""C04 recorder: token / line facts of one edit event, computed with the standard library only (`tokenize`, `ast`).

Attached to the events of the shared edit-history driver through its `hooks['post']` callback.  Nothing here asks pfst
what the text *means*: token streams come from `tokenize` on the pre / post source, all extents come from `ast.parse`
of the pre source (own-token flags of the post stream from `ast.parse` of the post source).  No verdict is computed
here; spec/TokenLaws.tla does that from the recorded facts.

Recorded per event (`ev['tk']`, all token indices 1-based and inclusive, 0 = none):
  ok       facts are complete (pre / post tokenize, pre parses, container resolved)
  pre,post indices into the batch-wide `streams` table, one record per distinct source text:
           {k: token ids into `ktab` ({t: type name, s: ascii text}), sl / el: start / end line of each token,
            fol: token is the first on its physical line, ln: physical lines as ids into `ltab` ({b: blank or a lone `\\`?})};
           DEDENT tokens are dropped (zero-width, a function of the INDENT / line structure)
  c        token span of the container node (the node whose field is edited): {lo, hi (AST extent), hx (statement-like
           containers: through all directly following COMMENT / NL / NEWLINE tokens - the trailing trivia of a block's
           last statement lies there; other containers: through a directly following COMMENT)}
  kids     positioned direct children of the container in source order: {lo, hi (AST extent), hx (statement-like
           children: extent through the optional line comment and the NEWLINE that end the statement), r (rank of the
           child's field in the source order of the container's fields), blk (child is a block statement)}
  elems    extents {lo, hi, blk} of the elements of the edited (virtual) field in field order, expressions with their
           own grouping parentheses;  elemsOk = False when the elements have no extents of their own (identifier lists)
  r        source-order rank of the edited field
  own,uown indices of the own tokens of the container: tokens of the container (and of its trailing trivia) that lie in
           none of its children (separators, delimiters, keywords, block headers, layout) -- pre stream from the pre
           parse, post stream from the post parse (uoOk: the post parse has a node of the same kind at the same path)
  newc     COMMENT token ids of the code that was put (newk: ids of its other tokens), exact = the driver passed that code as source text
  stmt     the edited field holds statement-like elements (stmt / ExceptHandler / match_case)
  docstr   the docstr option value as text; ds1 / ds2: string tokens of expression statements in / not in a docstring
           position (pre stream)
  elifPre / elifPost   the If's orelse is a single `elif` (pre / post parse);  soleGen: call whose only argument is an
           unparenthesized generator expression;  tv: syntactic decomposition of the `trivia` option value
"""

from __future__ import annotations

import ast
import io
import keyword
import tokenize

STMTISH_FIELDS = {'body', 'orelse', 'finalbody', 'handlers', 'cases', '_body'}
BLOCK = (ast.FunctionDef, ast.AsyncFunctionDef, ast.ClassDef, ast.For, ast.AsyncFor, ast.While, ast.If, ast.With,
         ast.AsyncWith, ast.Try, getattr(ast, 'TryStar', ast.Try), ast.Match, ast.ExceptHandler, ast.match_case)
STMTLIKE = (ast.stmt, ast.ExceptHandler, ast.match_case, ast.Module)
SKIP_TYPES = (tokenize.NL, tokenize.NEWLINE, tokenize.COMMENT, tokenize.INDENT, tokenize.DEDENT, tokenize.ENDMARKER)

# source order of the fields of a node where it differs from `_fields`
SRC_ORDER = {
    'FunctionDef': ('decorator_list', 'name', 'type_params', 'args', 'returns', 'body'),
    'AsyncFunctionDef': ('decorator_list', 'name', 'type_params', 'args', 'returns', 'body'),
    'ClassDef': ('decorator_list', 'name', 'type_params', 'bases', 'keywords', 'body'),
    'IfExp': ('body', 'test', 'orelse'),
}
SAME_RANK = {('Dict', 'values'): 'keys', ('Call', 'keywords'): 'args', ('ClassDef', 'keywords'): 'bases',
             ('MatchMapping', 'patterns'): 'keys', ('MatchClass', 'kwd_patterns'): 'patterns',
             ('Compare', 'comparators'): 'ops'}
ARG_SUB = {'posonlyargs': 0, 'args': 1, 'defaults': 1, 'vararg': 2, 'kwonlyargs': 3, 'kw_defaults': 3, 'kwarg': 4}


class TokTables:
    """Batch-wide hash-consing of token (type, text) pairs and of physical lines."""

    def __init__(self):
        self._k, self.ktab = {}, []
        self._l, self.ltab = {}, []
        self._s, self.streams = {}, []

    def tok(self, typ: str, s: str) -> int:
        key = (typ, s)
        i = self._k.get(key)
        if i is None:
            self.ktab.append({'t': typ, 's': s.encode('ascii', 'backslashreplace').decode()})
            i = self._k[key] = len(self.ktab)
        return i

    def line(self, s: str) -> int:
        i = self._l.get(s)
        if i is None:
            # b: empty, or a lone line continuation (empty space as well); c: a lone line continuation
            self.ltab.append({'b': s.strip() in ('', '\\'), 'c': s.strip() == '\\'})
            i = self._l[s] = len(self.ltab)
        return i

    def stream(self, st) -> int:
        """1-based index of the stream record of a tokenized source text (one record per distinct text)."""
        i = self._s.get(st.src)
        if i is None:
            self.streams.append({'k': st.ids, 'sl': st.sl, 'el': st.el, 'fol': st.fol, 'ln': st.lineids})
            i = self._s[st.src] = len(self.streams)
        return i

    def dump(self):
        return {'ktab': self.ktab, 'ltab': self.ltab, 'streams': self.streams}


def tokenize_src(src):
    try:
        return list(tokenize.generate_tokens(io.StringIO(src).readline))
    except (tokenize.TokenError, IndentationError, SyntaxError):
        return None


class Stream:
    """Token stream of one source text with position lookups (ast byte columns -> tokenize character columns)."""

    def __init__(self, src, tt: TokTables):
        self.src = src
        self.lines = src.split('\n')
        self.toks = tokenize_src(src)
        self.ok = self.toks is not None
        if not self.ok:
            return
        # DEDENT tokens are zero-width and carry no text: they are a function of the INDENT / line structure that the
        # line clauses see, and appear or vanish *after* a block that changes between one-line and indented form
        self.toks = [t for t in self.toks if t.type != tokenize.DEDENT]
        # (the NEWLINE that tokenize synthesises at an end of file without line terminator has the text '')
        self.ids = [tt.tok(tokenize.tok_name[t.type], '\n' if t.type in (tokenize.NEWLINE, tokenize.NL) else t.string)
                    for t in self.toks]
        self.sl = [t.start[0] for t in self.toks]
        self.el = [t.start[0] + t.string.count('\n') if t.type not in (tokenize.NEWLINE, tokenize.NL) else t.start[0]
                   for t in self.toks]
        self.fol = [int(not self._line(t.start[0])[:t.start[1]].strip()) for t in self.toks]
        self.by_start, self.by_end = {}, {}
        for i, t in enumerate(self.toks, 1):
            if t.type in SKIP_TYPES:
                continue
            self.by_start.setdefault(t.start, i)
            # end recomputed from the token text: CPython 3.12.1's tokenize reports a wrong end column for multi-line
            # tokens when an earlier line of the token holds non-ASCII characters
            k = t.string.count('\n')
            end = (t.start[0] + k, len(t.string.rsplit('\n', 1)[1])) if k else (t.start[0], t.start[1] + len(t.string))
            self.by_end[end] = i
        self.lineids = [tt.line(s) for s in self.lines]

    def _line(self, ln):
        return self.lines[ln - 1] if 0 < ln <= len(self.lines) else ''

    def _ccol(self, ln, bcol):
        s = self._line(ln)
        if s.isascii():
            return bcol
        return len(s.encode('utf-8')[:bcol].decode('utf-8', 'replace'))

    def span(self, node):
        """(lo, hi) token indices of a positioned AST node, or None."""
        if not hasattr(node, 'lineno') or node.lineno is None or getattr(node, 'end_lineno', None) is None:
            return None
        lo = self.by_start.get((node.lineno, self._ccol(node.lineno, node.col_offset)))
        hi = self.by_end.get((node.end_lineno, self._ccol(node.end_lineno, node.end_col_offset)))
        if lo is None or hi is None or hi < lo:
            return None
        decos = getattr(node, 'decorator_list', None)
        if decos:
            d = self.span(decos[0])
            if d is None:
                return None
            j = d[0] - 1
            while j >= 1 and self.toks[j - 1].string != '@':
                j -= 1
            if j < 1:
                return None
            lo = j
        return lo, hi

    def back_to(self, i, words):
        """Index of the nearest token at or before i whose text is in `words` (0 if none)."""
        while i >= 1 and self.toks[i - 1].string not in words:
            i -= 1
        return i

    def ext_trivia(self, hi):
        """Extent through all directly following COMMENT / NL / NEWLINE tokens."""
        n = len(self.toks)
        while hi < n and self.toks[hi].type in (tokenize.COMMENT, tokenize.NL, tokenize.NEWLINE):
            hi += 1
        return hi

    def ext_comment(self, hi):
        """Extent through a directly following COMMENT token."""
        return hi + 1 if hi < len(self.toks) and self.toks[hi].type == tokenize.COMMENT else hi

    def ext_pars(self, lo, hi):
        """Extent over directly enclosing balanced *grouping* parentheses (comments and line breaks inside them
        included).  An opening parenthesis that directly follows an identifier, a literal or a closing bracket is a
        call / class / def parenthesis and never a grouping one."""
        n = len(self.toks)
        skip = (tokenize.NL, tokenize.COMMENT)
        while True:
            a, b = lo - 1, hi + 1  # 1-based candidates
            while a >= 1 and self.toks[a - 1].type in skip:
                a -= 1
            while b <= n and self.toks[b - 1].type in skip:
                b += 1
            if a < 1 or b > n or self.toks[a - 1].string != '(' or self.toks[b - 1].string != ')' or \
                    self.toks[a - 1].type != tokenize.OP:
                return lo, hi
            if a > 1:
                p = self.toks[a - 2]
                if (p.type == tokenize.NAME and not keyword.iskeyword(p.string)) or p.string in (')', ']', '}') or \
                        p.type in (tokenize.STRING, tokenize.NUMBER, getattr(tokenize, 'FSTRING_END', -1)):
                    return lo, hi
            lo, hi = a, b

    def ext_stmt(self, hi):
        """Extent of a statement through its optional line comment and NEWLINE (unchanged when `;` follows)."""
        j = hi  # 0-based index of the token after hi
        n = len(self.toks)
        if j < n and self.toks[j].type == tokenize.COMMENT:
            j += 1
        if j < n and self.toks[j].type == tokenize.NEWLINE:
            return j + 1
        return hi


def _children(node):
    """Direct children (field, index, node) with `arguments` flattened into its members."""
    for f in node._fields:
        v = getattr(node, f, None)
        if isinstance(v, ast.arguments):
            for f2 in v._fields:
                w = getattr(v, f2, None)
                for k, e in enumerate(w if isinstance(w, list) else [w]):
                    if isinstance(e, ast.AST):
                        yield 'args.' + f2, k, e
        elif isinstance(v, ast.AST):
            yield f, None, v
        elif isinstance(v, list):
            for k, e in enumerate(v):
                if isinstance(e, ast.AST):
                    yield f, k, e


def node_span(st: Stream, node):
    """Token extent of any AST node; position-less nodes (withitem, comprehension, match_case, arguments) get the hull
    of their children extended back to their introducing keyword."""
    sp = st.span(node)
    if sp is not None or hasattr(node, 'lineno'):
        return sp
    spans = [st.ext_pars(*s) for s in (node_span(st, c) for _, _, c in _children(node)) if s]
    if not spans:
        return None
    lo, hi = min(s[0] for s in spans), max(s[1] for s in spans)
    if isinstance(node, ast.match_case):
        lo = st.back_to(lo, ('case',)) or lo
    elif isinstance(node, ast.comprehension):
        lo = st.back_to(lo, ('for',)) or lo
        if node.is_async and lo > 1 and st.toks[lo - 2].string == 'async':
            lo -= 1
    return lo, hi


def field_rank(kind, field):
    order = SRC_ORDER.get(kind) or getattr(ast, kind)._fields
    sub = 0
    if field.startswith('args.'):
        sub = ARG_SUB.get(field[5:], 0)
        field = 'args'
    field = SAME_RANK.get((kind, field), field)
    try:
        return order.index(field) * 10 + sub
    except ValueError:
        return 0


def node_at(tree, path):
    n = tree
    for f, i in path:
        n = getattr(n, f)
        if i is not None:
            n = n[i]
    return n


def container_facts(st: Stream, tree, path):
    """(container node, (lo, hi), kids, own flags) from a parse tree and the path of the container."""
    node = node_at(tree, path)
    host = node
    hpath = list(path)
    while isinstance(host, ast.arguments) and hpath:  # arguments has no extent: its function / lambda is the container
        hpath = hpath[:-1]
        host = node_at(tree, hpath)
    if isinstance(host, ast.Module):
        n = len(st.toks)
        span = (1, n - 1)  # everything but ENDMARKER (empty when the file holds no other token)
    else:
        span = node_span(st, host)
    if span is None:
        return None
    kids = []
    for f, k, c in _children(host):
        if isinstance(c, (ast.expr_context, ast.operator, ast.boolop, ast.unaryop, ast.cmpop)):
            continue
        sp = node_span(st, c)
        if sp is None:
            continue
        stmtish = isinstance(c, (ast.stmt, ast.ExceptHandler, ast.match_case))
        kids.append({'lo': sp[0], 'hi': sp[1], 'hx': st.ext_stmt(sp[1]) if stmtish else sp[1],
                     'r': field_rank(type(host).__name__, f), 'blk': isinstance(c, BLOCK)})
    kids.sort(key=lambda d: (d['lo'], d['hi']))
    own = [0] * len(st.toks)
    for i in range(span[0], max(st.ext_trivia(span[1]), st.ext_comment(span[1])) + 1):  # trailing trivia is nobody else's
        own[i - 1] = 1
    for d in kids:
        for i in range(d['lo'], d['hi'] + 1):
            own[i - 1] = 0
    return node, host, span, kids, own


def elem_spans(st: Stream, node, field):
    """Extents of the elements of the (virtual) field in field order; None when elements have no extent."""
    sole = sole_genexp(st, node)
    if field == '_body':
        vals = node.body
    elif field in ('_args', '_bases'):
        vals = sorted((node.args if isinstance(node, ast.Call) else node.bases) + node.keywords,
                      key=lambda x: (x.lineno, x.col_offset))
    elif field == '_all' and isinstance(node, ast.arguments):
        # parameters in source order, each with its star and its default: posonlyargs, args, *vararg, kwonlyargs, **kwarg
        pos = node.posonlyargs + node.args
        dflt = [None] * (len(pos) - len(node.defaults)) + list(node.defaults)
        pairs = list(zip(pos, dflt)) + ([(node.vararg, None)] if node.vararg else []) + \
            list(zip(node.kwonlyargs, node.kw_defaults)) + ([(node.kwarg, None)] if node.kwarg else [])
        out = []
        for a, d in pairs:
            sa = node_span(st, a)
            sd = st.ext_pars(*node_span(st, d)) if d is not None and node_span(st, d) else None
            if sa is None:
                return None
            lo = sa[0] - 1 if sa[0] > 1 and st.toks[sa[0] - 2].string in ('*', '**') else sa[0]
            out.append({'lo': lo, 'hi': sd[1] if sd else sa[1], 'blk': False})
        return out
    elif field == '_all' and isinstance(node, ast.Compare):
        vals = [node.left] + node.comparators
    elif field == '_all' and isinstance(node, ast.Dict):
        out = []
        for k, v in zip(node.keys, node.values):
            sv = node_span(st, v)
            if sv is None:
                return None
            if k is None:
                lo = st.back_to(sv[0], ('**',))
                if not lo:
                    return None
                out.append({'lo': lo, 'hi': st.ext_pars(*sv)[1], 'blk': False})
            else:
                sk = node_span(st, k)
                if sk is None:
                    return None
                out.append({'lo': st.ext_pars(*sk)[0], 'hi': st.ext_pars(*sv)[1], 'blk': False})
        return out
    else:
        vals = getattr(node, field, None)
    if vals is None:
        return []
    if not isinstance(vals, list):
        vals = [vals]
    out = []
    for v in vals:
        if not isinstance(v, ast.AST):
            return None
        sp = node_span(st, v)
        if sp is None:
            return None
        if isinstance(v, ast.expr) and not sole:
            sp = st.ext_pars(*sp)  # the element's own grouping parentheses
        if isinstance(node, ast.comprehension) and field == 'ifs':
            j = st.back_to(sp[0] - 1, ('if',))  # `if cond`: the keyword belongs to the element
            if j and all(t.string == '(' for t in st.toks[j:sp[0] - 1]):
                sp = (j, sp[1])
        if isinstance(node, ast.arguments) and field in ('vararg', 'kwarg') and sp[0] > 1 and \
                st.toks[sp[0] - 2].string in ('*', '**'):
            sp = (sp[0] - 1, sp[1])  # `*args` / `**kw`: the star belongs to the element
        out.append({'lo': sp[0], 'hi': sp[1], 'blk': isinstance(v, BLOCK)})
    return out


def expr_strings(st: Stream, tree):
    """Token indices of the string tokens of expression statements: (in a docstring position - first statement of a
    module / def / class body -, elsewhere).  What the docstr option may re-indent is written in terms of these."""
    first = {id(n.body[0]) for n in ast.walk(tree)
             if isinstance(n, (ast.Module, ast.FunctionDef, ast.AsyncFunctionDef, ast.ClassDef)) and n.body}
    ds1, ds2 = [], []
    for n in ast.walk(tree):
        if isinstance(n, ast.Expr) and isinstance(n.value, ast.Constant) and isinstance(n.value.value, str):
            sp = st.span(n.value)
            if sp is not None:
                (ds1 if id(n) in first else ds2).extend(
                    i for i in range(sp[0], sp[1] + 1) if st.toks[i - 1].type == tokenize.STRING)
    return sorted(ds1), sorted(ds2)


def elif_form(st: Stream, node) -> bool:
    """The `orelse` of this If is a single If written as `elif`."""
    if not isinstance(node, ast.If) or len(node.orelse) != 1 or not isinstance(node.orelse[0], ast.If):
        return False
    sp = st.span(node.orelse[0])
    return sp is not None and st.toks[sp[0] - 1].string == 'elif'


def sole_genexp(st: Stream, node) -> bool:
    """A call whose only argument is a generator expression written without parentheses of its own: CPython gives the
    argument the extent of the call's parentheses."""
    if not isinstance(node, ast.Call) or len(node.args) != 1 or node.keywords or \
            not isinstance(node.args[0], ast.GeneratorExp):
        return False
    sg, sf = st.span(node.args[0]), node_span(st, node.func)
    return sg is not None and sf is not None and sg[0] == st.ext_pars(*sf)[1] + 1 and \
        st.toks[sg[0]].string != '('


def _tv_part(v):
    """Syntactic decomposition of one component of the `trivia` option (no interpretation)."""
    if isinstance(v, bool):
        return {'k': 'bool', 'b': v, 'w': '', 'sg': '', 'hasn': False, 'n': 0}
    if isinstance(v, int):
        return {'k': 'int', 'b': False, 'w': '', 'sg': '', 'hasn': True, 'n': v}
    w, sg, num = v, '', ''
    for c in '+-':
        i = v.find(c)
        if i != -1:
            w, sg, num = v[:i], c, v[i + 1:]
            break
    return {'k': 'str', 'b': False, 'w': w, 'sg': sg, 'hasn': num != '', 'n': int(num) if num else 0}


def trivia_json(tv):
    """n = -1: scalar value in a[0]; n = 0, 1, 2: tuple of that length in a."""
    if isinstance(tv, tuple):
        return {'n': len(tv), 'a': [_tv_part(x) for x in tv]}
    return {'n': -1, 'a': [_tv_part(tv)]}


def code_tokens(tt: TokTables, srcs, elems=None):
    """(COMMENT ids, ids of all other non-layout tokens) of the new code; the code may be passed as a pure AST, so the
    tokens of CPython's own rendering (`ast.unparse`) of each element count as tokens of the new code as well."""
    com, oth = [], set()
    rendered = []
    for el in elems or ():
        for node in el:
            if isinstance(node, ast.AST):
                try:
                    rendered.append(ast.unparse(node))
                except Exception:  # noqa: BLE001
                    pass
    for s in rendered:
        toks = tokenize_src(s) or tokenize_src('(' + s + ')') or []
        oth |= {tt.tok(tokenize.tok_name[t.type], t.string) for t in toks if t.type not in SKIP_TYPES}
    for s in srcs:
        toks = tokenize_src(s)
        if toks is None:
            # fragments such as `*st` or `case 1: pass` may not tokenize stand-alone only when brackets are unbalanced
            toks = tokenize_src('(' + s + ')') or []
        com += [tt.tok('COMMENT', t.string) for t in toks if t.type == tokenize.COMMENT]
        oth |= {tt.tok(tokenize.tok_name[t.type], t.string) for t in toks if t.type not in SKIP_TYPES}
    return com, sorted(oth)


def record(tt: TokTables, plan, pre_src: str, post_src: str, new_elems=None) -> dict:
    """Token facts of one executed edit (see module docstring)."""
    bad = {'ok': False}
    pre = Stream(pre_src, tt)
    post = Stream(post_src, tt)
    if not pre.ok or not post.ok:
        return bad
    try:
        tree = ast.parse(pre_src)
    except (SyntaxError, ValueError):
        return bad
    try:
        cf = container_facts(pre, tree, plan.path)
    except (AttributeError, IndexError):
        cf = None
    if cf is None:
        return bad
    node, host, span, kids, own = cf
    field = plan.field
    elems = elem_spans(pre, node, field)
    rank = field_rank(type(host).__name__, ('args.' + field) if isinstance(node, ast.arguments) else
                      {'_body': 'body', '_args': 'args', '_bases': 'bases'}.get(
                          field, ('left' if isinstance(node, ast.Compare) else 'keys') if field == '_all' else field))
    newc, newk = code_tokens(tt, plan.srcs, new_elems)
    ds = expr_strings(pre, tree)
    uo, uo_ok = [0] * len(post.toks), False
    try:
        ptree = ast.parse(post_src)
        pcf = container_facts(post, ptree, plan.path)
        if pcf is not None and type(pcf[1]) is type(host):
            uo, uo_ok = pcf[4], True
    except (SyntaxError, ValueError, AttributeError, IndexError, TypeError):
        pass
    return {
        'ok': True,
        'pre': tt.stream(pre), 'post': tt.stream(post),
        'own': [i + 1 for i, f in enumerate(own) if f], 'uown': [i + 1 for i, f in enumerate(uo) if f], 'uoOk': uo_ok,
        'c': {'lo': span[0], 'hi': span[1],
              'hx': pre.ext_trivia(span[1]) if isinstance(host, STMTLIKE) else pre.ext_comment(span[1])},
        'elifPre': elif_form(pre, host), 'elifPost': uo_ok and elif_form(post, pcf[1]),
        'tv': trivia_json(plan.opts.get('trivia', True)),
        'docstr': str(plan.opts.get('docstr', True)), 'ds1': ds[0], 'ds2': ds[1],
        'soleGen': sole_genexp(pre, host),
        'kids': kids, 'elems': elems if elems is not None else [], 'elemsOk': elems is not None, 'r': rank,
        'hostKind': type(host).__name__,
        'newc': newc, 'newk': newk, 'exact': plan.codeform == 'src',
        'stmt': field in STMTISH_FIELDS and not isinstance(node, (ast.IfExp, ast.Lambda, ast.Expression)),
    }


EMPTY = {'ok': False, 'pre': 0, 'post': 0, 'own': [], 'uown': [], 'uoOk': False,
         'c': {'lo': 0, 'hi': 0, 'hx': 0}, 'elifPre': False, 'elifPost': False, 'soleGen': False,
         'tv': {'n': -1, 'a': []}, 'docstr': 'True', 'ds1': [], 'ds2': [], 'kids': [], 'elems': [], 'elemsOk': False, 'r': 0, 'hostKind': '', 'newc': [], 'newk': [],
         'exact': False, 'stmt': False}


TRIVIA_POOL = [True, False, 'all', 'block', 'none', 'all-', 'block+1', '+2', '-1', (), ('all',), ('block',), ('none',),
               ('line',), (False, False), ('all', 'all'), ('block', 'block'), ('none', 'line+1'), ('all-1', 'all+'),
               ('none', 'block'), ('all', False), (True, 'all-1'), ('block', 'none'), (True, False), ('all', 'none'),
               ('block-1', False), ('+1', 'none')]


SPACE_SUFFIXES = ('', '', '+1', '+2', '+3', '-1', '-2', '-3', '+', '-')


def _target_lines(root, plan):
    """0-based first / last line of the targeted element (or of its container), from the live tree's own positions -
    only used to pick option values."""
    try:
        node = node_at(root.a, plan.path)
        vals = getattr(node, {'_body': 'body', '_args': 'args', '_bases': 'bases'}.get(plan.field, plan.field), None)
        i = plan.idx if isinstance(plan.idx, int) else plan.start if isinstance(plan.start, int) else None
        if isinstance(vals, list) and i is not None and -len(vals) <= i < len(vals) and hasattr(vals[i], 'lineno'):
            node = vals[i]
        elif isinstance(vals, ast.AST) and hasattr(vals, 'lineno'):
            node = vals
        return node.lineno - 1, node.end_lineno - 1
    except (AttributeError, IndexError, TypeError):
        return 0, max(0, len(root.lines) - 1)


def make_hooks(tt: TokTables):
    """hooks for harness.histories.run_history: attach `tk` to every event (complete facts only for successful edits)."""

    def post(root, plan, o, ev, pre_src):
        tk = dict(EMPTY)
        if ev['outcome'] == 'ok':
            try:
                tk = dict(EMPTY, **record(tt, plan, pre_src, root.src, getattr(o, 'elems', None)))
            except RecursionError:
                pass
        ev['tk'] = tk

    def pre(root, plan, o, rng):
        if not plan.corrupt and 'docstr' not in plan.opts and rng.random() < 0.12:
            plan.opts = dict(plan.opts, docstr=rng.choice((False, 'strict')))  # (the driver's pool has them in 2 of 20)
        # widen the driver's option pool: every documented form of the `trivia` option, line numbers included (chosen
        # around the lines of the targeted element so that they matter)
        if not plan.corrupt and rng.random() < 0.45:
            a, b = _target_lines(root, plan)
            lead, trail = rng.randint(a - 4, a + 1), rng.randint(b - 2, b + 4)
            pool = TRIVIA_POOL + [lead, (lead, trail), ('block', trail), (lead, 'line'), (lead, 'all'), (lead, 'none'),
                                  (lead, trail), ('all', trail)]
            if rng.random() < 0.5:
                plan.opts = dict(plan.opts, trivia=rng.choice(pool))
            else:  # composed: word x space count ('+N' / '-N', N in 1..3, '+' / '-' = all) for both parts
                def part(words):
                    w = rng.choice(words)
                    return w + rng.choice(SPACE_SUFFIXES) if isinstance(w, str) else w
                plan.opts = dict(plan.opts, trivia=(part(('none', 'block', 'all', '', False, True)),
                                                    part(('none', 'line', 'block', 'all', '', False, True))))

    return {'pre': pre, 'post': post}
