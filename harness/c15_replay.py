"""C15 direction G: behaviours of the model spec/WalkGen.tla (TLC: exhaustive enumeration for small bounds, -simulate
beyond) concretised on real nested-list expressions and nested `if` blocks, replayed into pfst with the model's consumer
script, the model's yield sequence compared with the real one (a difference is a MODEL-DIVERGENCE, never a verdict);
every real run is recorded for validation by WalkAccept.tla."""

from __future__ import annotations

import ast
import json
import os
import re

from harness import c15_walk as cw
from harness import tlc

GEN_CFG = '''SPECIFICATION SpecG
CHECK_DEADLOCK FALSE
CONSTANTS
  N = {N}
  MaxMut = {MaxMut}
  MaxPark = {MaxPark}
  MaxSend = {MaxSend}
  Ons = {{"enter", "leave", "both"}}
  Backs = {{FALSE, TRUE}}
  Recs = {{TRUE, FALSE}}
  Selfs = {{TRUE, FALSE}}
  Shapes = {{{Shapes}}}
  WRemovable = TRUE
  Logging = TRUE
INVARIANT YieldedAlive
INVARIANT YieldedInTree
INVARIANT NoDoubleEnter
INVARIANT RemovedContinues
INVARIANT ReplacedChildrenNext
INVARIANT SendTrueHonoured
INVARIANT SendFalseHonoured
INVARIANT EmitLog
'''


def behaviours(params: dict, simulate: int = 0, seed: int = 0, depth: int = 200, workers: int = 4, timeout=1200):
    """Run TLC on WalkGen with Logging; returns (list of {'cfg', 'log'}, stats)."""
    d = tlc.scratch()
    name = f'WalkGenGen_{os.getpid()}_{params["N"]}_{params["MaxMut"]}_{simulate}'
    cfgp = os.path.join(d, name + '.cfg')   # scratch directory, removed by tlc.cleanup()
    with open(cfgp, 'w') as f:
        f.write(GEN_CFG.format(**params))
    try:
        extra = []
        if simulate:
            extra = ['-simulate', f'num={simulate}', '-depth', str(depth), '-seed', str(seed)]
        r = tlc.run_model('WalkGen', cfgp, workers=workers, timeout=timeout, extra=extra, heap='1g')
    finally:
        if os.path.exists(cfgp):
            os.unlink(cfgp)
    if r['violated']:
        raise tlc.TLCError(f'WalkGen generation run violated {r["violated"]}')
    out = []
    seen = set()
    for line in r['out'].splitlines():
        if line.startswith('"BEHAVIOUR '):
            try:
                s = json.loads(line)
            except ValueError:
                continue
            if s in seen:
                continue
            seen.add(s)
            out.append(json.loads(s[len('BEHAVIOUR '):]))
    return out, r


# ----------------------------------------------------------------------------------------------------------------------

def _children(p, n):
    ch = {i: [] for i in range(1, n + 1)}
    for i in range(2, n + 1):
        ch[p[i - 1]].append(i)
    return ch


def list_src(p, n):
    ch = _children(p, n)

    def rec(i):
        return '[' + ', '.join(rec(c) for c in ch[i]) + ']' if ch[i] else f'n{i}'
    return f'[w_pre, {rec(1)}, w_post]\n', [('body', 0), ('value', None), ('elts', 1)], None


def if_src(p, n):
    ch = _children(p, n)

    def rec(i, ind):
        if not ch[i]:
            return [ind + 'pass']
        out = [f'{ind}if c{i}:']
        for c in ch[i]:
            out += rec(c, ind + '    ')
        return out
    body = rec(1, '    ')
    return 'if w_pre:\n    pass\n' + '\n'.join(body) + '\n    pass\n', [('body', 0), ('body', 1)], (ast.If, ast.Pass)


LIST_SHAPES = {1: 'm{k}', 2: '[m{k}a]', 3: '[m{k}a, m{k}b]', 4: '[[m{k}a]]'}
IF_SHAPES = {1: 'pass', 2: 'if m{k}:\n    pass', 3: 'if m{k}:\n    pass\n    pass', 4: 'if m{k}:\n    if m{k}b:\n        pass'}


class ModelConsumer:
    def __init__(self, beh, mode):
        self.mode = mode
        self.parks = []  # per model yield: list of actions
        self.myields = []
        cur = None
        for r in beh['log'][1:]:
            if r['k'] == 'Y':
                self.myields.append((r['f'], bool(r['lv'])))
                cur = []
                self.parks.append(cur)
            elif r['k'] in ('M', 'S') and cur is not None:
                cur.append(r)
        self.map = {}  # model FST id -> real FST object
        self.nF = beh['log'][0]['n']
        self.k = 0
        self.nk = 0
        self.diverged = []
        self.ryields = []

    def bind_initial(self, w):
        i = 0
        for n, _ in w.nodes[0]:
            if cw.eligible(n, w.types):
                i += 1
                self.map[i] = n.f

    def rid(self, g):
        for k, v in self.map.items():
            if v is g:
                return k
        return -1

    def park(self, w, g, lv, can_send=True):
        self.ryields.append((self.rid(g), bool(lv)))
        k = self.k
        self.k += 1
        if k >= len(self.parks):
            return
        for act in self.parks[k]:
            if act['k'] == 'S':
                w.on_send(act['v'])
                yield ('send', bool(act['v']))
                continue
            tgt = self.map.get(act['f'])
            if tgt is None or tgt.a is None:
                self.diverged.append('target-dead')
                continue
            rel = w.relation(g.a, tgt.a) if g is not None and g.a is not None else 'other'
            if act['op'] == 'remove':
                w.mutate('remove', tgt.a, None, rel)
                continue
            self.nk += 1
            code = (LIST_SHAPES if self.mode == 'list' else IF_SHAPES)[act['sh']].replace('{k}', str(self.nk))
            ok = w.mutate('replace' if act['keep'] else 'slice', tgt.a, code, rel)
            if not ok:
                self.diverged.append('not-requested')
                continue
            ev = w.steps[-1]
            new = w.ser.obj(ev['ns']) if ev['ns'] else None
            kept = ev['ns'] == ev['s']
            if kept != bool(act['keep']):
                self.diverged.append('keep-mismatch')
            ids = []
            if new is not None and new.a is not None:
                ids = [n.f for n, _ in cw.preorder(new.a) if cw.eligible(n, w.types)]
            if act['keep']:
                fresh = ids[1:]
            else:
                fresh = ids
            for f in fresh:
                self.nF += 1
                self.map[self.nF] = f


def replay(tid, beh, mode):
    """-> (Walk | None, info)"""
    rec0 = beh['log'][0]
    n, p = rec0['n'], rec0['p']
    src, wpath, types = (list_src if mode == 'list' else if_src)(p, n)
    c = beh['cfg']
    cfg = {'on': c['on'], 'back': bool(c['back']), 'recurse': bool(c['recurse']), 'self': bool(c['self']), 'scope': False}
    w = cw.Walk(tid, src, wpath, cfg, types, api='walk', allform='default' if types is None else 'types')
    cons = ModelConsumer(beh, mode)
    cons.bind_initial(w)
    cw.drive_walk(w, cons)
    info = {'mode': mode, 'aborted': w.aborted, 'diverged': list(cons.diverged)}
    if w.aborted:
        return None, info
    if cons.ryields != cons.myields and not w.aborted:
        info['diverged'].append('yields')
        info['model'] = cons.myields
        info['real'] = cons.ryields
    info['clauses'] = sorted({r['c'] for r in beh['log'] if r['k'] == 'R' and r['c']})
    return w, info
