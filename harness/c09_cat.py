"""C09 catalogue: concrete renderings of the slots and child kinds of spec/Prec.tla.

Only *renders* and *observes* (standard library: ast, tokenize).  What needs parentheses is decided by the TLA+ specification;
nothing here encodes a precedence.  The ids must cover exactly the table emitted by TLC from PrecMC (checked by the caller).
"""

from __future__ import annotations

import ast
import io
import tokenize

HOLE = 'HOLE'

# ----------------------------------------------------------------------------------------------------------------------
# slots: id -> statement template with {H} where the operand goes.  'expr' marks templates of the form `v = <E>` whose
# parent expression may additionally be wrapped in parentheses over several lines (layouts encl / enclc).

BINOPS = {'Add': '+', 'Sub': '-', 'Mult': '*', 'MatMult': '@', 'Div': '/', 'Mod': '%', 'FloorDiv': '//', 'LShift': '<<',
          'RShift': '>>', 'BitOr': '|', 'BitXor': '^', 'BitAnd': '&', 'Pow': '**'}

E = {}  # expression-level slots: id -> expression text
for _n, _o in BINOPS.items():
    E[f'BinOp.{_n}.left'] = '{H} %s rr' % _o
    E[f'BinOp.{_n}.right'] = 'll %s {H}' % _o
E.update({
    'BoolOp.And.first': '{H} and bb', 'BoolOp.And.mid': 'aa and {H} and cc', 'BoolOp.And.last': 'aa and {H}',
    'BoolOp.Or.first': '{H} or bb', 'BoolOp.Or.mid': 'aa or {H} or cc', 'BoolOp.Or.last': 'aa or {H}',
    'UnaryOp.Not.operand': 'not {H}', 'UnaryOp.USub.operand': '-{H}', 'UnaryOp.UAdd.operand': '+{H}',
    'UnaryOp.Invert.operand': '~{H}',
    'NamedExpr.value': '(nn := {H})',
    'Lambda.body': 'lambda: {H}', 'Lambda.default': 'lambda pp={H}: pp',
    'IfExp.body': '{H} if tt else ee', 'IfExp.test': 'bb if {H} else ee', 'IfExp.orelse': 'bb if tt else {H}',
    'Dict.keys': '{{{H}: vv}}', 'Dict.values': '{{kk: {H}}}', 'Dict.values.unpack': '{{**{H}}}',
    'Dict.values.unpack2': '{{kk: vv, **{H}, k2: v2}}',
    'Set.elts': '{{{H}, bb}}', 'List.elts': '[{H}, bb]', 'List.elts.last': '[aa, {H}]', 'Tuple.elts.par': '({H}, bb)',
    'ListComp.elt': '[{H} for ii in jj]', 'SetComp.elt': '{{{H} for ii in jj}}',
    'GeneratorExp.elt': '({H} for ii in jj)', 'DictComp.key': '{{{H}: vv for ii in jj}}',
    'DictComp.value': '{{kk: {H} for ii in jj}}',
    'comprehension.iter': '[ee for ii in {H}]', 'comprehension.iter.second': '[ee for ii in jj for kk in {H} if cc]',
    'comprehension.iter.gen': '(ee for ii in {H})', 'comprehension.iter.dict': '{{kk: vv for ii in {H} if cc}}',
    'comprehension.ifs': '[ee for ii in jj if {H}]', 'comprehension.ifs.second': '[ee for ii in jj if cc if {H}]',
    'comprehension.target': '[ee for {H} in jj]',
    'Await.value': 'await {H}', 'Yield.value': '(yield {H})', 'YieldFrom.value': '(yield from {H})',
    'Compare.left': '{H} < rr', 'Compare.comparators.last': 'll < {H}', 'Compare.comparators.mid': 'll < {H} <= rr',
    'Compare.in.right': 'll not in {H}', 'Compare.isnot.left': '{H} is not rr',
    'Call.func': '{H}(aa)', 'Call.args': 'ff({H}, bb)', 'Call.args.only': 'ff({H})',
    'keyword.value': 'ff(aa, kw={H})', 'keyword.value.unpack': 'ff(aa, **{H})',
    'Starred.value.call': 'ff(*{H})', 'Starred.value.list': '[*{H}, bb]',
    'Attribute.value': '{H}.attr', 'Subscript.value': '{H}[ii]', 'Subscript.slice': 'aa[{H}]',
    'Subscript.slice.elt': 'aa[{H}, bb]',
    'Slice.lower': 'aa[{H}:]', 'Slice.upper': 'aa[:{H}]', 'Slice.step': 'aa[lo:hi:{H}]',
    'NamedExpr.target': '({H} := vv)',
    # f-strings (3.12 / PEP 701)
    'FormattedValue.value': 'f"{{{H}}}"', 'FormattedValue.value.squote': "f'{{{H}}}'",
    'FormattedValue.value.triple': "f'''{{{H}}}'''", 'FormattedValue.value.mid': 'f"aa{{{H}}}bb"',
    'FormattedValue.value.second': 'f"{{aa}}{{{H}}}"', 'FormattedValue.value.conv': 'f"{{{H}!r}}"',
    'FormattedValue.value.spec': 'f"{{{H}:>10}}"', 'FormattedValue.value.convspec': 'f"{{{H}!s:>{{ww}}}}"',
    'FormattedValue.value.debug': 'f"{{{H} = }}"', 'FormattedValue.value.debug.conv': 'f"{{{H}=!s:>5}}"',
    'FormattedValue.value.debug.mid': 'f"aa {{{H}=}} bb"',
    'IfExp.orelse.infstring': 'f"{{bb if tt else {H}}}"', 'Tuple.elts.infstring': 'f"{{aa, {H}}}"',
    'format_spec.field': 'f"{{xx:{{{H}}}}}"', 'format_spec.field.mid': 'f"{{xx:>{{{H}}}.{{ww}}}}"',
})

S = {  # statement-level slots: id -> source
    'Call.args.sologen': 'ff({H})',          # old operand is a generator expression sharing the call's parentheses
    'Tuple.elts.bare': 'vv = {H}, bb', 'Tuple.elts.bare.last': 'aa, {H}', 'Starred.value.tuple': 'vv = *{H}, bb',
    'Expr.value': '{H}', 'Assign.value': 'vv = {H}', 'AugAssign.value': 'vv += {H}',
    'AnnAssign.value': 'vv: int = {H}', 'AnnAssign.annotation': 'vv: {H} = 1',
    'Return.value': 'return {H}', 'For.iter': 'for ii in {H}: pass',
    'While.test': 'while {H}: pass', 'If.test': 'if {H}: pass', 'If.elif.test': 'if aa: pass\nelif {H}: pass',
    'withitem.context_expr': 'with {H}: pass', 'withitem.context_expr.as': 'with aa as bb, {H} as ww: pass',
    'Raise.exc': 'raise {H}', 'Raise.exc.from': 'raise {H} from cc', 'Raise.cause': 'raise ee from {H}',
    'Assert.test': 'assert {H}', 'Assert.test.msg': 'assert {H}, mm', 'Assert.msg': 'assert tt, {H}',
    'Match.subject': 'match {H}:\n    case _: pass', 'match_case.guard': 'match ss:\n    case _ if {H}: pass',
    'decorator_list': '@{H}\ndef ff(): pass', 'FunctionDef.returns': 'def ff() -> {H}: pass',
    'arg.annotation': 'def ff(aa: {H}): pass', 'arguments.defaults': 'def ff(aa={H}, bb=1): pass',
    'arguments.kw_defaults': 'def ff(*, aa={H}): pass',
    'ClassDef.bases': 'class CC({H}, bb): pass', 'ClassDef.keywords.value': 'class CC(aa, kw={H}): pass',
    'ExceptHandler.type': 'try: pass\nexcept {H}: pass', 'TypeAlias.value': 'type TT = {H}',
    # targets
    'Assign.targets': '{H} = vv', 'Assign.targets.second': 'uu = {H} = vv', 'For.target': 'for {H} in jj: pass',
    'withitem.optional_vars': 'with cc as {H}: pass', 'Delete.targets': 'del {H}, bb',
    'AugAssign.target': '{H} += vv', 'Tuple.elts.store': '{H}, bb = cc', 'List.elts.store': '[aa, {H}] = cc',
    'Starred.value.store': '*{H}, bb = cc',
    'AnnAssign.target': '{H}: int = vv', 'AnnAssign.target.noval': '{H}: int',
    'Attribute.value.ann': '{H}.attr: int = vv', 'Subscript.value.ann': '{H}[ii]: int = vv',
    # literal patterns: the operand replaced is the literal `0` (a name would be a capture), see OLD / PATH
    'MatchValue.value': 'match ss:\n    case {H}: pass', 'MatchValue.value.inor': 'match ss:\n    case {H} | 1: pass',
    'MatchValue.value.inseq': 'match ss:\n    case [pp, {H}]: pass',
    'MatchMapping.keys': 'match ss:\n    case {{{H}: pp, 1: qq}}: pass',
    'MatchMapping.keys.second': 'match ss:\n    case {{1: pp, {H}: qq}}: pass',
    # patterns
    'match_case.pattern': 'match ss:\n    case {H}: pass',
    'MatchAs.pattern': 'match ss:\n    case {H} as nn: pass',
    'MatchOr.patterns.first': 'match ss:\n    case {H} | qq: pass',
    'MatchOr.patterns.last': 'match ss:\n    case 1 | {H}: pass',
    'MatchSequence.patterns.br': 'match ss:\n    case [{H}, qq]: pass',
    'MatchSequence.patterns.par': 'match ss:\n    case (pp, {H}): pass',
    'MatchSequence.patterns.open': 'match ss:\n    case {H}, qq: pass',
    'MatchMapping.patterns': 'match ss:\n    case {{1: {H}, 2: qq}}: pass',
    'MatchClass.patterns': 'match ss:\n    case CC({H}, qq): pass',
    'MatchClass.kwd_patterns': 'match ss:\n    case CC(pp, kw={H}): pass',
    'MatchClass.cls': 'match ss:\n    case {H}(pp): pass',
    # fill slots: the operand position is the empty `pattern` of the capture HOLE
    'MatchAs.pattern.fill@MatchAs.pattern': 'match ss:\n    case {H} as nn: pass',
    'MatchAs.pattern.fill@MatchOr.patterns': 'match ss:\n    case {H} | qq: pass',
    'MatchAs.pattern.fill@MatchSequence.patterns': 'match ss:\n    case [{H}, qq]: pass',
    'MatchAs.pattern.fill@match_case.pattern': 'match ss:\n    case {H}: pass',
}

SOLOGEN_OLD = 'ii for ii in jj'

_CASE = [('body', 0), ('cases', 0), ('pattern', None)]
OLD = {k: '0' for k in ('MatchValue.value', 'MatchValue.value.inor', 'MatchValue.value.inseq', 'MatchMapping.keys',
                        'MatchMapping.keys.second')}
PATH = {'MatchValue.value': _CASE + [('value', None)],
        'MatchValue.value.inor': _CASE + [('patterns', 0), ('value', None)],
        'MatchValue.value.inseq': _CASE + [('patterns', 1), ('value', None)],
        'MatchMapping.keys': _CASE + [('keys', 0)], 'MatchMapping.keys.second': _CASE + [('keys', 1)]}


def is_fstring_slot(slot):
    return slot.startswith('FormattedValue.') or slot.startswith('format_spec.')


def is_fill(slot):
    return slot.startswith('MatchAs.pattern.fill@')


def slot_ids():
    return set(E) | set(S)


# ----------------------------------------------------------------------------------------------------------------------
# child kinds: id -> (one-line text, multi-line text or None).  The multi-line text breaks the line *outside* the child's
# own brackets where the grammar allows it, otherwise inside (then the child encloses itself); which one it is, is
# observed with the tokenizer, not declared.

K = {
    'NamedExpr': ('n1 := w1', 'n1 :=\nw1'), 'Tuple': ('t1, u1', 't1,\nu1'), 'Yield': ('yield y1', 'yield y1 +\nz1'),
    'Yield0': ('yield', None), 'YieldFrom': ('yield from y1', 'yield from y1 +\nz1'),
    'Starred': ('*s1', '*s1.\nattr'), 'StarredOr': ('*s1 or z1', '*s1 or\nz1'), 'Slice': ('lo1:hi1', 'lo1 +\nz1:hi1'),
    'IfExp': ('b1 if t1 else e1', 'b1 if t1 else\ne1'), 'Lambda': ('lambda: x1', 'lambda: x1 +\nz1'),
    'LambdaArgs': ('lambda p1, q1=1: p1', 'lambda p1, q1=1: p1 +\nq1'),
    'Or': ('o1 or o2', 'o1 or\no2'), 'And': ('a1 and a2', 'a1 and\na2'), 'Not': ('not n1', 'not\nn1'),
    'Compare': ('c1 < c2', 'c1 <\nc2'), 'CompareIn': ('c1 not in c2', 'c1 not in\nc2'),
    'CompareIsNot': ('c1 is not c2', 'c1 is not\nc2'), 'CompareNotEq': ('c1 != c2', 'c1 !=\nc2'),
    'PosNum': ('+7', None), 'IntSum': ('1 + 2', None), 'ImagFirst': ('2j + 1', None),
    'NegNum': ('-7', '-\n7'), 'ComplexLit': ('1 + 2j', '1 +\n2j'), 'ComplexNeg': ('-1 - 2j', '-1 -\n2j'),
    'StrDq': ('"s1"', '"""s1\ns2"""'), 'CompareChain': ('c1 < c2 >= c3', 'c1 < c2 >=\nc3'),
    'BitOr': ('b1 | b2', 'b1 |\nb2'), 'BitXor': ('b1 ^ b2', 'b1 ^\nb2'), 'BitAnd': ('b1 & b2', 'b1 &\nb2'),
    'LShift': ('s1 << s2', 's1 <<\ns2'), 'RShift': ('s1 >> s2', 's1 >>\ns2'),
    'Add': ('a1 + a2', 'a1 +\na2'), 'Sub': ('a1 - a2', 'a1 -\na2'),
    'Mult': ('m1 * m2', 'm1 *\nm2'), 'Div': ('m1 / m2', 'm1 /\nm2'), 'FloorDiv': ('m1 // m2', 'm1 //\nm2'),
    'Mod': ('m1 % m2', 'm1 %\nm2'), 'MatMult': ('m1 @ m2', 'm1 @\nm2'),
    'USub': ('-u1', '-\nu1'), 'UAdd': ('+u1', '+\nu1'), 'Invert': ('~u1', '~\nu1'),
    'Pow': ('p1 ** p2', 'p1 **\np2'), 'Await': ('await w1', 'await w1.\nattr'),
    'Call': ('fn(arg)', 'fn(\narg)'), 'Attribute': ('o1.attr', 'o1.\nattr'), 'Subscript': ('o1[i1]', 'o1[\ni1]'),
    'Name': ('nm', None), 'Int': ('7', None), 'Float': ('7.5', None), 'Imag': ('7j', None),
    'Str': ("'s1'", "'''s1\ns2'''"), 'StrConcat': ("'s1' 's2'", "'s1'\n's2'"), 'Bytes': ("b'b1'", None),
    'JoinedStr': ("f'{j1}'", None), 'NameConst': ('None', None), 'Ellipsis': ('...', None),
    'List': ('[l1, l2]', '[l1,\nl2]'), 'Dict': ('{k1: v1}', '{k1:\nv1}'), 'Set': ('{e1, e2}', '{e1,\ne2}'),
    'ListComp': ('[x1 for x1 in q1]', '[x1 for x1 in\nq1]'), 'SetComp': ('{x1 for x1 in q1}', '{x1 for x1 in\nq1}'),
    'DictComp': ('{x1: x1 for x1 in q1}', '{x1: x1 for x1 in\nq1}'),
    'GeneratorExp': ('(x1 for x1 in q1)', '(x1 for x1 in\nq1)'), 'Tuple0': ('()', None),
    # patterns
    'OpenSeq': ('p1, q1', 'p1,\nq1'), 'MatchStar': ('*s1', None), 'MatchAsP': ('p1 as n1', 'p1 as\nn1'),
    'MatchOr': ('1 | q1', '1 |\nq1'), 'MatchValue': ('7', None), 'MatchValueAttr': ('o1.attr', None),
    'MatchValueNeg': ('-7', None), 'MatchSingleton': ('None', None), 'Capture': ('cp', None), 'Wildcard': ('_', None),
    'MatchSeqBr': ('[p1, q1]', '[p1,\nq1]'), 'MatchSeq0': ('[]', None), 'MatchMapping': ('{1: p1}', '{1:\np1}'),
    'MatchClass': ('C1(p1)', 'C1(\np1)'), 'MatchClassKw': ('C1(k1=p1)', 'C1(k1=\np1)'),
}

PAT_KINDS = {'OpenSeq', 'MatchStar', 'MatchAsP', 'MatchOr', 'MatchValue', 'MatchValueAttr', 'MatchValueNeg',
             'MatchSingleton', 'Capture', 'Wildcard', 'MatchSeqBr', 'MatchSeq0', 'MatchMapping', 'MatchClass',
             'MatchClassKw'}

NO_PAR_FORM = {'Starred', 'StarredOr', 'Slice', 'MatchStar'}  # `(*a)`, `(a:b)` do not exist


def child_text(kind, clay):
    """Text handed to pfst for child layout clay in {one, cpar, ml, mlc}; None when that layout does not exist."""
    one, ml = K[kind]
    if clay == 'one':
        return one
    if clay == 'cpar':
        return None if kind in NO_PAR_FORM else f'({one})'
    if ml is None:
        return None
    if clay == 'ml':
        return ml
    if clay == 'mlc':
        i = ml.index('\n')
        return ml[:i] + '  # cmt' + ml[i:]
    raise ValueError(clay)


# ----------------------------------------------------------------------------------------------------------------------
# oracle helpers (ast / tokenize only)

def child_ast(kind, text):
    """CPython's parse of the child text as a node of its kind (text may be multi-line / commented)."""
    if kind in PAT_KINDS:
        if kind == 'MatchStar':
            return ast.parse(f'match s:\n case [{text}]: pass').body[0].cases[0].pattern.patterns[0]
        return ast.parse(f'match s:\n case ({text}\n): pass').body[0].cases[0].pattern
    if kind in ('Starred', 'StarredOr'):
        return ast.parse(f'f({text}\n)').body[0].value.args[0]
    if kind == 'Slice':
        return ast.parse(f'a[{text}\n]').body[0].value.slice
    return ast.parse(f'({text}\n)', mode='eval').body


def self_enclosed(text):
    """Every line break of `text` lies inside its own brackets or inside one string token (tokenizer fact)."""
    if '\n' not in text:
        return True
    try:
        toks = list(tokenize.generate_tokens(io.StringIO(text + '\n').readline))
    except (tokenize.TokenError, IndentationError, SyntaxError):
        return False
    # a NEWLINE token before the last line means the logical line ended inside the text
    nl = [t for t in toks if t.type == tokenize.NEWLINE]
    return len(nl) == 1 and nl[0].start[0] == text.count('\n') + 1


def sig_tokens(src):
    """Significant tokens (type, string, start, end) of src, or None if it does not tokenize."""
    out = []
    try:
        for t in tokenize.generate_tokens(io.StringIO(src).readline):
            if t.type in (tokenize.NL, tokenize.COMMENT, tokenize.NEWLINE, tokenize.INDENT, tokenize.DEDENT,
                          tokenize.ENDMARKER):
                continue
            out.append((t.type, t.string, t.start, t.end))
    except (tokenize.TokenError, IndentationError, SyntaxError):
        return None
    return out


def depth_at(src, line, col):
    """Number of brackets open at position (line 1-based, col) of src (tokenizer fact)."""
    d = 0
    for _, s, start, _ in sig_tokens(src) or ():
        if start >= (line, col):
            break
        if s in '([{' and len(s) == 1:
            d += 1
        elif s in ')]}' and len(s) == 1:
            d -= 1
    return d


def outer_pars(toks, op='(', cl=')'):
    """Number of matched parenthesis (bracket) pairs that enclose the whole token string list."""
    n = 0
    while len(toks) >= 2 and toks[0] == op and toks[-1] == cl:
        d = 0
        for i, s in enumerate(toks):
            if s in ('(', '[', '{'):
                d += 1
            elif s in (')', ']', '}'):
                d -= 1
                if d == 0:
                    break
        if i != len(toks) - 1:
            break
        toks = toks[1:-1]
        n += 1
    return n


def is_subseq(a, b):
    it = iter(b)
    return all(any(x == y for y in it) for x in a)


def find_hole(tree):
    """Path [(field, idx|None)] from the Module to the node named HOLE (Name / capture pattern / arg)."""
    def rec(node, path):
        if isinstance(node, ast.Name) and node.id == HOLE:
            return path
        if isinstance(node, ast.MatchAs) and node.name == HOLE and node.pattern is None:
            return path
        for f in node._fields:
            v = getattr(node, f, None)
            if isinstance(v, list):
                for i, e in enumerate(v):
                    if isinstance(e, ast.AST):
                        r = rec(e, path + [(f, i)])
                        if r is not None:
                            return r
            elif isinstance(v, ast.AST):
                r = rec(v, path + [(f, None)])
                if r is not None:
                    return r
        return None
    return rec(tree, [])


def render(slot, tlay, old='HOLE'):
    """(source, start offset of the old operand text, its length) for template layout tlay, or None if that layout
    does not exist for the slot.  Layouts: bare, bslash (backslash continuation next to the operand), encl (parent
    expression in parentheses over several lines), enclc (the same with comments)."""
    if slot in E:
        e = E[slot]
        if tlay in ('bare', 'bslash'):
            tmpl = 'vv = ' + e
        elif tlay == 'encl':
            tmpl = 'vv = (\n    ' + e + '\n)'
        elif tlay == 'enclc':
            tmpl = 'vv = (  # c1\n    ' + e + '  # c2\n)'
        else:
            return None
    else:
        if tlay not in ('bare', 'bslash'):
            return None
        tmpl = S[slot]
    mark = '\x00'
    s = tmpl.format(H=mark)
    off = s.index(mark)
    if tlay == 'bslash':
        line_start = s.rfind('\n', 0, off) + 1
        if s[line_start:off].strip():
            ind = ' ' * (len(s[line_start:off]) - len(s[line_start:off].lstrip()) + 4)
            s = s[:off] + '\\\n' + ind + s[off:]
            off = s.index(mark)
        else:
            rest_end = s.find('\n', off)
            rest = s[off + 1: rest_end if rest_end >= 0 else len(s)]
            if not rest.strip():
                return None
            s = s[:off + 1] + ' \\\n        ' + s[off + 1:].lstrip(' ')
    s = s.replace(mark, old)
    return s, off, len(old)
