"""C10 driver: raw source edits (put_src(action='reparse'), raw-mode node puts, reparse()) on corpus programs.

Everything here is either (a) *steering* (which rectangle / replacement to try), (b) *observation* of what pfst answered
(source text, projection of the live AST, exception, root identity) or (c) *oracle facts* from the standard library
(`ast.parse` of the harness-side splice, `tokenize` token table and statement spans of a text).  No verdict and no edit
class is computed here: `spec/RawTrace.tla` recomputes the splice on code points, checks that the oracle row belongs to
that very text, evaluates the clauses and derives the edit class from the logged facts.

Coordinates: pfst's (0-based line, character column, end exclusive).  CPython AST columns are UTF-8 byte offsets and are
converted to character columns here; `tokenize` columns are characters already.
"""

from __future__ import annotations

import ast
import io
import keyword
import random
import tokenize
import warnings

from .proj import Tables, try_parse

from fst import FST  # implementation under test

warnings.filterwarnings('ignore', category=SyntaxWarning)  # replacement texts contain deliberately odd literals

MODES = {'exec': 'Module', 'eval': 'Expression'}


# ----------------------------------------------------------------------------------------------------------------------
# text helpers (harness side splice: only used to ask the oracle; TLA+ recomputes it and checks equality)

def splice(src: str, rect, repl: str) -> str:
    ln, col, eln, ecol = rect
    lines = src.split('\n')
    head = lines[ln][:col]
    tail = lines[eln][ecol:]
    new = (head + repl + tail).split('\n')
    return '\n'.join(lines[:ln] + new + lines[eln + 1:])


def b2c(lines, ln0, bcol):
    """UTF-8 byte column -> character column on 0-based line ln0."""
    s = lines[ln0]
    if s.isascii():
        return bcol
    return len(s.encode('utf-8')[:bcol].decode('utf-8', 'replace'))


def node_rect(lines, n):
    return (n.lineno - 1, b2c(lines, n.lineno - 1, n.col_offset),
            n.end_lineno - 1, b2c(lines, n.end_lineno - 1, n.end_col_offset))


# ----------------------------------------------------------------------------------------------------------------------
# oracle facts about one text (stdlib only): token table, statement spans

TOK_SHORT = {'NAME': 'NAME', 'NUMBER': 'NUM', 'STRING': 'STR', 'COMMENT': 'COMMENT', 'NL': 'NL', 'NEWLINE': 'NEWLINE',
             'INDENT': 'INDENT', 'DEDENT': 'DEDENT', 'ENDMARKER': 'END', 'FSTRING_START': 'FS', 'FSTRING_MIDDLE': 'FM',
             'FSTRING_END': 'FE'}
OPENERS = '([{'
CLOSERS = ')]}'
BLOCK_STMTS = (ast.If, ast.For, ast.AsyncFor, ast.While, ast.With, ast.AsyncWith, ast.FunctionDef, ast.AsyncFunctionDef,
               ast.ClassDef, ast.Try, ast.TryStar, ast.Match, ast.ExceptHandler, ast.match_case)


def raw_tokens(src: str):
    try:
        return list(tokenize.generate_tokens(io.StringIO(src).readline))
    except (tokenize.TokenError, IndentationError, SyntaxError):
        return None


def token_table(src: str):
    """[[type, ln, col, eln, ecol, kw(0/1), depth]] - 0-based lines, bracket depth *before* the token; [] if the text
    does not tokenize.  INDENT/DEDENT/ENDMARKER are dropped (they have no text of their own that an edit could hit,
    INDENT's text is the line's leading whitespace which the spec reads from the text itself)."""
    toks = raw_tokens(src)
    if toks is None:
        return []
    out = []
    depth = 0
    for t in toks:
        name = tokenize.tok_name[t.type]
        if name in ('INDENT', 'DEDENT', 'ENDMARKER'):
            continue
        typ = TOK_SHORT.get(name, 'OP')
        if typ == 'OP' and t.string in CLOSERS:
            depth = max(0, depth - 1)
        kw = 1 if (typ == 'NAME' and keyword.iskeyword(t.string)) else 0
        out.append([typ, t.start[0] - 1, t.start[1], t.end[0] - 1, t.end[1], kw, depth])
        if typ == 'OP' and t.string in OPENERS:
            depth += 1
    return out


def _first_body_pos(lines, n, ktoks=()):
    """start of the first statement-like child (for block header end), or None"""
    best = None
    for fld in ('body', 'handlers', 'cases', 'orelse', 'finalbody'):
        cs = getattr(n, fld, None)
        for c in cs if isinstance(cs, list) else []:
            if isinstance(c, ast.match_case):
                p = _case_kw(ktoks, node_rect(lines, c.pattern)[:2])
            else:
                p = node_rect(lines, c)[:2]
                for d in getattr(c, 'decorator_list', None) or []:
                    p = min(p, node_rect(lines, d)[:2])
            if best is None or p < best:
                best = p
    return best


def _case_kw(ktoks, pos):
    """position of the `case` keyword that introduces the pattern starting at `pos` (the last one before it)"""
    best = None
    for k in ktoks:
        if k < pos:
            best = k
    return best if best is not None else pos


def stmt_table(src: str, tree):
    """[[kind, ln, col, eln, ecol, block(0/1), bln, bcol, depth]] for every statement-like node of `tree` (stmt,
    ExceptHandler, match_case): its AST span and, for block statements, where its first child statement starts (the
    block header is everything of the statement before that).  match_case has no span of its own in CPython: the span
    used here runs from its `case` keyword (token table) to the end of its last body statement."""
    lines = src.split('\n')
    out = []
    ktoks = [(t.start[0] - 1, t.start[1]) for t in (raw_tokens(src) or []) if t.type == tokenize.NAME and t.string == 'case']

    def visit(n, depth):
        for fld in ('body', 'handlers', 'cases', 'orelse', 'finalbody'):
            cs = getattr(n, fld, None)
            for c in cs if isinstance(cs, list) else []:
                if not isinstance(c, (ast.stmt, ast.ExceptHandler, ast.match_case)):
                    continue
                if isinstance(c, ast.match_case):
                    r = _case_kw(ktoks, node_rect(lines, c.pattern)[:2]) + node_rect(lines, c.body[-1])[2:]
                else:
                    r = node_rect(lines, c)
                    for d in getattr(c, 'decorator_list', None) or []:
                        r = min(r[:2], node_rect(lines, d)[:2]) + r[2:]
                blk = isinstance(c, BLOCK_STMTS)
                b = _first_body_pos(lines, c, ktoks) if blk else None
                kind = type(c).__name__
                if kind == 'If' and lines[r[0]][r[1]:r[1] + 4] == 'elif':
                    kind = 'Elif'  # an If written as `elif` (read off the text at its start)
                out.append([kind, r[0], r[1], r[2], r[3], 1 if blk else 0,
                            b[0] if b else -1, b[1] if b else -1, depth])
                visit(c, depth + 1)

    visit(tree, 0)
    out.sort(key=lambda s: (s[1], s[2], -s[3], -s[4]))
    return out


class RawRecorder:
    """Tables + per-text fact rows (`ftab`, parallel to `ttab`) and per-text oracle rows (`otab`, parallel to `ttab`)."""

    def __init__(self):
        self.tab = Tables()
        self._roots = {}
        self._keep = []
        self.facts = {}   # text id -> {'toks', 'stmts'}
        self.oracle = {}  # (text id, mode) -> {'valid', 'S', 'P'}

    def root_serial(self, root) -> int:
        k = id(root)
        if k not in self._roots or self._roots[k][1] is not root:
            self._keep.append(root)
            self._roots[k] = (len(self._keep), root)
        return self._roots[k][0]

    def text(self, src: str) -> int:
        return self.tab.text(src)

    def oracle_row(self, src: str, mode: str):
        """CPython's judgement of a whole source text in the mode of the root's kind (+ facts when valid in exec)."""
        tid = self.tab.text(src)
        key = (tid, mode)
        row = self.oracle.get(key)
        if row is None:
            t = try_parse(src, mode)
            if t is None:
                row = {'valid': False, 'S': 0, 'P': 0}
            else:
                s, p = self.tab.node(t)
                row = {'valid': True, 'S': s, 'P': p}
            self.oracle[key] = row
            if tid not in self.facts:
                self.facts[tid] = {'toks': token_table(src), 'stmts': stmt_table(src, t) if t is not None else []}
        return tid, row

    def state(self, root, mode='exec') -> dict:
        src = root.src
        ls, lp = self.tab.node(root.a)
        tid, row = self.oracle_row(src, mode)
        return {'rootObj': self.root_serial(root), 'rootKind': type(root.a).__name__, 'liveS': ls, 'liveP': lp,
                'text': tid, 'srcP': row['P']}

    def dump(self) -> dict:
        d = self.tab.dump()
        n = len(d['ttab'])
        empty = {'toks': [], 'stmts': []}
        d['ftab'] = [self.facts.get(i + 1, empty) for i in range(n)]
        return d


# ----------------------------------------------------------------------------------------------------------------------
# steering: rectangles

def _indent_of(line: str) -> int:
    return len(line) - len(line.lstrip(' \t'))


class View:
    """Pure-stdlib view of the current text used to pick rectangles (tokens, nodes, statements)."""

    def __init__(self, src: str, mode='exec'):
        self.src = src
        self.lines = src.split('\n')
        self.tree = try_parse(src, mode)
        toks = raw_tokens(src) or []
        self.toks = [t for t in toks if tokenize.tok_name[t.type] not in ('INDENT', 'DEDENT', 'ENDMARKER', 'NL', 'NEWLINE')
                     and t.string]
        self.stmts = []
        self.exprs = []
        self.in_fstr = set()
        if self.tree is not None:
            for n in ast.walk(self.tree):
                if isinstance(n, (ast.JoinedStr,)):
                    for c in ast.walk(n):
                        if c is not n:
                            self.in_fstr.add(id(c))
            for n in ast.walk(self.tree):
                if isinstance(n, (ast.stmt, ast.ExceptHandler)):
                    self.stmts.append(n)
                elif isinstance(n, (ast.expr, ast.pattern, ast.arg, ast.keyword, ast.alias)) and id(n) not in self.in_fstr:
                    if hasattr(n, 'lineno'):
                        self.exprs.append(n)

    def rect(self, n):
        return node_rect(self.lines, n)

    def is_elif(self, n):
        """`n` is written as `elif` (CPython: an If that is the whole orelse of an If and starts with that keyword)"""
        if not isinstance(n, ast.If):
            return False
        r = self.rect(n)
        return self.lines[r[0]][r[1]:r[1] + 4] == 'elif'

    def tok_rect(self, t):
        return (t.start[0] - 1, t.start[1], t.end[0] - 1, t.end[1])

    def text_of(self, rect):
        ln, col, eln, ecol = rect
        if ln == eln:
            return self.lines[ln][col:ecol]
        return '\n'.join([self.lines[ln][col:]] + self.lines[ln + 1:eln] + [self.lines[eln][:ecol]])

    def rand_pos(self, rng):
        ln = rng.randrange(len(self.lines))
        return ln, rng.randint(0, len(self.lines[ln]))


RECT_KINDS_CLEAN = ('node', 'stmt', 'newline-stmt', 'tok')
RECT_KINDS_ALL = ('node', 'stmt', 'newline-stmt', 'newline-stmt0', 'tok', 'tokrange', 'intok', 'span', 'lines', 'indent', 'point',
                  'random', 'header', 'stmt-tail', 'stmt-head', 'gap', 'elif-whole', 'inline-stmt')


def pick_rect(v: View, rng: random.Random, kind: str):
    """-> (rect, aux) or None; aux carries what the replacement chooser wants to know (node, category)."""
    L = v.lines
    if kind == 'node' and v.exprs:
        n = rng.choice(v.exprs)
        return v.rect(n), {'node': n}
    if kind == 'stmt' and v.stmts:
        n = rng.choice([s for s in v.stmts if isinstance(s, ast.stmt)] or v.stmts)
        r = v.rect(n)
        for d in getattr(n, 'decorator_list', None) or []:
            r = min(r[:2], v.rect(d)[:2]) + r[2:]
        return r, {'stmt': n}
    if kind in ('newline-stmt', 'newline-stmt0') and v.stmts:
        # room for a new statement line before a statement that is first on its line: a zero-width rectangle at
        # column 0 of that line ('newline-stmt0'; for a statement that itself starts at column 0 this rectangle lies
        # *inside* the statement) or at the end of the line before it ('newline-stmt')
        n = rng.choice([s for s in v.stmts if isinstance(s, ast.stmt) and not v.is_elif(s)] or v.stmts)
        r = v.rect(n)
        if getattr(n, 'decorator_list', None):
            r = min([r[:2]] + [v.rect(d)[:2] for d in n.decorator_list]) + r[2:]
        if L[r[0]][:r[1]].strip():
            return None  # not first on its line (after `;` or on a header line)
        ind = L[r[0]][:r[1]]
        if kind == 'newline-stmt0' or (r[1] > 0 and rng.random() < 0.5):
            return (r[0], 0, r[0], 0), {'stmt': n, 'indent': ind, 'where': 'line-start'}
        if r[0] == 0 or L[r[0] - 1].rstrip().endswith('\\'):
            return None
        return (r[0] - 1, len(L[r[0] - 1]), r[0] - 1, len(L[r[0] - 1])), {'stmt': n, 'indent': ind, 'where': 'line-end'}
    if kind == 'tok' and v.toks:
        t = rng.choice(v.toks)
        return v.tok_rect(t), {'tok': t}
    if kind == 'tokrange' and v.toks:
        i = rng.randrange(len(v.toks))
        j = min(len(v.toks) - 1, i + rng.randint(1, 4))
        return v.tok_rect(v.toks[i])[:2] + v.tok_rect(v.toks[j])[2:], {}
    if kind == 'intok':
        c = [t for t in v.toks if t.start[0] == t.end[0] and t.end[1] - t.start[1] >= 2]
        if not c:
            return None
        t = rng.choice(c)
        a = rng.randint(t.start[1], t.end[1] - 1)
        b = rng.randint(a, t.end[1]) if rng.random() < 0.7 else a
        if (a, b) == (t.start[1], t.end[1]):
            a += 1
            b = max(a, b)
        return (t.start[0] - 1, a, t.start[0] - 1, b), {'tok': t}
    if kind == 'span' and len(v.stmts) >= 2:
        i = rng.randrange(len(v.stmts) - 1)
        s1 = sorted(v.stmts, key=lambda s: (s.lineno, s.col_offset))
        a, b = s1[i], s1[min(len(s1) - 1, i + rng.randint(1, 3))]
        ra, rb = v.rect(a), v.rect(b)
        start = rng.choice([ra[:2], ra[2:], _tok_in(v, ra, rng)[:2]])
        end = rng.choice([rb[2:], rb[:2], _tok_in(v, rb, rng)[2:]])
        if end < start:
            start, end = ra[:2], rb[2:]
        return start + end, {}
    if kind == 'lines':
        a = rng.randrange(len(L))
        b = min(len(L) - 1, a + rng.choice([0, 0, 1, 2]))
        if rng.random() < 0.5 and b + 1 < len(L):
            return (a, 0, b + 1, 0), {'lines': 'with-newline'}
        return (a, 0, b, len(L[b])), {'lines': 'content'}
    if kind == 'indent':
        c = [i for i, s in enumerate(L) if s.strip()]
        if not c:
            return None
        ln = rng.choice(c)
        k = _indent_of(L[ln])
        m = rng.random()
        if m < 0.35:
            return (ln, 0, ln, k), {'indent': 'all'}
        if m < 0.6:
            return (ln, 0, ln, 0), {'indent': 'ins0'}
        if m < 0.8:
            return (ln, k, ln, k), {'indent': 'insk'}
        a = rng.randint(0, k)
        return (ln, a, ln, rng.randint(a, k)), {'indent': 'part'}
    if kind == 'point':
        if v.toks and rng.random() < 0.7:
            t = rng.choice(v.toks)
            p = v.tok_rect(t)[:2] if rng.random() < 0.5 else v.tok_rect(t)[2:]
        else:
            p = v.rand_pos(rng)
        return p + p, {}
    if kind == 'random':
        p, q = sorted([v.rand_pos(rng), v.rand_pos(rng)])
        if rng.random() < 0.6:  # keep it short: same or next line
            q = (min(len(L) - 1, p[0] + rng.choice([0, 0, 0, 1])), 0)
            q = (q[0], rng.randint(p[1] if q[0] == p[0] else 0, len(L[q[0]])))
        return p + q, {}
    if kind == 'header':
        c = [s for s in v.stmts if isinstance(s, BLOCK_STMTS)]
        if not c:
            return None
        n = rng.choice(c)
        r = v.rect(n)
        b = _first_body_pos(L, n)
        ht = [t for t in v.toks if r[:2] <= v.tok_rect(t)[:2] and v.tok_rect(t)[2:] <= b]
        if not ht:
            return None
        if rng.random() < 0.35:
            # the block keyword itself (also of an elif / else / except / finally line that belongs to the statement)
            kt = [t for t in v.toks if t.string in BLOCK_KEYWORDS_1 and r[:2] <= v.tok_rect(t)[:2] <= r[2:]
                  and not L[t.start[0] - 1][:t.start[1]].strip()]
            if kt:
                t = rng.choice(kt[:4])
                return v.tok_rect(t), {'header': n, 'kwtok': True}
        i = rng.randrange(len(ht))
        j = min(len(ht) - 1, i + rng.choice([0, 0, 1, 2]))
        return v.tok_rect(ht[i])[:2] + v.tok_rect(ht[j])[2:], {'header': n}
    if kind in ('stmt-tail', 'stmt-head'):
        c = [s for s in v.stmts if isinstance(s, ast.stmt) and not isinstance(s, BLOCK_STMTS)]
        if not c:
            return None
        n = rng.choice(c)
        r = v.rect(n)
        st = [t for t in v.toks if r[:2] <= v.tok_rect(t)[:2] and v.tok_rect(t)[2:] <= r[2:]]
        if len(st) < 2:
            return None
        k = rng.randint(1, min(3, len(st) - 1))
        if kind == 'stmt-tail':
            return v.tok_rect(st[-k])[:2] + r[2:], {'stmt': n}
        return r[:2] + v.tok_rect(st[k - 1])[2:], {'stmt': n}
    if kind in ('elif-whole', 'elif-chain-whole'):
        c = [s for s in v.stmts if v.is_elif(s)]
        if kind == 'elif-chain-whole':  # an elif of an elif: the case fst_raw handles with an explicit end fix-up
            par = {id(p.orelse[0]): p for p in v.stmts if isinstance(p, ast.If) and len(p.orelse) == 1}
            c = [s for s in c if id(s) in par and v.is_elif(par[id(s)])]
        if not c:
            return None
        n = rng.choice(c)
        return v.rect(n), {'elif': n}
    if kind == 'inline-stmt':
        # a simple statement that is not the first thing on its line (one-line block body, after ';')
        c = [s for s in v.stmts if isinstance(s, ast.stmt) and not isinstance(s, BLOCK_STMTS)
             and L[v.rect(s)[0]][:v.rect(s)[1]].strip()]
        if not c:
            return None
        n = rng.choice(c)
        r = v.rect(n)
        st = [t for t in v.toks if r[:2] <= v.tok_rect(t)[:2] and v.tok_rect(t)[2:] <= r[2:]]
        m = rng.random()
        if m < 0.4 or not st:
            return r[:2] + r[:2], {'inline': n}
        if m < 0.6:
            return r[:2] + v.tok_rect(st[0])[2:], {'inline': n}
        if m < 0.8:
            return r, {'inline': n}
        return r[:2] + v.tok_rect(st[-1])[:2], {'inline': n}
    if kind == 'gap' and len(v.toks) >= 2:
        i = rng.randrange(len(v.toks) - 1)
        a, b = v.tok_rect(v.toks[i]), v.tok_rect(v.toks[i + 1])
        return a[2:] + b[:2], {'gap': True}
    return None


def _tok_in(v, rect, rng):
    c = [t for t in v.toks if rect[:2] <= v.tok_rect(t)[:2] and v.tok_rect(t)[2:] <= rect[2:]]
    return v.tok_rect(rng.choice(c)) if c else rect


# ----------------------------------------------------------------------------------------------------------------------
# steering: replacement texts

EXPRS = ['x', 'v1', '0', '(a if b else c)', 'f(x)', 'a.b', 'a[0]', '[1, 2]', '(p, q)', "'s'", 'a + b', 'not a',
         'lambda: 0', '{k: v}', '-1', 'a < b', '(yield)', 'await x', '*s', 'z := 1', 'a and b', 'u"w"', 'x\u00e9', '\u4e2d']
STMTS = ['pass', 'x = 1', 'return', 'del q', 'assert a, b', 'import m', 'raise E from e', 'a: int = 1', 'x += 1',
         'global g', 'f(x)', 'break', 'if q: pass', 'for i in j: pass', 'with a as b: pass', 'type T = int',
         'x = 1; y = 2', 'lambda: 0']
BLOCKS = ['if q:\n{i}    pass', 'for i in j:\n{i}    k\n{i}else:\n{i}    pass', 'while q:\n{i}    pass',
          'def g():\n{i}    return 1', 'class K:\n{i}    a = 1', 'try:\n{i}    pass\n{i}except E:\n{i}    pass',
          'with a:\n{i}    pass', 'match m:\n{i}    case 1:\n{i}        pass', '@d\n{i}def h(): pass',
          'async def ag():\n{i}    await z', 'if q:\n{i}    pass\n{i}elif r:\n{i}    pass\n{i}else:\n{i}    pass']
INVALID = [')', '(', '$', 'if', "'", '"""', ':', '=', '?', ']', 'def', '\\', '1x', ' = = ', '..', 'else:', '@', '->']
GLUE = [';', '; ', '\n', ' ', '  ', ',', ', ', '.', ':', ' = ', '(', ')', '\\\n', ' if ', ' else ', ' and ', ' in ', ' is ',
        ' not ', 'async ', 'await ', '*', '**', '# c', '# c\n', ' # c', '#', 'not ', 'lambda: ', ':=', ' for q in r', '@',
        '-', '~', 'yield ', 'from ', ' as n', 'elif', 'else', 'except', 'finally', 'case ', ' from e', 'del ', 'return ']
COMPOUND_PREFIXES = ['if c: ', 'while b: ', 'for i in j: ', 'with k: ', 'def g(): ', 'class K: ', 'try: ', 'async def g(): ',
                     'match m: ', 'else: ', 'elif c: ', 'async for i in j: ', 'async with k: ']
BLOCK_KEYWORDS = ['if', 'while', 'for', 'async for', 'with', 'async with', 'def', 'async def', 'class', 'try', 'except',
                  'except*', 'elif', 'else', 'finally', 'match', 'case']
BLOCK_KEYWORDS_1 = ('if', 'while', 'for', 'with', 'def', 'class', 'try', 'except', 'elif', 'else', 'finally', 'async',
                    'match', 'case')
OPS = ['+', '-', '*', '/', '//', '%', '@', '**', '<<', '>>', '&', '|', '^', '<', '>', '==', '!=', '<=', '>=', '=', '+=',
       '-=', ':=', ',', '.', ':', ';', 'and', 'or', 'not', 'in', 'is', 'if', 'else']


def pick_repl(v: View, rng: random.Random, rect, rkind: str, aux: dict, profile: str):
    """-> (repl kind, replacement text)"""
    old = v.text_of(rect)
    L = v.lines
    ind = L[rect[0]][:_indent_of(L[rect[0]])]
    clean = profile in CLEAN_PROFILES
    r = rng.random()
    if rkind == 'node':
        n = aux['node']
        if isinstance(n, ast.expr):
            if r < (0.75 if clean else 0.45):
                return 'expr', rng.choice(EXPRS)
            if r < (0.9 if clean else 0.55):
                return 'same', old
        if clean:
            return 'same', old
    if rkind == 'stmt':
        if r < (0.45 if clean else 0.3):
            return 'stmt', rng.choice(STMTS)
        if r < (0.8 if clean else 0.5):
            return 'block', rng.choice(BLOCKS).format(i=ind)
        if r < (1.0 if clean else 0.6):
            return 'same', old
    if rkind in ('newline-stmt', 'newline-stmt0'):
        i = aux['indent']
        if r < 0.5 or not clean and r < 0.6:
            body = rng.choice(STMTS)
        elif clean or r < 0.8:
            body = rng.choice(BLOCKS).format(i=i)
        else:
            body = None
        if body is not None:
            if aux['where'] == 'line-start':
                return 'stmt-line', i + body + '\n'
            return 'stmt-line', '\n' + i + body
    if rkind == 'tok':
        t = aux['tok']
        tn = tokenize.tok_name[t.type]
        if tn == 'NAME' and not keyword.iskeyword(t.string) and (clean or r < 0.5):
            return 'name', rng.choice(['x', 'nm', t.string + '_', 'q9', 'n\u00e9'])
        if tn == 'NUMBER' and (clean or r < 0.5):
            return 'number', rng.choice(['0', '17', '2.5', '0x1f', '3j', '1_000'])
        if tn == 'OP' and not clean and r < 0.5:
            return 'op', rng.choice(OPS)
        if clean:
            return 'same', old
    if rkind in ('elif-whole', 'elif-chain-whole'):
        if r < 0.5:
            return 'empty', ''
        if r < 0.7:
            return 'else-block', 'else:\n' + ind + '    pass'
        if r < 0.85:
            return 'elif-block', 'elif q:\n' + ind + '    pass'
        return 'same', old
    if rkind == 'indent' and r < 0.7:
        return 'indent', rng.choice(['', ' ', '  ', '    ', '        ', '\t', ind, ind + '    ', ind[:-4] if len(ind) >= 4 else ''])
    if rkind == 'lines' and r < 0.5:
        if r < 0.2:
            return 'empty', ''
        s = rng.choice(STMTS) if rng.random() < 0.6 else rng.choice(BLOCKS).format(i=ind)
        return 'stmt-line', ind + s + ('\n' if aux.get('lines') == 'with-newline' else '')
    if rkind == 'inline-stmt':
        if r < 0.6:
            return 'compound-prefix', rng.choice(COMPOUND_PREFIXES)
        if r < 0.75:
            return 'compound', rng.choice(COMPOUND_PREFIXES) + 'y'
        return 'stmt', rng.choice(['z', 'z = 3', 'pass', 'return z', '', 'z; '])
    if rkind == 'header' and aux.get('kwtok') and r < 0.7:
        return 'block-keyword', rng.choice(BLOCK_KEYWORDS)
    if rkind == 'header' and r < 0.5:
        return 'expr', rng.choice(EXPRS)
    # generic menu
    r = rng.random()
    if r < 0.22:
        return 'empty', ''
    if r < 0.30:
        return 'same', old
    if r < 0.52:
        return 'glue', rng.choice(GLUE)
    if r < 0.62:
        return 'invalid', rng.choice(INVALID)
    if r < 0.72:
        return 'expr', rng.choice(EXPRS)
    if r < 0.80:
        return 'stmt', rng.choice(STMTS)
    if r < 0.86:
        return 'split', '\n' + ind + rng.choice(['', 'x', 'pass', '    y', 'z = '])
    if r < 0.91:
        return 'spaces', ' ' * max(1, len(old)) if '\n' not in old else ' '
    if r < 0.96:
        return 'op', rng.choice(OPS)
    return 'block', rng.choice(BLOCKS).format(i=ind)


CLEAN_PROFILES = ('clean', 'inline')

PROFILES = {
    # 'inline': clean-class edits only inside statements (node-boundary replacement by the same category, token
    # mutation, identity), used on INLINE_PROGRAMS where almost every statement is an inline one after multi-byte text
    'inline': {'node': 6, 'tok': 4},
    # rect kind weights.  'clean' = statement-shaped requests (node / statement / new statement line / token), which
    # since the reparser fixes (e567fb3, b8b004e, 16eaee8) also include the shapes that used to be known findings:
    # new statement line at column 0 of a top-level statement, whole-statement replacement called on a statement
    # node, whole `elif` replacement, indentation and whole-line edits; 'wild' = everything
    'clean': {'node': 5, 'stmt': 4, 'newline-stmt': 3, 'newline-stmt0': 3, 'tok': 3, 'elif-whole': 1, 'indent': 1, 'lines': 1,
              'header': 2, 'inline-stmt': 2},
    'wild': {'node': 2, 'stmt': 2, 'newline-stmt': 1, 'newline-stmt0': 1, 'tok': 3, 'tokrange': 3, 'intok': 3, 'span': 3, 'lines': 3,
             'indent': 3, 'point': 4, 'random': 3, 'header': 3, 'stmt-tail': 2, 'stmt-head': 2, 'gap': 2,
             'elif-whole': 2, 'inline-stmt': 2},
}


def bound(x):
    return {'k': 'end', 'v': 0} if x == 'end' else {'k': 'int', 'v': int(x)}


def unbound(b):
    return 'end' if b['k'] == 'end' else b['v']


def requad(v: View, rng: random.Random, rect):
    """The same rectangle written the other ways the API allows ('end', negative, beyond the end), or - rarely - an
    inverted one.  Returns 4 raw coordinates; the spec clips them itself (RawText!Clip)."""
    ln, col, eln, ecol = rect
    L = v.lines
    q = [ln, col, eln, ecol]
    r = rng.random()
    if r < 0.08:
        if rng.random() < 0.5 and eln > 0:
            return [eln, col, rng.randrange(0, eln), ecol]           # end line before start line
        if ln == eln and ecol < len(L[ln]):
            return [ln, rng.randint(ecol + 1, len(L[ln])), eln, ecol]  # end column before start column
    if ecol == len(L[eln]) and rng.random() < 0.6:
        q[3] = rng.choice(['end', ecol + rng.randint(1, 9)])
    elif rng.random() < 0.4 and ecol < len(L[eln]):
        q[3] = ecol - len(L[eln])
    if eln == len(L) - 1 and rng.random() < 0.5:
        q[2] = rng.choice(['end', -1, eln + 3])
    elif rng.random() < 0.3:
        q[2] = eln - len(L)
    if rng.random() < 0.3:
        q[0] = ln - len(L)
    if rng.random() < 0.3 and 0 < col < len(L[ln]):
        q[1] = col - len(L[ln])
    elif col == len(L[ln]) and rng.random() < 0.5:
        q[1] = 'end'
    return q


def plan_put_src(v: View, rng: random.Random, profile: str):
    w = PROFILES[profile]
    kinds = list(w)
    for _ in range(12):
        k = rng.choices(kinds, [w[x] for x in kinds])[0]
        if _ == 0 and rng.random() < 0.2:
            k = 'elif-chain-whole'  # rare shape: tried first, falls through when the program has no such chain
        pr = pick_rect(v, rng, k)
        if pr is None:
            continue
        rect, aux = pr
        rk, repl = pick_repl(v, rng, rect, k, aux, profile)
        return {'call': 'put_src', 'rect': list(rect), 'repl': repl, 'gen': k + '/' + rk}
    return None


# raw-mode node puts --------------------------------------------------------------------------------------------------

def _path_of(tree, target):
    stack = [(tree, ())]
    while stack:
        n, p = stack.pop()
        if n is target:
            return p
        for name in n._fields:
            c = getattr(n, name, None)
            if isinstance(c, ast.AST):
                stack.append((c, p + ((name, None),)))
            elif isinstance(c, list):
                for i, e in enumerate(c):
                    if isinstance(e, ast.AST):
                        stack.append((e, p + ((name, i),)))
    return None


def plan_raw_put(v: View, rng: random.Random):
    """replace(code, raw=True[, pars=False][, to=later node]) on an expression node; the requested rectangle is the
    node's own span as CPython reports it (valid for `pars=False`; with the default `pars` only when the node is not
    directly wrapped in parentheses, judged on the token stream)."""
    # GeneratorExp: CPython's span of a sole generator argument includes the call's parentheses, which is not the
    # rectangle pfst documents for it -> not a target
    c = [n for n in v.exprs if isinstance(n, ast.expr) and not isinstance(n, (ast.JoinedStr, ast.Starred,
                                                                               ast.GeneratorExp))]
    if not c:
        return None
    n = rng.choice(c)
    rect = v.rect(n)
    to = None
    if rng.random() < 0.25:
        later = [m for m in c if v.rect(m)[:2] >= rect[2:] and v.rect(m)[0] <= rect[2] + 2]
        if later:
            to = rng.choice(later)
            rect = rect[:2] + v.rect(to)[2:]
    code = [t for t in v.toks if t.type != tokenize.COMMENT]
    before = [t for t in code if v.tok_rect(t)[2:] <= rect[:2]]
    after = [t for t in code if v.tok_rect(t)[:2] >= rect[2:]]
    wrapped = bool(before and before[-1].string == '(') or bool(after and after[0].string == ')')
    pars_false = wrapped or rng.random() < 0.5
    r = rng.random()
    if r < 0.6:
        rk, repl = 'expr', rng.choice(EXPRS)
    elif r < 0.7:
        rk, repl = 'same', v.text_of(rect)
    elif r < 0.85:
        rk, repl = 'glue', rng.choice(GLUE)
    else:
        rk, repl = 'invalid', rng.choice(INVALID)
    if not repl.strip():
        rk, repl = 'expr', 'x'
    return {'call': 'raw_put', 'self': 'expr', 'rect': list(rect), 'repl': repl,
            'gen': 'rawnode/' + rk + ('/to' if to else ''),
            'path': [[f, -1 if i is None else i] for f, i in _path_of(v.tree, n)],
            'to': [[f, -1 if i is None else i] for f, i in _path_of(v.tree, to)] if to is not None else [],
            'hasTo': to is not None, 'parsFalse': pars_false}


def fst_at(root, path):
    f = root
    for name, i in path:
        a = getattr(f.a, name)
        f = (a if i < 0 else a[i]).f
    return f


# ----------------------------------------------------------------------------------------------------------------------
# execution + recording

def execute(root, plan):
    """Run one planned call against pfst; returns the exception or None."""
    try:
        c = plan['call']
        if c == 'put_src':
            ln, col, eln, ecol = plan.get('quad') or plan['rect']
            via = root
            if plan.get('via'):
                try:
                    via = fst_at(root, plan['via'])
                except Exception:  # noqa: BLE001
                    via = root
            via.put_src(plan['repl'], ln, col, eln, ecol, 'reparse')
        elif c == 'raw_put':
            f = fst_at(root, plan['path'])
            opts = {'raw': True}
            if plan['parsFalse']:
                opts['pars'] = False
            if plan['hasTo']:
                opts['to'] = fst_at(root, plan['to'])
            f.replace(plan['repl'], **opts)
        elif c == 'put_none':
            ln, col, eln, ecol = plan['rect']
            root.put_src(plan['repl'], ln, col, eln, ecol, None)
        elif c == 'reparse':
            f = fst_at(root, plan.get('path') or [])
            f.reparse()
        else:
            raise AssertionError(c)
    except Exception as exc:  # noqa: BLE001
        return exc
    return None


def make_event(rec: RawRecorder, plan, pre_src, mode, post, exc):
    c = plan['call']
    ev = {'call': c, 'self': plan.get('self', 'root'), 'gen': plan.get('gen', c),
          'outcome': 'ok' if exc is None else 'raise',
          'exc': '' if exc is None else type(exc).__name__,
          'msg': '' if exc is None else ascii(str(exc))[1:-1][:80], 'post': post}
    if c in ('put_src', 'raw_put', 'put_none'):
        new = splice(pre_src, plan['rect'], plan['repl'])
        ev['quad'] = [bound(x) for x in (plan.get('quad') or plan['rect'])]
        ev['repl'] = rec.text(plan['repl'])
    else:
        new = pre_src  # reparse(): the requested splice is the identity
        ev['quad'] = [bound(0)] * 4
        ev['repl'] = rec.text('')
    tid, row = rec.oracle_row(new, mode)
    ev['otext'] = tid
    ev['valid'] = row['valid']
    ev['oS'] = row['S']
    ev['oP'] = row['P']
    return ev


def run_history(rec: RawRecorder, tid: int, seed: int, src: str, nsteps: int, profile='wild', mode='exec',
                script_in=None) -> dict:
    """One history of consecutive raw edits on one tree.  `script_in` (list of plans) replays recorded plans instead
    of drawing new ones."""
    rng = random.Random(seed)
    root = FST(src, mode)
    init = rec.state(root, mode)
    trace = {'id': tid, 'seed': seed, 'mode': mode, 'init': init, 'steps': []}
    script = []
    dirty = False  # True after put_none: source and tree deliberately out of step until reparse()
    for k in range(nsteps):
        pre_src = root.src
        if script_in is not None:
            if k >= len(script_in):
                break
            plan = script_in[k]
        else:
            v = View(pre_src, mode)
            plan = None
            if dirty:
                plan = {'call': 'reparse', 'path': [], 'gen': 'reparse/root-after-put_none'}
            elif v.tree is None:
                break
            else:
                r = rng.random()
                if profile in CLEAN_PROFILES or mode != 'exec':
                    plan = plan_put_src(v, rng, profile if profile in CLEAN_PROFILES else 'wild')
                elif r < 0.72:
                    plan = plan_put_src(v, rng, profile)
                elif r < 0.88:
                    plan = plan_raw_put(v, rng)
                elif r < 0.94:
                    p = plan_put_src(v, rng, 'wild')
                    if p:
                        plan = dict(p, call='put_none', gen='none/' + p['gen'])
                else:
                    if rng.random() < 0.5 or not v.stmts:
                        plan = {'call': 'reparse', 'path': [], 'gen': 'reparse/root'}
                    else:
                        n = rng.choice(v.stmts + v.exprs[:20])
                        plan = {'call': 'reparse', 'gen': 'reparse/node',
                                'self': 'stmt' if isinstance(n, (ast.stmt, ast.ExceptHandler)) else 'expr',
                                'path': [[f, -1 if i is None else i] for f, i in _path_of(v.tree, n)]}
                if plan and plan['call'] == 'put_src' and rng.random() < 0.3 and v.exprs:
                    # put_src may be called on any node of the tree: `self` must not matter
                    n = rng.choice(v.exprs + (v.stmts if profile != 'inline' else []))
                    plan['via'] = [[f, -1 if i is None else i] for f, i in _path_of(v.tree, n)]
                    plan['self'] = 'stmt' if isinstance(n, (ast.stmt, ast.ExceptHandler, ast.match_case)) else 'expr'
                if plan and plan['call'] in ('put_src', 'put_none') and profile not in CLEAN_PROFILES and rng.random() < 0.15:
                    plan['quad'] = requad(v, rng, plan['rect'])
            if plan is None:
                continue
        exc = execute(root, plan)
        post = rec.state(root, mode)
        ev = make_event(rec, plan, pre_src, mode, post, exc)
        trace['steps'].append(ev)
        script.append({'plan': plan, 'pre_src': pre_src, 'post_src': root.src,
                       'exc': None if exc is None else f'{type(exc).__name__}: {exc}'})
        if plan['call'] == 'put_none':
            dirty = exc is None
            continue
        dirty = False
        # leave the history when source and tree are no longer in step (judged at this step; later steps would run on
        # a damaged state)
        t = try_parse(root.src, mode)
        if t is None or rec.tab.pid(t) != post['liveP']:
            break
    trace['script'] = script
    return trace


# ----------------------------------------------------------------------------------------------------------------------
# other root kinds

MODE_SOURCES = {
    'eval': ['a + b * c', 'f(x, y=1, *z)', '[i for i in j if k]', '(a,\n b,\n c)', 'lambda x: (x, 1)', 'a if b else c',
             '{k: v, **d}', 'x[1:2, ::3]', 'not a and (b or c)', '(yield)', 'a.b.c(d)[e]', '"s" "t"', '-x ** 2',
             '[\n    1,  # one\n    2,\n]', 'a < b <= c', '(x := 5)'],
}


# ----------------------------------------------------------------------------------------------------------------------
# direction G: one row of the TLC-generated flat-Python table

def _s(lines):
    return '\n'.join(''.join(chr(c) for c in ln) for ln in lines)


def run_table_row(rec: RawRecorder, tid: int, row):
    """row = [text, rect, repl, valid, new, names] as computed by RawGen.tla.  Executes put_src on pfst, records the
    event for RawTrace, and cross-checks the spec's flat-Python oracle against CPython (third result: a mismatch
    description or None)."""
    text, rect, repl, valid, new, names = row
    src, rp, exp_new = _s(text), _s(repl), _s(new)
    mism = None
    h_new = splice(src, rect, rp)
    t = try_parse(exp_new, 'exec')
    if h_new != exp_new:
        mism = ('splice', src, rect, rp, exp_new, h_new)
    elif (t is not None) != bool(valid):
        mism = ('valid', exp_new, valid)
    elif t is not None:
        got = []
        ok = True
        for st in t.body:
            if not (isinstance(st, ast.Expr) and isinstance(st.value, ast.Name) and set(st.value.id) == {'a'}
                    and st.lineno == st.end_lineno):
                ok = False
                break
            got.append([st.lineno - 1, st.col_offset, st.end_col_offset])
        if not ok or got != [list(n) for n in names]:
            mism = ('tree', exp_new, names, got)
    root = FST(src, 'exec')
    init = rec.state(root, 'exec')
    plan = {'call': 'put_src', 'rect': list(rect), 'repl': rp, 'gen': 'table'}
    exc = execute(root, plan)
    post = rec.state(root, 'exec')
    ev = make_event(rec, plan, src, 'exec', post, exc)
    tr = {'id': tid, 'seed': 0, 'mode': 'exec', 'init': init, 'steps': [ev]}
    sc = {'driver': 'table', 'src': src, 'mode': 'exec', 'seed': 0, 'profile': 'table',
          'script': [{'plan': plan, 'pre_src': src, 'post_src': root.src,
                      'exc': None if exc is None else f'{type(exc).__name__}: {exc}'}]}
    return tr, sc, mism


# ----------------------------------------------------------------------------------------------------------------------
# C10-specific programs: shapes the statement-local reparser treats specially (statements that are not first on their
# line, multi-byte characters before them, wide indentation, elif chains, handlers, match cases, decorators)

EXTRA_PROGRAMS = [
    'ä = 1; b = f(ä); c = [b, ä]\nñ = "ü"; print(ñ, ä)\nif ä: ö = g(b); ü = ö + 1\nelse: ö = 0\n',
    'def f(é):\n    ß = é; r = h(ß, é)\n    if ß: return r + é\n    return é\nclass Ç: a = 1; b = (a, 2)\n',
    'if a: b = 1\nelse: b = 2\ndef f():\n        x = 1\n        if x: return x + 1\n        for i in x: y = i; z = y\n        return 0\n',
    'while a:\n        if b: c = d(e)\n        elif f: g = h[i]\n        else: j = k.l\n        try: m = n()\n        except E: o = p\n',
    'if a:\n    b = 1\nelif c:\n    d = 2\nelif e:\n    f = 3\nelse:\n    g = 4\nh = 5\n',
    'try:\n    a = 1\nexcept E as e:\n    b = 2\nexcept (F, G):\n    c = 3\nelse:\n    d = 4\nfinally:\n    e = 5\n',
    'match v:\n    case 1:\n        a = 1\n    case [x, y]:\n        b = x + y\n    case {"k": w}:\n        c = w\n    case _:\n        d = 0\n',
    '@dec\n@dec2(arg)\ndef f(a, b=1):\n    return a + b\n\n@cd\nclass C(B):\n    x = 1\n    def m(self):\n        return self.x\n',
    'with a as b: c = b; d = c\nfor i in j: k = i\nx = (1,\n     2); y = x\n',
    'def g():\n    """doc"""\n    α = 1  # α\n    β = α + 1; γ = β * 2  # βγ\n    return γ\n',
    'def z(a, c, e):\n    if a:\n        b = 1\n    elif c:\n        d = 2\n    elif e:\n        f = 3\n',
    'class K:\n    def m(s):\n        if s.a: return 1\n        elif s.b: return 2\n        elif s.c: return 3\n        elif s.d: return 4\n',
    'x = 0\nif x == 1:\n    y = 1\nelif x == 2:\n    y = 2\nelif x == 3:\n    y = 3\nelif x == 4:\n    y = 4',
]



# ----------------------------------------------------------------------------------------------------------------------
# Inline statements after multi-byte text, holding multi-line nodes.  fst_raw corrects the byte-vs-character column of
# the first re-parsed line separately for nodes that start / end there (first_line_col_delta); this family makes every
# ordinary edit inside a statement exercise that path: the statement is not on line 0, not at column 0, has multi-byte
# characters before it on its own line (`"é"; x = ...`, `if é: x = ...`, `class Ç: x = ...`, `é = 1; x = ...`), and
# contains nodes that start on that line and end on a later one (parenthesised / bracketed displays, calls).

def _inline_programs():
    bodies = [  # {p} = padding that aligns continuation lines (any indentation is fine inside brackets)
        'x = (a,\n{p}b, c)', 'y = f(a,\n{p}b=2, *c)', 'z = [a, [b,\n{p}c], d]', 'w = {{k: v,\n{p}**d}}',
        't = h(a, (b,\n{p}c))(d,\n{p}e)', 'u = (a +\n{p}b * c)', 'v = g(a)[i,\n{p}j].k(\n{p}m)', 'r = [i for i in (a,\n{p}b)\n{p}if i]',
        'return_ = not (a and\n{p}b)', 's = lam(lambda p, q=(1,\n{p}2): p)', 'o = {{a,\n{p}b}} | {{c}}', 'n: T = (a,\n{p}b)',
        'm += f(a)(\n{p}b)', 'del l[a:\n{p}b], k[(c,\n{p}d)]', 'assert (a,\n{p}b), c', 'q(a, *(b,\n{p}c), **e)',
    ]
    heads = ['"\u00e9"; ', '\u00e9 = 1; ', 'if \u00e9: ', 'class \u00c7: ', 'while \u00f1\u00f6: ', 'with \u00e4 as \u00fc: ', '\u00df; \u03b1 = 2; ',
             'for \u00e9 in \u4e2d\u6587: ', "'\u65e5\u672c'; ", 'try: \u00e9 = "\u00fc"; ']
    progs = []
    k = 0
    for depth_pattern in ([0, 0, 1, 1, 2], [1, 2, 0, 1, 0], [0, 1, 2, 2, 1], [2, 1, 0, 0, 1]):
        lines = ['first = 0']
        cur = 0
        for d in depth_pattern:
            # open / close enough blocks to be at depth d
            while cur < d:
                lines.append('    ' * cur + ('def f%d():' % k if cur == 0 else 'class C%d:' % k))
                lines.append('    ' * (cur + 1) + 'lead%d = %d' % (k, k))
                cur += 1
            cur = d
            head = heads[k % len(heads)]
            body = bodies[k % len(bodies)]
            ind = '    ' * d
            text = ind + head + body.format(p=ind + ' ' * (len(head) + 4))
            lines += text.split('\n')
            if head.startswith('try:'):
                lines.append(ind + 'finally: pass')
            k += 1
        lines.append('last = 1')
        progs.append('\n'.join(lines) + '\n')
    # more rows so that every head meets several bodies
    for shift in (3, 7, 11):
        lines = ['first = 0', 'def g%d():' % shift, '    lead = 0']
        for i in range(6):
            head = heads[(i * 3 + shift) % len(heads)]
            body = bodies[(i * 5 + shift) % len(bodies)]
            ind = '    ' if i % 2 == 0 else ''
            text = ind + head + body.format(p=ind + ' ' * (len(head) + 4))
            if ind:
                lines += text.split('\n')
                if head.startswith('try:'):
                    lines.append(ind + 'finally: pass')
        for i in range(6):
            head = heads[(i * 7 + shift + 1) % len(heads)]
            body = bodies[(i * 3 + shift + 2) % len(bodies)]
            text = head + body.format(p=' ' * (len(head) + 4))
            lines += text.split('\n')
            if head.startswith('try:'):
                lines.append('finally: pass')
        lines.append('last = 1')
        progs.append('\n'.join(lines) + '\n')
    for p in progs:
        ast.parse(p)
    return progs


INLINE_PROGRAMS = _inline_programs()


# ----------------------------------------------------------------------------------------------------------------------
# direction G, second table: header-confined edits enumerated by RawHdrGen.tla

def run_hdr_row(rec: RawRecorder, tid: int, row):
    """row = [text, rect, repl, mustBeInvalid, case] as built by RawHdrGen.tla.  Executes put_src on pfst, records the
    event for RawTrace and cross-checks the spec's one-directional prediction (mustBeInvalid => ast.parse rejects)."""
    text, rect, repl, must_invalid, case = row
    src, rp = _s(text), _s(repl)
    new = splice(src, rect, rp)
    mism = None
    if try_parse(src, 'exec') is None:
        mism = ('program-invalid', src)
    elif must_invalid and try_parse(new, 'exec') is not None:
        mism = ('predicted-invalid-but-valid', new, case)
    root = FST(src, 'exec')
    init = rec.state(root, 'exec')
    plan = {'call': 'put_src', 'rect': list(rect), 'repl': rp, 'gen': 'hdrtable'}
    exc = execute(root, plan)
    post = rec.state(root, 'exec')
    ev = make_event(rec, plan, src, 'exec', post, exc)
    tr = {'id': tid, 'seed': 0, 'mode': 'exec', 'init': init, 'steps': [ev]}
    sc = {'driver': 'hdrtable', 'src': src, 'mode': 'exec', 'seed': 0, 'profile': 'hdrtable', 'case': case,
          'script': [{'plan': plan, 'pre_src': src, 'post_src': root.src,
                      'exc': None if exc is None else f'{type(exc).__name__}: {exc}'}]}
    return tr, sc, mism


def run_inl_row(rec: RawRecorder, tid: int, row):
    """row of RawInlGen.tla (inline positions x simple->compound rewrites); same protocol as run_hdr_row"""
    tr, sc, mism = run_hdr_row(rec, tid, row)
    tr['steps'][0]['gen'] = 'inltable'
    sc['driver'] = sc['profile'] = 'inltable'
    return tr, sc, mism
