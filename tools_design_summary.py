#!/usr/bin/env python3
"""Regenerate DESIGN.md section 9.5 (what each check runs) from evidence/*.json of the last quick runs."""
import glob, json, re, os
os.chdir(os.path.dirname(os.path.abspath(__file__)))
rows = []
for fn in sorted(glob.glob('evidence/C*.json')):
    e = json.load(open(fn)); c = e['coverage']
    mods = {}
    for m in c.get('models', []):
        k = (m.get('module'), m.get('kind', 'model-check'))
        d = mods.setdefault(k, {'n': 0, 'distinct': 0, 'rows': 0, 'traces': 0})
        def num(x):
            return x if isinstance(x, (int, float)) else (len(x) if isinstance(x, (list, dict)) else 0)
        d['n'] += 1; d['distinct'] += num(m.get('distinct', 0)); d['rows'] += num(m.get('rows', 0))
        d['traces'] += num(m.get('traces', 0))
    ms = []
    for (mod, kind), d in sorted(mods.items(), key=lambda kv: str(kv[0])):
        if kind == 'trace-validation':
            ms.append(f'{mod} (validates {d["traces"]} traces)')
        elif kind == 'case-table':
            ms.append(f'{mod} (emits {d["rows"]} cases)')
        else:
            ms.append(f'{mod} ({d["distinct"]} distinct states)')
    cl = c.get('clauses_evaluated', {})
    cls = ', '.join(f'{k} x{v}' for k, v in sorted(cl.items(), key=lambda kv: -kv[1])[:14])
    rows.append(f'| {e["property_id"]} | {"; ".join(ms)} | {c["traces_validated_against_impl"]} traces / {c["evaluations"]} events, '
                f'{c["states"]} TLC states, {e["wall_s"]} s | {cls} |')
tab = ('| property | TLA+ modules run by TLC (quick tier) | volume of the last quick run | clauses evaluated by TLC (count) |\n'
       '|---|---|---|---|\n' + '\n'.join(rows))
s = open('DESIGN.md').read()
B, E = '<!-- BEGIN GENERATED SUMMARY -->', '<!-- END GENERATED SUMMARY -->'
if B not in s:
    s += ('\n### 9.5 What each check runs (generated from evidence/*.json of the last quick run)\n\n'
          'Every verdict is a clause evaluated by TLC in a trace-validation module over an event recorded from the real '
          'code (or a TLC-generated case replayed into it); the model-checked modules share their operators with the '
          'trace modules. `./tools_design_summary.py` regenerates the table.\n\n' + B + '\n' + E + '\n')
s = re.sub(re.escape(B) + '.*?' + re.escape(E), lambda m: B + '\n' + tab + '\n' + E, s, flags=re.S)
open('DESIGN.md', 'w').write(s)
print('summary regenerated', len(rows))
