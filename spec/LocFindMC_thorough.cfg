SPECIFICATION Spec
CONSTANTS
  MaxN = 5
  G = 3
  AllowEmpty = TRUE
INVARIANTS ScopeIsRun WellDefined InRefines ContainsRefines LocRefines TopDeviation LocTopDeviation LocWeakest ContainsTopWeak
CHECK_DEADLOCK FALSE
