SPECIFICATION Spec
CONSTANTS
  MaxN = 5
  G = 3
  AllowEmpty = TRUE
INVARIANTS ScopeIsRun WellDefined InRefines ContainsRefines LocRefines
CHECK_DEADLOCK FALSE
