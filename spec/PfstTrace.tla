------------------------------ MODULE PfstTrace -----------------------------
(* Trace validation: every recorded execution of the real pfst must be a      *)
(* behaviour of the specification.  Verdicts are total: the next-state        *)
(* relation is always enabled, failing clauses are accumulated per trace and  *)
(* printed once ("VERDICT", trace id, failed <<step, clause>> pairs, clause   *)
(* names evaluated).                                                          *)
EXTENDS EditLaws, TLC

VARIABLES tid, l, st, prev, bad, seen
vars == <<tid, l, st, prev, bad, seen>>

Steps(t) == Traces[t].steps

(* C12: the first successful edit after a failed one must be a normal edit   *)
(* i.e. behave exactly as on a tree freshly built from the same source (the  *)
(* harness runs the same request on such a clone and logs its outcome/text)  *)
AfterRaise(s, e) ==
  IF prev = "raise" /\ e.call = "edit" /\ e.hasClean
  THEN {Cl("NextEditAfterRaise", e.outcome = e.clean.outcome /\ e.post.text = e.clean.text /\ e.post.reg)}
  ELSE {}

(* other edits of C01's list: put_docstr / put_line_comment / par().  They are  *)
(* edits (Sync, RootIdentity, atomic on raise) that leave the structure alone   *)
(* (comments, parentheses) or change only the docstring statement of `body`.    *)
(* put_docstr(None) on a body that holds nothing but the docstring leaves an    *)
(* empty block: the statement-deletion analogue of BelowMin (d06: "invalid AST *)
(* nodes ... allowed with the understanding that valid data will be replaced"). *)
MiscBelowMin(s, e) ==
  /\ e.op = "put_docstr" /\ e.arg = "None"
  /\ Kind(NodeAt(s.liveS, e.path)) # "Module"
  /\ Len(FieldSeq(NodeAt(s.liveS, e.path), "body")) <= 1

MiscClauses(s, e) ==
  LET t == e.post IN
  IF e.outcome = "ok"
  THEN { Cl("RootIdentity", t.rootObj = s.rootObj), Cl("RegistryQuiescent", t.reg) }
       \cup (IF Sync(s) /\ ~MiscBelowMin(s, e) THEN {Cl("Sync", Sync(t))} ELSE {})
       \cup (IF e.op \in {"put_line_comment", "par", "unpar"} THEN {Cl("NothingElse", t.liveS = s.liveS)}
             ELSE IF e.op = "put_docstr" THEN {Cl("NothingElse", OnlyChangedAt(s.liveS, t.liveS, e.path, {"body"}))}
             ELSE IF e.op = "prim_put"
                  THEN {Cl("NothingElse", OnlyChangedAt(s.liveS, t.liveS, e.path,
                                                        \* Constant.kind ('u' prefix) is a function of the literal's text
                                                        {e.field} \cup (IF e.field = "value" THEN {"kind"} ELSE {})))}
             ELSE {})
  ELSE { Cl("AtomicOnRaise.tree", t.liveP = s.liveP /\ t.liveS = s.liveS), Cl("AtomicOnRaise.text", t.text = s.text),
         Cl("AtomicOnRaise.srcparse", t.srcOk = s.srcOk /\ t.srcP = s.srcP),
         Cl("RootIdentity", t.rootObj = s.rootObj), Cl("RegistryQuiescent", t.reg) }

Clauses(s, e) ==
  CASE e.call = "edit" -> EditClauses(s, e) \cup AfterRaise(s, e)
    [] e.call = "misc" -> MiscClauses(s, e)
    [] OTHER -> {Cl("UnknownEvent", FALSE)}

ClassOf(s, e) ==
  CASE e.call = "edit" -> EditClass(s, e)
    [] e.call = "misc" -> Kind(NodeAt(s.liveS, e.path)) \o "/" \o e.op
    [] OTHER -> "?"

Init == /\ tid \in 1..Len(Traces)
        /\ l = 1
        /\ st = Traces[tid].init
        /\ prev = "init"
        /\ bad = {}
        /\ seen = {}

Next == /\ l <= Len(Steps(tid))
        /\ LET e == Steps(tid)[l]
               cs == Clauses(st, e)
           IN /\ bad' = bad \cup {<<l, r.c, ClassOf(st, e)>> : r \in {q \in cs : ~q.ok}}
              /\ seen' = seen \cup {r.c : r \in cs}
              /\ st' = e.post
              /\ prev' = e.outcome
        /\ l' = l + 1
        /\ UNCHANGED tid

Spec == Init /\ [][Next]_vars

Report == (l = Len(Steps(tid)) + 1) => PrintT(<<"VERDICT", Traces[tid].id, bad, seen>>)
=============================================================================
