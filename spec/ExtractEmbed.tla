---------------------------- MODULE ExtractEmbed ----------------------------
(* How a stand-alone piece returned by copy()/cut()/get()/get_slice() is      *)
(* handed to CPython's parser ("parses on its own").  For every kind of root  *)
(* a sequence of alternatives [pre, post, path, indent, mode, bare]:          *)
(*   text given to CPython = pre \o body \o post, body = the piece's source    *)
(*   (with indent = 1 every logical line gets one leading blank);              *)
(*   path leads from the parse result to the node that stands for the piece;   *)
(*   for pfst's special slice containers (which are not CPython node classes)  *)
(*   it leads to the construct the elements come from and SpecialField /       *)
(*   EmbField name the fields holding the elements;                            *)
(*   bare = the embedding adds no enclosing bracket (no implicit line joining) *)
(* The harness receives this table from TLC (ExtractMC emits it as JSON) and   *)
(* uses the first alternative that parses; it reports the index in res.alt.    *)
EXTENDS Integers, Sequences, FiniteSets

Stmts == {"FunctionDef", "AsyncFunctionDef", "ClassDef", "Return", "Delete", "Assign", "TypeAlias", "AugAssign",
          "AnnAssign", "For", "AsyncFor", "While", "If", "With", "AsyncWith", "Match", "Raise", "Try", "TryStar",
          "Assert", "Import", "ImportFrom", "Global", "Nonlocal", "Expr", "Pass", "Break", "Continue"}
Exprs == {"BoolOp", "NamedExpr", "BinOp", "UnaryOp", "Lambda", "IfExp", "Dict", "Set", "ListComp", "SetComp",
          "DictComp", "GeneratorExp", "Await", "Yield", "YieldFrom", "Compare", "Call", "FormattedValue", "JoinedStr",
          "Constant", "Attribute", "Subscript", "Starred", "Name", "List", "Tuple", "Slice"}
Patterns == {"MatchValue", "MatchSingleton", "MatchSequence", "MatchMapping", "MatchClass", "MatchStar", "MatchAs",
             "MatchOr"}
Operators == {"Add", "Sub", "Mult", "MatMult", "Div", "Mod", "Pow", "LShift", "RShift", "BitOr", "BitXor", "BitAnd",
              "FloorDiv"}
BoolOps  == {"And", "Or"}
UnaryOps == {"Invert", "Not", "UAdd", "USub"}
CmpOps   == {"Eq", "NotEq", "Lt", "LtE", "Gt", "GtE", "Is", "IsNot", "In", "NotIn"}
TypeParams == {"TypeVar", "ParamSpec", "TypeVarTuple"}
Specials == {"_ExceptHandlers", "_match_cases", "_Assign_targets", "_decorator_list", "_arglikes", "_comprehensions",
             "_comprehension_ifs", "_aliases", "_withitems", "_type_params", "_pattern_attrlikes"}
StmtLike == Stmts \cup {"ExceptHandler", "match_case"}

P(n, i) == [n |-> n, i |-> i]
Alt(pre, post, path, indent, mode, bare) ==
  [pre |-> pre, post |-> post, path |-> path, indent |-> indent, mode |-> mode, bare |-> bare]

B1   == P("body", 1)
Case == <<B1, P("cases", 1), P("pattern", 1)>>

EmbedOf(k) ==
  CASE k = "Module" -> <<Alt("", "", <<>>, 0, "exec", TRUE)>>
    [] k \in Stmts  -> <<Alt("", "", <<B1>>, 0, "exec", TRUE)>>
    (* unparenthesised tuples and slices keep their own extent inside a subscript; inside parentheses CPython     *)
    (* would count the parentheses into the tuple                                                                *)
    [] k = "Tuple"   -> <<Alt("", "", <<B1>>, 0, "eval", TRUE), Alt("_[\n", "\n]", <<B1, P("slice", 1)>>, 0, "eval", FALSE)>>
    [] k = "Slice"   -> <<Alt("_[\n", "\n]", <<B1, P("slice", 1)>>, 0, "eval", FALSE)>>
    (* a Starred (and the arglike-only forms `*not a`) is an expression only as a call argument                   *)
    [] k = "Starred" -> <<Alt("_(\n", "\n)", <<B1, P("args", 1)>>, 0, "eval", FALSE)>>
    [] k \in Exprs   -> <<Alt("", "", <<B1>>, 0, "eval", TRUE), Alt("(\n", "\n)", <<B1>>, 0, "eval", FALSE)>>
    [] k = "MatchStar" -> <<Alt("match _:\n case [\n", "\n ]: pass", Case \o <<P("patterns", 1)>>, 0, "exec", FALSE)>>
    [] k \in Patterns -> <<Alt("match _:\n case ", ": pass", Case, 0, "exec", TRUE),
                           Alt("match _:\n case (\n", "\n ): pass", Case, 0, "exec", FALSE)>>
    [] k \in Operators -> <<Alt("_ ", " _", <<B1, P("op", 1)>>, 0, "eval", TRUE),
                            Alt("_ ", " _", <<B1, P("op", 1)>>, 0, "exec", TRUE)>>
    [] k \in BoolOps  -> <<Alt("_ ", " _", <<B1, P("op", 1)>>, 0, "eval", TRUE)>>
    [] k \in UnaryOps -> <<Alt("", " _", <<B1, P("op", 1)>>, 0, "eval", TRUE)>>
    [] k \in CmpOps   -> <<Alt("_ ", " _", <<B1, P("ops", 1)>>, 0, "eval", TRUE)>>
    [] k = "arguments" -> <<Alt("def _(\n", "\n): pass", <<B1, P("args", 1)>>, 0, "exec", FALSE),
                            Alt("lambda ", ": _", <<B1, P("args", 1)>>, 0, "eval", TRUE)>>
    [] k = "arg"     -> <<Alt("def _(\n", "\n): pass", <<B1, P("args", 1), P("args", 1)>>, 0, "exec", FALSE)>>
    [] k = "keyword" -> <<Alt("_(\n", "\n)", <<B1, P("keywords", 1)>>, 0, "eval", FALSE)>>
    [] k = "alias"   -> <<Alt("from . import (\n", "\n)", <<B1, P("names", 1)>>, 0, "exec", FALSE),
                          Alt("from . import ", "", <<B1, P("names", 1)>>, 0, "exec", TRUE),
                          Alt("import ", "", <<B1, P("names", 1)>>, 0, "exec", TRUE)>>
    [] k = "withitem" -> <<Alt("with (\n", "\n): pass", <<B1, P("items", 1)>>, 0, "exec", FALSE),
                           Alt("with ", ": pass", <<B1, P("items", 1)>>, 0, "exec", TRUE)>>
    [] k = "comprehension" -> <<Alt("[_ \n", "\n]", <<B1, P("generators", 1)>>, 0, "eval", FALSE)>>
    [] k = "ExceptHandler" -> <<Alt("try: pass\n", "", <<B1, P("handlers", 1)>>, 0, "exec", TRUE)>>
    [] k = "match_case"    -> <<Alt("match _:\n", "", <<B1, P("cases", 1)>>, 1, "exec", TRUE)>>
    [] k \in TypeParams    -> <<Alt("type _[\n", "\n] = _", <<B1, P("type_params", 1)>>, 0, "exec", FALSE)>>
    [] k = "_ExceptHandlers" -> <<Alt("try: pass\n", "", <<B1>>, 0, "exec", TRUE)>>
    [] k = "_match_cases"    -> <<Alt("match _:\n", "", <<B1>>, 1, "exec", TRUE)>>
    [] k = "_Assign_targets" -> <<Alt("", " _", <<B1>>, 0, "exec", TRUE)>>
    [] k = "_decorator_list" -> <<Alt("", "\ndef _(): pass", <<B1>>, 0, "exec", TRUE)>>
    [] k = "_arglikes"       -> <<Alt("_(\n", "\n)", <<B1>>, 0, "eval", FALSE)>>
    [] k = "_comprehensions" -> <<Alt("[_ \n", "\n]", <<B1>>, 0, "eval", FALSE)>>
    [] k = "_comprehension_ifs" -> <<Alt("[_ for _ in _ \n", "\n]", <<B1, P("generators", 1)>>, 0, "eval", FALSE)>>
    [] k = "_aliases"   -> <<Alt("from . import (\n", "\n)", <<B1>>, 0, "exec", FALSE),
                             Alt("from . import ", "", <<B1>>, 0, "exec", TRUE), Alt("import ", "", <<B1>>, 0, "exec", TRUE)>>
    [] k = "_withitems" -> <<Alt("with (\n", "\n): pass", <<B1>>, 0, "exec", FALSE), Alt("with ", ": pass", <<B1>>, 0, "exec", TRUE)>>
    [] k = "_type_params" -> <<Alt("type _[\n", "\n] = _", <<B1>>, 0, "exec", FALSE)>>
    [] k = "_pattern_attrlikes" -> <<Alt("match _:\n case C(\n", "\n ): pass", Case, 0, "exec", FALSE)>>
    [] OTHER -> <<>>

AllKinds == {"Module"} \cup Stmts \cup Exprs \cup Patterns \cup Operators \cup BoolOps \cup UnaryOps \cup CmpOps
            \cup TypeParams \cup Specials
            \cup {"arguments", "arg", "keyword", "alias", "withitem", "comprehension", "ExceptHandler", "match_case"}

(* field of a special slice container that holds its elements, and the field(s) of the embedding construct that   *)
(* hold the same elements (`_arglikes`: args and keywords merged by position; `_pattern_attrlikes`: three fields) *)
SpecialField(k) ==
  CASE k = "_ExceptHandlers" -> "handlers" [] k = "_match_cases" -> "cases" [] k = "_Assign_targets" -> "targets"
    [] k = "_decorator_list" -> "decorator_list" [] k = "_arglikes" -> "arglikes" [] k = "_comprehensions" -> "generators"
    [] k = "_comprehension_ifs" -> "ifs" [] k = "_aliases" -> "names" [] k = "_withitems" -> "items"
    [] k = "_type_params" -> "type_params" [] k = "_pattern_attrlikes" -> "patterns" [] OTHER -> ""

=============================================================================
