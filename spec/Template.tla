------------------------------ MODULE Template ------------------------------
(* C18 - the reference transformer of sub()/subn() as a RELATION.             *)
(*                                                                            *)
(* TLC cannot build new hash-consed nodes, so "the result of replacing, in a  *)
(* pure AST, each selected match by the template with every tag slot filled   *)
(* by the captured node or slice" is stated as a relation Rel(x, y) between   *)
(* the pre tree x and a candidate post tree y.  The relation is functional    *)
(* (TemplateMC checks this on all small trees): it walks x and y in lock      *)
(* step, and where x has a selected match it walks the TEMPLATE against y,    *)
(* replacing every slot of the template by the captured node(s).              *)
(*                                                                            *)
(* The module is generic in the node universe (constant operators), so that   *)
(* the same definitions are model-checked on abstract trees (TemplateMC) and  *)
(* evaluated on the hash-consed tables of recorded executions of the real     *)
(* pfst (TemplateTrace).                                                      *)
(*                                                                            *)
(* A case K is a record                                                       *)
(*   T      : Seq(node)   top-level nodes of the template (1 expression, or   *)
(*                         the statements of the template)                    *)
(*   M      : Seq(match)  match = [p : path, x : node at p, caps : Seq(cap)]  *)
(*                         cap = [tag, t : "node"|"seq"|"missing",            *)
(*                                cat : element category,                     *)
(*                                el : Seq(element)]                          *)
(*                         element = Seq([s : node, p : path, h : BOOLEAN])   *)
(*                           (one component per AST node of the element: 1,   *)
(*                            or 2 = <<key, value>> for Dict pairs; h = FALSE *)
(*                            for an absent component, e.g. the key of **d)   *)
(*   Sel    : SUBSET DOMAIN M   the selected matches                          *)
(*   nested : BOOLEAN     captured nodes are themselves transformed           *)
(* A path is a sequence of [n |-> field, i |-> 1-based index].                *)
EXTENDS Integers, Sequences, FiniteSets

CONSTANTS NKind(_),          \* node -> kind
          NVal(_),           \* node -> primitive value ("" for AST nodes)
          NFields(_),        \* node -> Seq([n |-> field name, c |-> Seq(node)])
          NoNode,            \* the absent node (None)
          SlotTag(_),        \* node -> tag if the node is a slot marker __FST_<tag>, "-" otherwise
          IsListField(_, _), \* (kind, field) -> the field is a list field
          KindCat(_),        \* kind -> "stmt" | "expr" | "keyword" | "withitem" | "arguments" | "other"
          Dots(_)            \* node -> it is the string constant '...' (pair-slot marker)

(* ------------------------------------------------------------------------ *)
IsPrefix(p, q) == Len(p) <= Len(q) /\ SubSeq(q, 1, Len(p)) = p
SelAt(K, p)       == {m \in K.Sel : K.M[m].p = p}
Below(K, p)       == \E m \in K.Sel : IsPrefix(p, K.M[m].p)
BelowStrict(K, p) == \E m \in K.Sel : IsPrefix(p, K.M[m].p) /\ Len(K.M[m].p) > Len(p)

RECURSIVE Flatten(_)
Flatten(ss) == IF ss = <<>> THEN <<>> ELSE Head(ss) \o Flatten(Tail(ss))

FieldC(x, fn) == LET F == NFields(x)  I == {i \in 1..Len(F) : F[i].n = fn}
                 IN IF I = {} THEN <<>> ELSE F[CHOOSE i \in I : TRUE].c
ValueOf(x, fn) == LET c == FieldC(x, fn) IN IF Len(c) = 1 THEN c[1] ELSE NoNode

Missing(g) == [tag |-> g, t |-> "missing", cat |-> "none", el |-> <<>>]
CapOf(K, m, g) == LET C == K.M[m].caps  I == {i \in 1..Len(C) : C[i].tag = g}
                  IN IF I = {} THEN Missing(g) ELSE C[CHOOSE i \in I : TRUE]
(* the whole-match slot behaves as a single-node capture of the match itself *)
CapCat(K, m, g) == IF g = "" THEN KindCat(NKind(K.M[m].x)) ELSE CapOf(K, m, g).cat
CapT(K, m, g)   == IF g = "" THEN "node" ELSE CapOf(K, m, g).t

(* items: what one position of the expected result has to be                *)
Fix(x)          == [t |-> "fix",  x |-> x, p |-> <<>>, skip |-> FALSE, m |-> 0]
Rec(x, p, skip) == [t |-> "rec",  x |-> x, p |-> p,    skip |-> skip,  m |-> 0]
Tmpl(x, m)      == [t |-> "tmpl", x |-> x, p |-> <<>>, skip |-> FALSE, m |-> m]

(* ------------------------------------------------------------------------ *)
(* Slot analysis of the template.  Where a slot sits decides what is put:     *)
(*   - a Name `__FST_tag` anywhere an expression can be (ExprSlot);           *)
(*   - named slot forms that stand for a non-expression element:              *)
(*       StmtSlot   an expression statement consisting of the slot, when the  *)
(*                  capture is statement-like (statement, body slice, absent) *)
(*       WithSlot   `with __FST_t:` item without `as`, capture = with items   *)
(*       PairSlot   `'...': __FST_t` in a Dict, capture = key:value pairs     *)
PairSlotAt(t, j) == LET k == FieldC(t, "keys")  v == FieldC(t, "values")
                    IN /\ NKind(t) = "Dict" /\ j <= Len(k) /\ j <= Len(v)
                       /\ Dots(k[j]) /\ SlotTag(v[j]) # "-"

StmtLike(K, m, g) == CapT(K, m, g) = "missing" \/ CapCat(K, m, g) = "stmt"
WithLike(K, m, g) == CapT(K, m, g) = "missing" \/ CapCat(K, m, g) = "withitem"

NoSlot == [g |-> "-", comp |-> 1, form |-> "none"]
SlotOf(K, m, t, fn, j, c) ==
  CASE SlotTag(c) # "-" /\ fn = "values" /\ PairSlotAt(t, j) -> [g |-> SlotTag(c), comp |-> 2, form |-> "pair"]
    [] SlotTag(c) # "-" /\ NKind(c) = "arg" -> [g |-> SlotTag(c), comp |-> 1, form |-> "args"]
    [] SlotTag(c) # "-" -> [g |-> SlotTag(c), comp |-> 1, form |-> "expr"]
    [] fn = "keys" /\ PairSlotAt(t, j) -> [g |-> SlotTag(FieldC(t, "values")[j]), comp |-> 1, form |-> "pair"]
    [] NKind(c) = "Expr" /\ SlotTag(ValueOf(c, "value")) # "-" /\ StmtLike(K, m, SlotTag(ValueOf(c, "value")))
         -> [g |-> SlotTag(ValueOf(c, "value")), comp |-> 1, form |-> "stmt"]
    [] NKind(c) = "withitem" /\ ValueOf(c, "optional_vars") = NoNode
         /\ SlotTag(ValueOf(c, "context_expr")) # "-" /\ WithLike(K, m, SlotTag(ValueOf(c, "context_expr")))
         -> [g |-> SlotTag(ValueOf(c, "context_expr")), comp |-> 1, form |-> "with"]
    [] OTHER -> NoSlot

(* named deviation FlattenSameOpBoolOp: a BoolOp put as an operand of a      *)
(* template BoolOp with the same operator is spliced, not nested             *)
(* (match.py: "results simpler to put as slice if same op"): `a and b` into  *)
(* `__FST_x and c` gives `a and b and c`, not `(a and b) and c`.  The pure    *)
(* reading (nested) is what the property literally says, so FillRel accepts  *)
(* both results there (the only place where the relation is not functional). *)
FlattenSameOpBoolOp(K, m, t, fn, g) ==
  /\ NKind(t) = "BoolOp" /\ fn = "values" /\ CapT(K, m, g) = "node"
  /\ LET x == IF g = "" THEN K.M[m].x ELSE CapOf(K, m, g).el[1][1].s
     IN NKind(x) = "BoolOp" /\ NKind(ValueOf(x, "op")) = NKind(ValueOf(t, "op"))

(* SpliceArguments: a parameter `__FST_tag` of a template `arguments` that    *)
(* receives an `arguments` node (e.g. the whole match of Marguments) stands    *)
(* for its parameters.  Modelled for PLAIN parameter lists only (positional-   *)
(* or-keyword parameters without defaults, no / * ** parts), where the result  *)
(* is simply the spliced `args` list; everything else (`args_as` coercions) is *)
(* outside the domain (SlotFits).                                             *)
PlainArgs(x) == /\ NKind(x) = "arguments"
                /\ FieldC(x, "posonlyargs") = <<>> /\ FieldC(x, "kwonlyargs") = <<>>
                /\ FieldC(x, "kw_defaults") = <<>> /\ FieldC(x, "defaults") = <<>>
                /\ ValueOf(x, "vararg") = NoNode /\ ValueOf(x, "kwarg") = NoNode
CapNode(K, m, g) == IF g = "" THEN [s |-> K.M[m].x, p |-> K.M[m].p] ELSE CapOf(K, m, g).el[1][1]
SpliceArguments(K, m, t, fn, g) ==
  /\ NKind(t) = "arguments" /\ fn = "args" /\ CapT(K, m, g) = "node"
  /\ NKind(CapNode(K, m, g).s) = "arguments"

RECURSIVE TopItems(_, _, _)
RECURSIVE CapItems(_, _, _, _, _)

(* one captured element component -> items.  Non-nested: the captured node   *)
(* itself.  Nested: the captured node is walked after the substitution, so   *)
(* matches inside it are substituted as well (a selected capture expands to   *)
(* its own filled template); the re-inserted match itself is not substituted  *)
(* again at its root (skip).                                                  *)
ElemItems(K, m, e, list) ==
  IF ~e.h THEN <<Fix(NoNode)>>
  ELSE IF ~K.nested THEN <<Fix(e.s)>>
  ELSE IF e.p = K.M[m].p THEN <<Rec(e.s, e.p, TRUE)>>
  ELSE IF SelAt(K, e.p) # {} THEN TopItems(K, CHOOSE mm \in SelAt(K, e.p) : TRUE, list)
  ELSE <<Rec(e.s, e.p, FALSE)>>

Children(K, m, x, p, fn, list) ==   \* the operands of a flattened BoolOp
  LET c == FieldC(x, fn)
  IN Flatten([i \in 1..Len(c) |-> ElemItems(K, m, [s |-> c[i], p |-> Append(p, [n |-> fn, i |-> i]), h |-> TRUE], list)])

CapItems(K, m, g, list, comp) ==
  IF g = "" THEN ElemItems(K, m, [s |-> K.M[m].x, p |-> K.M[m].p, h |-> TRUE], list)
  ELSE LET cap == CapOf(K, m, g) IN
       IF cap.t = "missing" THEN (IF list THEN <<>> ELSE <<Fix(NoNode)>>)
       ELSE Flatten([i \in 1..Len(cap.el) |->
                       ElemItems(K, m, cap.el[i][IF comp <= Len(cap.el[i]) THEN comp ELSE 1], list)])

SlotExpand(K, m, t, fn, j, c, list, flat) ==
  LET s == SlotOf(K, m, t, fn, j, c) IN
  IF s.g = "-" THEN <<Tmpl(c, m)>>
  ELSE IF flat /\ s.form = "expr" /\ FlattenSameOpBoolOp(K, m, t, fn, s.g)
       THEN LET e == IF s.g = "" THEN [s |-> K.M[m].x, p |-> K.M[m].p] ELSE CapOf(K, m, s.g).el[1][1]
            IN Children(K, m, e.s, e.p, "values", TRUE)
  ELSE IF s.form = "args" /\ SpliceArguments(K, m, t, fn, s.g)
       THEN Children(K, m, CapNode(K, m, s.g).s, CapNode(K, m, s.g).p, "args", TRUE)
  ELSE CapItems(K, m, s.g, list \/ s.form \in {"stmt", "with", "pair"}, s.comp)

RawFieldItems(K, m, t, fn, flat) ==
  LET c == FieldC(t, fn)  l == IsListField(NKind(t), fn)
  IN Flatten([j \in 1..Len(c) |-> SlotExpand(K, m, t, fn, j, c[j], l, flat)])

(* Call / ClassDef: positional arguments and keywords are one syntactic       *)
(* sequence (`_args`, `_bases`); a captured keyword put into a slot among the *)
(* positional arguments lands in `keywords`, before the template's own        *)
(* keywords (a slot Name among the arguments always precedes them).           *)
IsKw(it) == it.t \in {"fix", "rec"} /\ NKind(it.x) = "keyword"
ArgField(t) == IF NKind(t) = "Call" THEN "args" ELSE "bases"
TmplFieldItems(K, m, t, fn, flat) ==
  IF NKind(t) \in {"Call", "ClassDef"} /\ fn = ArgField(t)
    THEN SelectSeq(RawFieldItems(K, m, t, fn, flat), LAMBDA it : ~IsKw(it))
  ELSE IF NKind(t) \in {"Call", "ClassDef"} /\ fn = "keywords"
    THEN SelectSeq(RawFieldItems(K, m, t, ArgField(t), flat), IsKw) \o RawFieldItems(K, m, t, "keywords", flat)
  ELSE RawFieldItems(K, m, t, fn, flat)

(* the template at the place of the match: `list` = the match is an element   *)
(* of a list field (several statements may then replace one)                  *)
TopItems(K, m, list) ==
  Flatten([j \in 1..Len(K.T) |->
             LET c == K.T[j] IN
             IF SlotTag(c) # "-" THEN CapItems(K, m, SlotTag(c), list, 1)
             ELSE IF NKind(c) = "Expr" /\ SlotTag(ValueOf(c, "value")) # "-"
                     /\ StmtLike(K, m, SlotTag(ValueOf(c, "value")))
                  THEN CapItems(K, m, SlotTag(ValueOf(c, "value")), list, 1)
             ELSE <<Tmpl(c, m)>>])

(* ------------------------------------------------------------------------ *)
(* The relation                                                               *)
SameShape(x, y) ==
  /\ NKind(x) = NKind(y) /\ NVal(x) = NVal(y) /\ Len(NFields(x)) = Len(NFields(y))
  /\ \A i \in 1..Len(NFields(x)) : NFields(x)[i].n = NFields(y)[i].n

RECURSIVE Rel(_, _, _, _, _)
RECURSIVE FillRel(_, _, _, _)
RECURSIVE NodeRel(_, _, _, _)

ItemRel(K, it, y) ==
  CASE it.t = "fix"  -> y = it.x
    [] it.t = "rec"  -> Rel(K, it.x, y, it.p, it.skip)
    [] it.t = "tmpl" -> FillRel(K, it.x, y, it.m)
    [] OTHER -> FALSE
ItemsRel(K, its, ys) == Len(its) = Len(ys) /\ \A j \in 1..Len(its) : ItemRel(K, its[j], ys[j])

(* y is the template node t with its slots filled from match m                *)
FillRel(K, t, y, m) ==
  /\ SameShape(t, y)
  /\ \E flat \in (IF NKind(t) = "BoolOp" THEN {TRUE, FALSE} ELSE {TRUE}) :
       \A i \in 1..Len(NFields(t)) :
         ItemsRel(K, TmplFieldItems(K, m, t, NFields(t)[i].n, flat), NFields(y)[i].c)

PreItems(K, x, p, f) ==
  Flatten([j \in 1..Len(f.c) |->
             LET q == Append(p, [n |-> f.n, i |-> j])  s == SelAt(K, q) IN
             IF s # {} THEN TopItems(K, CHOOSE m \in s : TRUE, IsListField(NKind(x), f.n))
             ELSE <<Rec(f.c[j], q, FALSE)>>])

(* x is not selected itself: same label, children related                     *)
NodeRel(K, x, y, p) ==
  /\ SameShape(x, y)
  /\ \A i \in 1..Len(NFields(x)) : ItemsRel(K, PreItems(K, x, p, NFields(x)[i]), NFields(y)[i].c)

(* TemplateRel: y is the result of the reference transformer on x (at path p) *)
Rel(K, x, y, p, skip) ==
  IF skip THEN (IF BelowStrict(K, p) THEN NodeRel(K, x, y, p) ELSE x = y)
  ELSE IF ~Below(K, p) THEN x = y           \* nodes that did not match are structurally unchanged
  ELSE IF SelAt(K, p) # {} THEN ItemsRel(K, TopItems(K, CHOOSE m \in SelAt(K, p) : TRUE, FALSE), <<y>>)
  ELSE NodeRel(K, x, y, p)

TemplateRel(K, x, y) == Rel(K, x, y, <<>>, FALSE)

(* ------------------------------------------------------------------------ *)
(* number of substitutions the reference transformer performs                 *)
RECURSIVE Sum(_)
Sum(s) == IF s = <<>> THEN 0 ELSE Head(s) + Sum(Tail(s))

RECURSIVE Count(_, _, _, _)
RECURSIVE TopCount(_, _)
RECURSIVE FillCount(_, _, _)

ElemCount(K, m, e) ==
  IF ~e.h \/ ~K.nested THEN 0
  ELSE IF e.p = K.M[m].p THEN Count(K, e.s, e.p, TRUE)
  ELSE Count(K, e.s, e.p, FALSE)

CapCount(K, m, g, comp) ==
  IF g = "" THEN ElemCount(K, m, [s |-> K.M[m].x, p |-> K.M[m].p, h |-> TRUE])
  ELSE LET cap == CapOf(K, m, g) IN
       Sum([i \in 1..Len(cap.el) |-> ElemCount(K, m, cap.el[i][IF comp <= Len(cap.el[i]) THEN comp ELSE 1])])

SlotCount(K, m, t, fn, j, c) ==
  LET s == SlotOf(K, m, t, fn, j, c) IN
  IF s.g = "-" THEN FillCount(K, c, m)
  ELSE IF s.form = "expr" /\ FlattenSameOpBoolOp(K, m, t, fn, s.g)
       THEN LET e == IF s.g = "" THEN [s |-> K.M[m].x, p |-> K.M[m].p] ELSE CapOf(K, m, s.g).el[1][1]
                v == FieldC(e.s, "values")
            IN IF K.nested THEN Sum([i \in 1..Len(v) |-> Count(K, v[i], Append(e.p, [n |-> "values", i |-> i]), FALSE)])
               ELSE 0
  ELSE CapCount(K, m, s.g, s.comp)

FillCount(K, t, m) ==
  Sum([i \in 1..Len(NFields(t)) |->
         LET f == NFields(t)[i] IN Sum([j \in 1..Len(f.c) |-> SlotCount(K, m, t, f.n, j, f.c[j])])])

TopCount(K, m) ==
  Sum([j \in 1..Len(K.T) |->
         LET c == K.T[j] IN
         IF SlotTag(c) # "-" THEN CapCount(K, m, SlotTag(c), 1)
         ELSE IF NKind(c) = "Expr" /\ SlotTag(ValueOf(c, "value")) # "-" /\ StmtLike(K, m, SlotTag(ValueOf(c, "value")))
              THEN CapCount(K, m, SlotTag(ValueOf(c, "value")), 1)
         ELSE FillCount(K, c, m)])

Count(K, x, p, skip) ==
  IF ~skip /\ SelAt(K, p) # {} THEN 1 + TopCount(K, CHOOSE m \in SelAt(K, p) : TRUE)
  ELSE IF ~BelowStrict(K, p) THEN 0
  ELSE Sum([i \in 1..Len(NFields(x)) |->
              LET f == NFields(x)[i] IN
              Sum([j \in 1..Len(f.c) |-> Count(K, f.c[j], Append(p, [n |-> f.n, i |-> j]), FALSE)])])

ExpCount(K, x) == Count(K, x, <<>>, FALSE)

(* ------------------------------------------------------------------------ *)
(* Selection (nested = False): the match set is static, selected = the        *)
(* outermost members in walk order, the first `count` of them                 *)
Outermost(M) == {m \in DOMAIN M : ~\E o \in DOMAIN M : o # m /\ IsPrefix(M[o].p, M[m].p)}
Antichain(M) == Outermost(M) = DOMAIN M

(* rank(m) = position of m in walk order among the candidates                *)
FirstN(cands, rank(_), n) == IF n <= 0 THEN cands ELSE {m \in cands : rank(m) <= n}

(* ------------------------------------------------------------------------ *)
(* Domain: every slot receives a capture of the class its position accepts.   *)
(* Outside this domain pfst coerces (e.g. a statement put where an expression *)
(* is expected, a slice put as one node) and the property's pure-AST reading  *)
(* does not say what the result is.                                           *)
SeqParents == {"List", "Tuple", "Set", "Call", "ClassDef"}

SlotFits(K, m, t, fn, s, list) ==
  LET ty == CapT(K, m, s.g)  cat == CapCat(K, m, s.g) IN
  IF ty = "missing" THEN TRUE
  ELSE CASE s.form = "pair" -> cat = "pair"
         [] s.form = "stmt" -> cat = "stmt"
         [] s.form = "with" -> cat = "withitem"
         [] s.form = "args" -> /\ ty = "node" /\ cat = "arguments" /\ fn = "args"
                               /\ PlainArgs(t) /\ PlainArgs(CapNode(K, m, s.g).s)
         [] OTHER ->
            IF ty = "node"
            THEN cat = "expr" \/ (cat = "keyword" /\ NKind(t) \in {"Call", "ClassDef"} /\ fn = ArgField(t))
            ELSE /\ list
                 /\ \/ cat = "expr" /\ NKind(t) \in SeqParents /\ fn \in {"elts", "args", "bases"}
                    \/ cat \in {"arglike", "keyword"} /\ NKind(t) \in {"Call", "ClassDef"} /\ fn = ArgField(t)

RECURSIVE FitNode(_, _, _)
FitNode(K, m, t) ==
  \A i \in 1..Len(NFields(t)) :
    LET f == NFields(t)[i] IN
    \A j \in 1..Len(f.c) :
      LET s == SlotOf(K, m, t, f.n, j, f.c[j]) IN
      IF s.g = "-" THEN FitNode(K, m, f.c[j])
      ELSE SlotFits(K, m, t, f.n, s, IsListField(NKind(t), f.n))

(* top level: the template (or its slot) stands where the match stood         *)
TopFits(K, m, list) ==
  \A j \in 1..Len(K.T) :
    LET c == K.T[j] IN
    IF SlotTag(c) # "-"
      THEN CapT(K, m, SlotTag(c)) = "missing" \/ (CapT(K, m, SlotTag(c)) = "node" /\ CapCat(K, m, SlotTag(c)) = "expr")
    ELSE IF NKind(c) = "Expr" /\ SlotTag(ValueOf(c, "value")) # "-" /\ StmtLike(K, m, SlotTag(ValueOf(c, "value")))
      THEN list
    ELSE FitNode(K, m, c)

(* slot occurrences of the template (for case classes)                        *)
RECURSIVE SlotOccs(_, _, _)
SlotOccs(K, m, t) ==
  UNION {UNION {LET f == NFields(t)[i]  s == SlotOf(K, m, t, f.n, j, f.c[j]) IN
                IF s.g = "-" THEN SlotOccs(K, m, f.c[j])
                ELSE {[g |-> s.g, k |-> NKind(t), fn |-> f.n, form |-> s.form,
                       flat |-> s.form = "expr" /\ FlattenSameOpBoolOp(K, m, t, f.n, s.g)]}
                : j \in 1..Len(NFields(t)[i].c)} : i \in 1..Len(NFields(t))}
TopOccs(K, m) == UNION {SlotOccs(K, m, K.T[j]) : j \in 1..Len(K.T)}
CapKinds(K, m, g) == IF g = "" THEN {NKind(K.M[m].x)}
                     ELSE LET el == CapOf(K, m, g).el IN {NKind(el[i][1].s) : i \in 1..Len(el)}

(* the template has the syntactic category of what it replaces                *)
CatFits(K, m) ==
  LET mc == KindCat(NKind(K.M[m].x)) IN
  /\ mc \in {"stmt", "expr", "arguments"}
  /\ \A j \in 1..Len(K.T) : KindCat(NKind(K.T[j])) = mc
  /\ (mc # "stmt" => Len(K.T) = 1)

SlotsFit(K, m, list) == CatFits(K, m) /\ TopFits(K, m, list)

(* A captured node that the template puts at its very top takes the place of  *)
(* the match: the walk has already entered that position and goes on with the *)
(* children, so whether that node is itself substituted is not determined by  *)
(* the match set of the original tree; such cases are validated step-wise.    *)
TopCapture(K) ==
  \E j \in 1..Len(K.T) :
    \/ SlotTag(K.T[j]) \notin {"-", ""}
    \/ NKind(K.T[j]) = "Expr" /\ SlotTag(ValueOf(K.T[j], "value")) \notin {"-", ""}

IdentityTemplate(K) ==
  /\ Len(K.T) = 1
  /\ \/ SlotTag(K.T[1]) = ""
     \/ NKind(K.T[1]) = "Expr" /\ SlotTag(ValueOf(K.T[1], "value")) = ""
=============================================================================
