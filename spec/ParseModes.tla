----------------------------- MODULE ParseModes ------------------------------
(* C05 - what "parsing a fragment in mode m" MEANS.                           *)
(*                                                                            *)
(* Every parse mode of pfst is defined here by a small table that is written  *)
(* from the Python grammar / ASDL (not from fst/parsex.py): a fragment F is    *)
(* valid for mode m iff, for some alternative embedding of Row(m).alts, the    *)
(* text  pre \o F \o suf  parses with CPython, the node at `path` exists, has  *)
(* an admitted kind, lies inside the region occupied by F, and everything off  *)
(* `path` is structurally identical to the embedding of the placeholder `ph`   *)
(* (no "wrapper escape": `a) + (b`, `x=1), g(y=2`, `a, b` where one element is *)
(* required, `: lambda` ...).  The expected tree is that sub-tree with all     *)
(* positions re-based to the fragment (Shift).                                 *)
(*                                                                            *)
(* Embeddings are TIGHT: a single element is sandwiched between placeholder    *)
(* siblings (`f(_=_, F , _=_)`), so that no stray leading/trailing separator   *)
(* is tolerated because of the wrapper; undelimited sequences (Tuple,          *)
(* MatchSequence) use a delimiter-only alternative with the Unwrap rule.       *)
(*                                                                            *)
(* pre  : prefix lines, the last one is glued in front of F's first line       *)
(* suf  : suffix lines, the first one is glued behind F's last line            *)
(*        => dLine = Len(pre)-1, dCol = Len(last line of pre) (ASCII)          *)
(* py   : CPython start symbol ("exec" | "eval" | "single")                    *)
(* ind  : every physical line of F that starts a logical line is indented by   *)
(*        this many blanks (match_case must live inside a block)               *)
(* join : F sits inside one logical line of a simple statement: its bare       *)
(*        newlines (bracket depth 0) are joined with backslashes, a comment    *)
(*        ending such a line is dropped (it would hide the continuation)       *)
(*        and the trivia behind its last token (blanks, comment, newline)      *)
(*        goes behind the suffix, where the statement's own trailing comment   *)
(*        is - this changes no position                                        *)
(* path : node modes: path to the node; list modes: path to the owner node     *)
(* ph   : placeholder fragment used for the outside-structure comparison       *)
(* only : kinds this alternative may produce ({} = all kinds of the mode)      *)
(* unwrap : the delimiters of the embedding may be counted by CPython into     *)
(*        the root's span (undelimited Tuple / MatchSequence): expected span   *)
(*        of the ROOT = first to last non-trivia token of F                    *)
(* noStar : the 3.11+ quirk `a[*b]` == `a[ (star b,) ]` does not count as a Tuple     *)
(* xdrop : list modes: this alternative has that many more leading placeholder *)
(*        elements than the row's `drop`                                       *)
(* same : the node must be structurally the placeholder's and span exactly     *)
(*        the fragment's tokens (only the `*` alias, which has no sandwich)    *)
EXTENDS Integers, Sequences, FiniteSets, TLC

P(n, i) == [n |-> n, i |-> i]

Alt(pre, suf, path, ph) ==
  [pre |-> pre, suf |-> suf, py |-> "exec", ind |-> 0, join |-> FALSE, path |-> path, ph |-> ph,
   only |-> {}, unwrap |-> FALSE, noStar |-> FALSE, same |-> FALSE, xdrop |-> 0]

Own(open, close, path, ph) == Alt(<<open, "">>, <<"", close>>, path, ph)      \* F on its own lines

B1   == <<P("body", 1)>>
EV   == <<P("body", 1), P("value", 1)>>
Case == <<P("body", 1), P("cases", 1), P("pattern", 1)>>

(* ------------------------------ kinds (ASDL of CPython 3.12) ---------------- *)
StmtKinds == {"FunctionDef", "AsyncFunctionDef", "ClassDef", "Return", "Delete", "Assign", "TypeAlias", "AugAssign",
              "AnnAssign", "For", "AsyncFor", "While", "If", "With", "AsyncWith", "Match", "Raise", "Try", "TryStar",
              "Assert", "Import", "ImportFrom", "Global", "Nonlocal", "Expr", "Pass", "Break", "Continue"}
ExprKinds == {"BoolOp", "NamedExpr", "BinOp", "UnaryOp", "Lambda", "IfExp", "Dict", "Set", "ListComp", "SetComp",
              "DictComp", "GeneratorExp", "Await", "Yield", "YieldFrom", "Compare", "Call", "FormattedValue",
              "JoinedStr", "Constant", "Attribute", "Subscript", "Starred", "Name", "List", "Tuple", "Slice"}
PlainExpr == ExprKinds \ {"Slice", "FormattedValue"}         \* FormattedValue never stands alone
PatKinds  == {"MatchValue", "MatchSingleton", "MatchSequence", "MatchMapping", "MatchClass", "MatchStar", "MatchAs",
              "MatchOr"}
TParKinds == {"TypeVar", "ParamSpec", "TypeVarTuple"}
BoolOps   == {"And", "Or"}
BinOps    == {"Add", "Sub", "Mult", "MatMult", "Div", "Mod", "Pow", "LShift", "RShift", "BitOr", "BitXor", "BitAnd",
              "FloorDiv"}
UnaryOps  == {"Invert", "Not", "UAdd", "USub"}
CmpOps    == {"Eq", "NotEq", "Lt", "LtE", "Gt", "GtE", "Is", "IsNot", "In", "NotIn"}
ModKinds  == {"Module", "Expression", "Interactive"}
Containers == {"_ExceptHandlers", "_match_cases", "_Assign_targets", "_decorator_list", "_arglikes", "_comprehensions",
               "_comprehension_ifs", "_aliases", "_withitems", "_pattern_attrlikes", "_type_params"}
(* named deviation AnyCtx: Load/Store/Del "parse" any text to themselves (documented: "for verify()"),            *)
(* named deviation Unparsable: classes that pfst documents as not parsable on their own                          *)
AnyCtx     == {"Load", "Store", "Del"}
Unparsable == {"FunctionType", "FormattedValue", "Interpolation", "TypeIgnore", "TemplateStr"}

(* ------------------------------ alternatives ------------------------------- *)
Id(py)   == [Alt(<<"">>, <<"">>, <<>>, "_") EXCEPT !.py = py]
IdNl(py) == [Alt(<<"">>, <<"", "">>, <<>>, "_") EXCEPT !.py = py]     \* named deviation TrailingNewline: text + "\n"
                                                                       \* (`if a: b` in 'single', trailing `\` line)
At(a, path) == [a EXCEPT !.path = path]
Nl(a)       == [a EXCEPT !.suf = a.suf \o <<"">>]                     \* TrailingNewline for block-level fragments

AInList  == Own("[_,", ", _]", EV \o <<P("elts", 2)>>, "_")            \* star_named_expression
AGroup   == [Own("(", ")", EV, "_") EXCEPT !.unwrap = TRUE]           \* group / yield / undelimited tuple
AArg     == Own("f(_,", ", _)", EV \o <<P("args", 2)>>, "_")           \* call argument (`*a or b`, no keyword)
AKw      == Own("f(_=_,", ", _=_)", EV \o <<P("keywords", 2)>>, "_=_")
ASlice   == Own("_[", "]", EV \o <<P("slice", 1)>>, "_")               \* slices: Slice, tuple of slices, starred
ASliceNS == [ASlice EXCEPT !.noStar = TRUE]
ASlElt   == Own("_[_,", ", _]", EV \o <<P("slice", 1), P("elts", 2)>>, "_")
ATry     == Alt(<<"try:", " pass", "">>, <<"">>, <<P("body", 1), P("handlers", 1)>>, "except: pass")
ATryStar == [ATry EXCEPT !.ph = "except* _: pass"]
(* a first case fixes the block's indentation, so that an indented fragment is as invalid here as anywhere else *)
AMatch   == [Alt(<<"match _:", " case _: pass", "">>, <<"">>, <<P("body", 1), P("cases", 2)>>, "case _: pass") EXCEPT !.ind = 1]
AImp     == [Alt(<<"import _, ">>, <<", _">>, <<P("body", 1), P("names", 2)>>, "_") EXCEPT !.join = TRUE]
AFrom    == [Alt(<<"from _ import _, ">>, <<", _">>, <<P("body", 1), P("names", 2)>>, "_") EXCEPT !.join = TRUE]
AFromStar == [Alt(<<"from _ import ">>, <<"">>, <<P("body", 1), P("names", 1)>>, "*")
               EXCEPT !.join = TRUE, !.same = TRUE]
(* names of a from-import also live in the parenthesised form, where comment lines and line breaks are legal;   *)
(* `*` cannot (it does not parse there)                                                                        *)
AFromPar == Own("from _ import (_,", ", _)", <<P("body", 1), P("names", 2)>>, "_")
APatElt  == Alt(<<"match _:", " case [_,", "">>, <<"", ", _]: pass">>, Case \o <<P("patterns", 2)>>, "_")
APatGrp  == [Alt(<<"match _:", " case (", "">>, <<"", "): pass">>, Case, "_") EXCEPT !.unwrap = TRUE]

Node(kinds, alts) == [shape |-> "node", kinds |-> kinds, alts |-> alts, fields |-> <<>>, drop |-> 0, dropR |-> 0,
                      merged |-> FALSE, emptyOk |-> FALSE]
Op(kinds, alts)   == [Node(kinds, alts) EXCEPT !.shape = "op"]
(* list modes: the result is a pfst container node (no CPython counterpart); its element lists are compared with   *)
(* the owner's fields `fields` minus the first `drop` (placeholder) elements; merged = both fields ordered by      *)
(* position in one list (`_arglikes`).  emptyOk: "zero or more": a fragment without tokens is the empty container  *)
List(kind, alts, fields, drop) == [shape |-> "list", kinds |-> {kind}, alts |-> alts, fields |-> fields,
                                   drop |-> drop, dropR |-> 0, merged |-> FALSE, emptyOk |-> TRUE]
(* unparenthesised import names tolerate nothing behind the last name: sandwiched on both sides *)
ListLR(kind, alts, fields) == [List(kind, alts, fields, 1) EXCEPT !.dropR = 1]

BaseRow(m) ==
  CASE m \in {"exec", "stmts", "Module", "mod"} -> Node({"Module"}, <<Id("exec"), IdNl("exec")>>)
    [] m \in {"eval", "Expression"}            -> Node({"Expression"}, <<Id("eval"), IdNl("eval")>>)
    [] m \in {"single", "Interactive"}         -> Node({"Interactive"}, <<Id("single"), IdNl("single")>>)
    [] m = "stmt"            -> Node(StmtKinds, <<At(Id("exec"), B1), At(IdNl("exec"), B1)>>)
    [] m = "ExceptHandler"   -> Node({"ExceptHandler"}, <<ATry, ATryStar, Nl(ATry), Nl(ATryStar)>>)
    [] m = "_ExceptHandlers" -> List(m, <<At(ATry, B1), At(ATryStar, B1), Nl(At(ATry, B1)), Nl(At(ATryStar, B1))>>,
                                     <<"handlers">>, 0)
    [] m = "match_case"      -> Node({"match_case"}, <<AMatch, Nl(AMatch)>>)
    [] m = "_match_cases"    -> List(m, <<At(AMatch, B1), Nl(At(AMatch, B1))>>, <<"cases">>, 1)
    [] m = "expr"            -> Node(PlainExpr, <<AInList, AGroup>>)
    [] m = "expr_arglike"    -> Node(PlainExpr, <<AArg, AGroup>>)
    [] m = "expr_slice"      -> Node(ExprKinds \ {"FormattedValue"}, <<ASlice, AGroup>>)
    [] m = "expr_all"        -> Node(ExprKinds \ {"FormattedValue"}, <<AArg, ASliceNS, AGroup>>)
    [] m = "Tuple_elt"       -> Node(ExprKinds \ {"FormattedValue"}, <<ASlElt, AGroup>>)
    [] m = "Tuple"           -> Node({"Tuple"}, <<ASliceNS, AGroup>>)
    [] m = "_Assign_targets" -> List(m, <<Alt(<<"">>, <<" _">>, B1, "_ ="),                      \* first targets of a statement
                                          [Alt(<<"_ = ">>, <<" _">>, B1, "_ =") EXCEPT !.xdrop = 1]>>,   \* later targets
                                     <<"targets">>, 0)
    [] m = "_decorator_list" -> List(m, <<Alt(<<"">>, <<"", "class _: pass">>, B1, "@_")>>, <<"decorator_list">>, 0)
    [] m = "_arglike"        -> Node(PlainExpr \cup {"keyword"}, <<AArg, AKw>>)
    [] m = "_arglikes"       -> [List(m, <<Own("f(", ")", EV, "_")>>, <<"args", "keywords">>, 0) EXCEPT !.merged = TRUE]
    [] m = "boolop"          -> Op(BoolOps, <<Own("(_", "_)", EV \o <<P("op", 1)>>, "and")>>)
    [] m = "operator"        -> Op(BinOps, <<Own("(_", "_)", EV \o <<P("op", 1)>>, "+")>>)
    [] m = "unaryop"         -> Op(UnaryOps, <<Own("(", "_)", EV \o <<P("op", 1)>>, "not")>>)
    [] m = "cmpop"           -> Op(CmpOps, <<Own("(_", "_)", EV \o <<P("ops", 1)>>, "<")>>)
    [] m = "comprehension"   -> Node({"comprehension"},
                                     <<Own("[_ for _ in _", " for _ in _]", EV \o <<P("generators", 2)>>, "for _ in _")>>)
    [] m = "_comprehensions" -> List(m, <<Own("[_", "]", EV, "for _ in _")>>, <<"generators">>, 0)
    [] m = "_comprehension_ifs" -> List(m, <<Own("[_ for _ in _", "]", EV \o <<P("generators", 1)>>, "if _")>>, <<"ifs">>, 0)
    [] m = "arguments"       -> Node({"arguments"}, <<Own("def _(", "): pass", <<P("body", 1), P("args", 1)>>, "")>>)
    [] m = "arguments_lambda" -> Node({"arguments"}, <<Own("(lambda", ": _)", EV \o <<P("args", 1)>>, "")>>)
    [] m = "arg"             -> Node({"arg"},
                                     <<Own("def _(_,", ", _): pass", <<P("body", 1), P("args", 1), P("args", 2)>>, "_"),
                                       Own("def _(" \o "*", ", _): pass", <<P("body", 1), P("args", 1), P("vararg", 1)>>, "_")>>)
    [] m = "keyword"         -> Node({"keyword"}, <<AKw>>)
    [] m = "Import_name"     -> Node({"alias"}, <<AImp>>)
    [] m = "ImportFrom_name" -> Node({"alias"}, <<AFrom, AFromStar, AFromPar>>)
    [] m = "alias"           -> Node({"alias"}, <<AImp, AFrom, AFromStar, AFromPar>>)
    [] m = "_Import_names"   -> ListLR("_aliases", <<At(AImp, B1)>>, <<"names">>)
    [] m = "_ImportFrom_names" -> ListLR("_aliases", <<At(AFrom, B1), At(AFromStar, B1), At(AFromPar, B1)>>, <<"names">>)
    [] m = "_aliases"        -> ListLR("_aliases", <<At(AImp, B1), At(AFrom, B1), At(AFromStar, B1), At(AFromPar, B1)>>, <<"names">>)
    [] m = "withitem"        -> Node({"withitem"}, <<Own("with (_,", ", _): pass", <<P("body", 1), P("items", 2)>>, "_")>>)
    [] m = "_withitems"      -> List(m, <<Own("with (_,", "): pass", B1, "_")>>, <<"items">>, 1)
    [] m = "pattern"         -> Node(PatKinds, <<APatElt, APatGrp>>)
    [] m = "_pattern_attrlikes" -> List(m, <<Alt(<<"match _:", " case c(", "">>, <<"", "): pass">>, Case, "_")>>,
                                        <<"patterns", "kwd_attrs", "kwd_patterns">>, 0)
    [] m = "type_param"      -> Node(TParKinds, <<Own("type _[_,", ", _] = _", <<P("body", 1), P("type_params", 2)>>, "_")>>)
    [] m = "_type_params"    -> List(m, <<Own("type _[_,", "] = _", B1, "_")>>, <<"type_params">>, 1)
    [] OTHER -> Node({}, <<>>)

(* the star alternative of the list modes drops nothing (its single element IS the placeholder `*`) *)
DropOf(row, alt)  == IF alt.same THEN 0 ELSE row.drop + alt.xdrop
DropROf(row, alt) == IF alt.same THEN 0 ELSE row.dropR

NamedModes == {"exec", "eval", "single", "stmts", "stmt", "ExceptHandler", "_ExceptHandlers", "match_case",
               "_match_cases", "expr", "expr_all", "expr_arglike", "expr_slice", "Tuple_elt", "Tuple",
               "_Assign_targets", "_decorator_list", "_arglike", "_arglikes", "boolop", "operator", "unaryop",
               "cmpop", "comprehension", "_comprehensions", "_comprehension_ifs", "arguments", "arguments_lambda",
               "arg", "keyword", "alias", "_aliases", "Import_name", "_Import_names", "ImportFrom_name",
               "_ImportFrom_names", "withitem", "_withitems", "pattern", "_pattern_attrlikes", "type_param",
               "_type_params"}

(* AST class names as modes: the class's category mode restricted to that class *)
ClassModes == StmtKinds \cup ExprKinds \cup PatKinds \cup TParKinds \cup BoolOps \cup BinOps \cup UnaryOps \cup CmpOps
              \cup ModKinds \cup AnyCtx \cup Unparsable

CategoryOf(k) ==
  CASE k \in StmtKinds -> "stmt"
    [] k = "Starred"   -> "expr_arglike"       \* `*a or b` is a Starred only as an argument
    [] k = "Slice"     -> "expr_slice"
    [] k = "Tuple"     -> "Tuple"
    [] k \in ExprKinds -> "expr"
    [] k \in PatKinds  -> "pattern"
    [] k \in TParKinds -> "type_param"
    [] k \in BoolOps   -> "boolop"
    [] k \in BinOps    -> "operator"
    [] k \in UnaryOps  -> "unaryop"
    [] k \in CmpOps    -> "cmpop"
    [] k = "Module"    -> "exec"
    [] k = "Expression" -> "eval"
    [] k = "Interactive" -> "single"
    [] OTHER -> "?"

Modes == NamedModes \cup ClassModes

Row(m) ==
  IF m \in NamedModes THEN BaseRow(m)
  ELSE IF m \in AnyCtx THEN [Node({m}, <<>>) EXCEPT !.shape = "any"]
  ELSE IF m \in Unparsable THEN [Node({}, <<>>) EXCEPT !.shape = "never"]
  ELSE IF m \in ClassModes THEN [BaseRow(CategoryOf(m)) EXCEPT !.kinds = {m}]
  ELSE [Node({}, <<>>) EXCEPT !.shape = "unknown"]

(* ------------------------------ totality of the table ---------------------- *)
AltOk(row, a) ==
  /\ Len(a.pre) >= 1 /\ Len(a.suf) >= 1
  /\ a.py \in {"exec", "eval", "single"} /\ a.ind \in {0, 1}
  /\ \A i \in 1..Len(a.path) : a.path[i].i >= 1
  /\ a.only \subseteq row.kinds
  /\ (a.join => Len(a.pre) = 1)                       \* joined fragments sit on the statement's own line
  /\ (row.shape = "list" => Len(row.fields) >= 1)
  /\ (row.shape \in {"node", "op"} /\ a.py = "exec" /\ ~(row.kinds \subseteq ModKinds) => Len(a.path) >= 1)

RowOk(m) == LET r == Row(m) IN
  CASE r.shape \in {"node", "op", "list"} -> /\ r.kinds # {} /\ Len(r.alts) >= 1
                                             /\ \A i \in 1..Len(r.alts) : AltOk(r, r.alts[i])
    [] r.shape \in {"any", "never"} -> TRUE
    [] OTHER -> FALSE

TableTotal == \A m \in Modes : RowOk(m)

(* every kind of every category is reachable as its own mode, and vice versa *)
KindsCovered == \A m \in NamedModes : LET r == BaseRow(m) IN
                   r.shape = "node" => \A k \in r.kinds : k \in ClassModes \/ k \in
                      {"ExceptHandler", "match_case", "comprehension", "arguments", "arg", "keyword", "alias", "withitem"}

(* ------------------------------ position arithmetic ------------------------ *)
DLine(a) == Len(a.pre) - 1
DCol(a)  == Len(a.pre[Len(a.pre)])

(* embedding coordinates -> fragment coordinates.  indLines = embedding lines that were indented by a.ind         *)
ShiftLC(l, c, a, indLines) ==
  <<l - DLine(a), c - (IF l = DLine(a) + 1 THEN DCol(a) ELSE 0) - (IF l \in indLines THEN a.ind ELSE 0)>>

ShiftPos(p, a, indLines) ==
  IF Len(p) # 4 THEN p
  ELSE LET s == ShiftLC(p[1], p[2], a, indLines)  e == ShiftLC(p[3], p[4], a, indLines)
       IN <<s[1], s[2], e[1], e[2]>>

(* fragment coordinates -> embedding coordinates (used by the model to state the round trip)                      *)
UnshiftLC(l, c, a, indFragLines) ==
  <<l + DLine(a), c + (IF l = 1 THEN DCol(a) ELSE 0) + (IF l \in indFragLines THEN a.ind ELSE 0)>>

LE(l1, c1, l2, c2) == l1 < l2 \/ (l1 = l2 /\ c1 <= c2)
(* span p lies inside region r (both <<l, c, el, ec>>) *)
Inside(p, r) == Len(p) # 4 \/ (LE(r[1], r[2], p[1], p[2]) /\ LE(p[3], p[4], r[3], r[4]))

(* ------------------------------ the acceptance rule ------------------------ *)
(* facts about one alternative, all computed by the harness from `ast` and `tokenize` only, then judged here:     *)
(*   parses, pathOk, outsideSame, kindOk, contained (or unwrapped), straddle, starQuirk, sameAsPh,               *)
(*   balanced: the brackets of F's own tokens pair among themselves (any node's text is balanced; if they pair   *)
(*   with the wrapper's - `_), (_` inside `(...)` - the parse is an escape even when every span looks right)     *)
AltValid(a, f) ==
  /\ f.parses /\ ~f.straddle /\ f.balanced /\ f.pathOk /\ f.outsideSame /\ f.kindOk
  /\ (f.contained \/ (a.unwrap /\ f.unwrapped))
  /\ (a.noStar => ~f.starQuirk)
  /\ (a.same => f.sameAsPh)

Inline(a) == Len(a.pre) = 1 /\ Len(a.suf) = 1 /\ a.py = "exec" /\ a.suf # <<"">>

(* outcomes the specification admits.                                                                            *)
(* "zero or more": a fragment without any token denotes the empty container.                                      *)
(* Domain restrictions (both outcomes admitted, the tree is still judged when one is returned):                   *)
(*  CommentOnlyInline: a fragment that is only a comment has no meaning inside the logical line of a simple        *)
(*    statement (targets of an Assign, names of an Import); pfst accepts it for imports, refuses it for targets.  *)
(*  LeadLayoutInline: for the same modes, layout in front of the first token (blank line, comment line,            *)
(*    indentation) is meaningful or not depending on where in the logical line the fragment sits; a valid          *)
(*    fragment with such layout may be refused.                                                                    *)
InlineList(row) == row.shape = "list" /\ Len(row.alts) >= 1 /\ Inline(row.alts[1])

Allowed(row, valids, hasTok, blank, leadTrivia) ==
  IF row.shape = "never" THEN {"reject"}
  ELSE IF row.shape = "list" /\ row.emptyOk /\ ~hasTok
       THEN IF blank \/ ~InlineList(row) THEN {"tree"} ELSE {"tree", "reject"}
  ELSE IF \E i \in 1..Len(valids) : valids[i]
       THEN IF InlineList(row) /\ leadTrivia THEN {"tree", "reject"} ELSE {"tree"}
  ELSE {"reject"}
=============================================================================
