SPECIFICATION Spec
CONSTANTS
  MCMembers = {1, 2, 3, 5, 9, 21, 22, 29, 30, 33, 37, 38, 39, 41, 45, 57, 58, 61, 65, 66, 69, 73, 77, 78, 85, 86, 90, 200, 341, 600, 777, 1201, 1500, 1999}
INVARIANT PrefilterSound
INVARIANT Algebra
CHECK_DEADLOCK FALSE
