---------------------------- MODULE ContainersMC ----------------------------
(* Model of one list-like field edited through every entry point of the API.  *)
(* Checks that the operators of Containers.tla (which PfstTrace applies to    *)
(* recorded executions) have the Python-list meaning: every entry point is    *)
(* PutSlice at normalised bounds, elements off the slice are conserved in      *)
(* order, single-index forms raise exactly where a list raises, and the       *)
(* documented equivalences between entry points hold for all lengths <=       *)
(* MaxLen, all bounds in Bounds and all payload sizes <= MaxNew.              *)
EXTENDS Containers, TLC

CONSTANTS MaxLen, MaxNew, MaxIdx, MaxFresh

VARIABLES c, fresh, last
vars == <<c, fresh, last>>

Ints   == (0 - MaxIdx)..MaxIdx
Bounds == {IntB(i) : i \in Ints} \cup {EndB}
Lo     == {0, 1}

New(k) == [i \in 1..k |-> fresh + i]

(* independent, element-wise reference of Python's c[s:t] = new              *)
PyClip(len, b) == IF b.k = "end" THEN len
                  ELSE IF b.v < 0 THEN (IF b.v + len < 0 THEN 0 ELSE b.v + len)
                  ELSE IF b.v > len THEN len ELSE b.v
RefPut(cc, lo, s, t, new) ==
  LET sub == SubSeq(cc, lo + 1, Len(cc))
      n   == Len(sub)
      s0  == PyClip(n, s)
      t0  == IF PyClip(n, t) < s0 THEN s0 ELSE PyClip(n, t)     \* a list inserts at s0 when stop < start
      r   == [i \in 1..(n - (t0 - s0) + Len(new)) |->
                IF i <= s0 THEN sub[i]
                ELSE IF i <= s0 + Len(new) THEN new[i - s0]
                ELSE sub[i - Len(new) + (t0 - s0)]]
  IN SubSeq(cc, 1, lo) \o r

Init == c = <<>> /\ fresh = 0 /\ last = "init"

DoPutSlice == \E lo \in Lo, s \in Bounds, t \in Bounds, k \in 0..MaxNew :
  /\ lo <= Len(c) /\ ~Inverted(Len(c), lo, s, t)
  /\ Len(c) + k <= MaxLen + MaxNew /\ fresh + k <= MaxFresh
  /\ c' = PutSlice(c, lo, s, t, New(k)) /\ fresh' = fresh + k /\ last' = "put_slice"

DoPutOne == \E lo \in Lo, i \in Ints :
  /\ lo <= Len(c) /\ NormIndex(Len(c), lo, IntB(i)) # -1 /\ fresh + 1 <= MaxFresh
  /\ c' = PutOne(c, lo, IntB(i), fresh + 1) /\ fresh' = fresh + 1 /\ last' = "put_one"

DoDelOne == \E lo \in Lo, i \in Ints :
  /\ lo <= Len(c) /\ NormIndex(Len(c), lo, IntB(i)) # -1
  /\ c' = DelOne(c, lo, IntB(i)) /\ UNCHANGED fresh /\ last' = "del_one"

DoAppend == \E lo \in Lo : /\ lo <= Len(c) /\ Len(c) < MaxLen + MaxNew /\ fresh + 1 <= MaxFresh
                           /\ c' = ApAppend(c, lo, fresh + 1) /\ fresh' = fresh + 1 /\ last' = "append"
DoPrepend == \E lo \in Lo : /\ lo <= Len(c) /\ Len(c) < MaxLen + MaxNew /\ fresh + 1 <= MaxFresh
                            /\ c' = ApPrepend(c, lo, fresh + 1) /\ fresh' = fresh + 1 /\ last' = "prepend"

Next == DoPutSlice \/ DoPutOne \/ DoDelOne \/ DoAppend \/ DoPrepend
Spec == Init /\ [][Next]_vars

Constraint == Len(c) <= MaxLen + MaxNew

(* ---- invariants / action properties ----------------------------------- *)
Distinct == \A i, j \in 1..Len(c) : i # j => c[i] # c[j]

(* theorems evaluated in every reachable state, over all arguments          *)
SliceIsPython == \A lo \in Lo, s \in Bounds, t \in Bounds, k \in 0..MaxNew :
  (lo <= Len(c) /\ ~Inverted(Len(c), lo, s, t)) =>
     PutSlice(c, lo, s, t, [i \in 1..k |-> 100 + i]) = RefPut(c, lo, s, t, [i \in 1..k |-> 100 + i])

NegativeEquiv == \A lo \in Lo, s \in Ints, t \in Ints :
  LET n == Len(c) - lo IN
  (lo <= Len(c) /\ s \in (0 - n)..(-1) /\ t \in (0 - n)..(-1)) =>
     /\ NormStart(Len(c), lo, IntB(s)) = NormStart(Len(c), lo, IntB(s + n))
     /\ NormStop(Len(c), lo, IntB(t))  = NormStop(Len(c), lo, IntB(t + n))

OneIsSlice == \A lo \in Lo, i \in Ints :
  LET j == NormIndex(Len(c), lo, IntB(i)) IN
  (lo <= Len(c) /\ j # -1) =>
     /\ PutOne(c, lo, IntB(i), 99) = PutSlice(c, 0, IntB(j), IntB(j + 1), <<99>>)
     /\ DelOne(c, lo, IntB(i))     = PutSlice(c, 0, IntB(j), IntB(j + 1), <<>>)
     /\ Len(DelOne(c, lo, IntB(i))) = Len(c) - 1

IndexErrorLikeList == \A lo \in Lo, i \in Ints :
  lo <= Len(c) => LET n == Len(c) - lo IN (NormIndex(Len(c), lo, IntB(i)) = -1) <=> ~(i \in (0 - n)..(n - 1))

GetPutBack == \A lo \in Lo, s \in Bounds, t \in Bounds :
  (lo <= Len(c) /\ ~Inverted(Len(c), lo, s, t)) => PutSlice(c, lo, s, t, GetSlice(c, lo, s, t)) = c

EntryAlgebra == \A lo \in Lo :
  lo <= Len(c) =>
    /\ ApAppend(c, lo, 99)  = c \o <<99>>
    /\ ApExtend(c, lo, <<98, 99>>) = c \o <<98, 99>>
    /\ ApPrepend(c, lo, 99) = SubSeq(c, 1, lo) \o <<99>> \o SubSeq(c, lo + 1, Len(c))
    /\ ApAssign(c, lo, <<99>>) = SubSeq(c, 1, lo) \o <<99>>
    /\ \A i \in Ints : ~Inverted(Len(c), lo, IntB(i), IntB(i)) =>
         Len(ApInsert(c, lo, IntB(i), <<99>>)) = Len(c) + 1

(* the prefix hidden by a virtual view (docstring) is never touched          *)
Conserve == [][SubSeq(c', 1, 0) = <<>> /\
               \A x \in {c[i] : i \in 1..Len(c)} \cap {c'[i] : i \in 1..Len(c')} :
                 \A y \in {c[i] : i \in 1..Len(c)} \cap {c'[i] : i \in 1..Len(c')} :
                   LET px == CHOOSE i \in 1..Len(c) : c[i] = x   py == CHOOSE i \in 1..Len(c) : c[i] = y
                       qx == CHOOSE i \in 1..Len(c') : c'[i] = x  qy == CHOOSE i \in 1..Len(c') : c'[i] = y
                   IN (px < py) <=> (qx < qy)]_vars
=============================================================================
