------------------------------ MODULE ThreadsMC ------------------------------
(* Three threads; t1 owns r1, t2 owns r2 and r3, t3 owns r4.  Each thread     *)
(* runs one script of its pool: edits with and without per-call options,      *)
(* failing bodies, nested brackets, rejected options, set_options, blocks     *)
(* left normally and by exception.                                            *)
EXTENDS Threads
CONSTANTS t1, t2, t3, r1, r2, r3, r4, a, b, o1, o2, v0, v1, bad, unk

OwnerMap == (r1 :> t1) @@ (r2 :> t2) @@ (r3 :> t2) @@ (r4 :> t3)
Def2     == (o1 :> v0) @@ (o2 :> v0)
HeapId   == [c \in {v0, v1, bad} |-> c]
Nest3    == (t1 :> 2) @@ (t2 :> 2) @@ (t3 :> 2)
E        == <<>>
Edit(r, n, o, ov, fault, nest) == [k |-> "edit", r |-> r, n |-> n, o |-> o, ov |-> ov, fault |-> fault, nest |-> nest]
Set(m)     == [k |-> "set", m |-> m]
Enter(m)   == [k |-> "enter", m |-> m]
Exit(how)  == [k |-> "exit", how |-> how]

PA(r, q) == << Edit(r, a, o1, E, FALSE, FALSE), Set(o1 :> v1), Edit(q, b, o1, E, FALSE, FALSE) >>
PB(r, q) == << Enter(o1 :> v1), Edit(r, a, o1, (o2 :> v1), FALSE, FALSE), Exit("exception"), Edit(q, b, o1, E, FALSE, TRUE) >>
PC(r, q) == << Edit(r, a, o1, (o1 :> v1), FALSE, FALSE), Edit(q, b, o1, E, TRUE, FALSE), Edit(r, a, o2, E, FALSE, FALSE) >>
PD(r, q) == << Set((o1 :> v1) @@ (o2 :> bad)), Edit(r, a, o1, (unk :> v1), FALSE, FALSE), Enter(o2 :> v1),
               Set(o1 :> v1), Exit("normal"), Edit(q, a, o1, E, FALSE, FALSE) >>

Pool == (t1 :> {PA(r1, r1), PB(r1, r1), PC(r1, r1), PD(r1, r1)})
     @@ (t2 :> {PA(r2, r3), PB(r3, r2), PD(r2, r3)})
     @@ (t3 :> {PA(r4, r4), PC(r4, r4)})
=============================================================================
