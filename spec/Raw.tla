-------------------------------- MODULE Raw ---------------------------------
(* C10 - raw source edits: put_src(action='reparse'), raw-mode node puts and   *)
(* reparse().  One spec action = one public call.                              *)
(*                                                                             *)
(* State of one tree:  text (RawText), tree = [s |-> structure, p |-> structure *)
(* with positions] of the live AST, root (identity of the root FST object),     *)
(* out (outcome of the last call).                                             *)
(*                                                                             *)
(* The parser is a parameter: Valid(text) / Parse(text) are CPython's           *)
(* judgement for the root's kind.  In RawMC they are instantiated by a small    *)
(* fragment of Python defined in TLA+ (and cross-checked against CPython by    *)
(* the harness); in RawTrace they are the logged ast.parse facts.              *)
(*                                                                             *)
(* The clause operators of RawLaws are what the property states; the action    *)
(* property StepLaw says that every step of this model satisfies them, and     *)
(* RawTrace applies the same operators to recorded executions of pfst.         *)
EXTENDS RawLaws, TLC

CONSTANTS Valid(_), Parse(_),      \* oracle: is this whole text valid for the root's kind / its tree
          InitTexts,               \* initial texts (valid)
          Quads(_),                \* raw coordinate quadruples tried on a text (bounds, possibly 'end'/negative)
          Repls,                   \* replacement texts (sequences of lines)
          NodeRects(_)             \* spans of the nodes of a tree (targets of raw-mode node puts)

VARIABLES text, tree, root, out, dirty,
          call, req                \* history: kind of the last call and the whole text it requested
vars == <<text, tree, root, out, dirty, call, req>>
View == <<text, tree, root, out, dirty>>

Cur  == St(text, tree, root)
Cur1 == St(text', tree', root')

(* ---------------------------- actions ----------------------------------- *)
Init == /\ text \in InitTexts /\ tree = Parse(text) /\ root = 1 /\ out = "init" /\ dirty = FALSE
        /\ call = "init" /\ req = text

Do(new) == /\ req' = new
           /\ IF Valid(new)
              THEN text' = new /\ tree' = Parse(new) /\ out' = "ok" /\ dirty' = FALSE
              ELSE UNCHANGED <<text, tree, dirty>> /\ out' = "raise"

(* put_src(repl, *quad, action='reparse'): coordinates are clipped first; an    *)
(* inverted rectangle is an IndexError whatever the replacement (ClipError)    *)
PutSrcReparse(q, p) ==
  /\ ~dirty
  /\ IF ClipError(text, q)
     THEN UNCHANGED <<text, tree, dirty, req>> /\ out' = "raise" /\ call' = "clip_error"
     ELSE Do(SpliceText(text, Clip(text, q), p)) /\ call' = "put_src"
  /\ UNCHANGED root

(* node.replace(repl, raw=True): the rectangle is the node's own span          *)
RawPut(r, p) == /\ ~dirty /\ Do(SpliceText(text, r, p)) /\ call' = "raw_put" /\ UNCHANGED root

(* put_src(..., action=None): source changes, tree does not (not a C10 call;   *)
(* it is the environment step that makes reparse() meaningful)                 *)
PutSrcNone(q, p) == /\ ~ClipError(text, q) /\ ~dirty
                    /\ text' = SpliceText(text, Clip(text, q), p) /\ dirty' = TRUE /\ out' = "ok"
                    /\ call' = "put_none" /\ req' = text'
                    /\ UNCHANGED <<tree, root>>

(* root.reparse(): the requested splice is the identity                        *)
Reparse == Do(text) /\ call' = "reparse" /\ UNCHANGED root

Next == \/ \E q \in Quads(text), p \in Repls : PutSrcReparse(q, p) \/ PutSrcNone(q, p)
        \/ \E r \in NodeRects(tree), p \in Repls : RawPut(r, p)
        \/ Reparse

Spec == Init /\ [][Next]_vars

(* ---------------------------- properties -------------------------------- *)
(* source and tree are in step except between put_src(action=None) and the     *)
(* next successful reparse                                                     *)
Sync        == dirty \/ (Valid(text) /\ tree = Parse(text))
RootStable  == root = 1
(* every C10 step of the model satisfies the clause conjunction                *)
StepLaw ==
  [][ CASE call' \in {"put_src", "raw_put", "reparse"} ->
             ReparseLaw(Cur, Cur1, out', req', Valid(req'), IF Valid(req') THEN Parse(req') ELSE tree)
        [] call' = "clip_error" -> out' = "raise" /\ AtomicOnRaise(Cur, Cur1) /\ RootIdentity(Cur, Cur1)
        [] OTHER -> tree' = tree /\ RootIdentity(Cur, Cur1) ]_vars
=============================================================================
