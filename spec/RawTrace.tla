------------------------------ MODULE RawTrace ------------------------------
(* C10, direction V: recorded executions of pfst's raw source edits validated  *)
(* against RawLaws.  One event per public call:                                *)
(*   e = [call : "put_src" | "raw_put" | "reparse" | "put_none",               *)
(*        self : "root" | "stmt" | "expr" (kind of node the method was called on), *)
(*        quad : 4 bounds [k |-> "int"|"end", v] as passed to pfst,             *)
(*        repl : text id of the replacement, outcome : "ok" | "raise",         *)
(*        otext, valid, oS, oP : the oracle row (ast.parse of the text with    *)
(*                id otext, for the root's kind),                              *)
(*        post : State]                                                        *)
(*   State = [rootObj, rootKind, liveS, liveP, text, srcP]                     *)
(* The splice is recomputed here on code points; the oracle row is only used   *)
(* if it is the row of exactly that text (OracleBound), otherwise the harness  *)
(* is broken and the check fails as machinery.                                 *)
(*                                                                             *)
(* Verdicts are total: Next is always enabled, failing clauses accumulate as   *)
(* <<step, clause, edit class>>.  The edit class is computed here from logged  *)
(* facts only (texts, rectangle, tokenize rows and statement spans of the      *)
(* texts before and after); it is the second half of a finding signature.      *)
EXTENDS RawLaws, Batch, FiniteSets, TLC

FTab == Batch.ftab          \* per text id: [toks |-> Seq(row), stmts |-> Seq(row)]

VARIABLES tid, l, st, bad, seen
vars == <<tid, l, st, bad, seen>>

Steps(t) == Traces[t].steps
Cl(name, ok) == [c |-> name, ok |-> ok]

TextOf(id) == IF id \in 1..Len(TTab) THEN TTab[id] ELSE << <<>> >>
Abs(s)     == St(TextOf(s.text), [s |-> s.liveS, p |-> s.liveP], s.rootObj)
InSync(s)  == s.srcP # 0 /\ s.srcP = s.liveP

Quad(e)     == e.quad
Pre(s)      == TextOf(s.text)
Repl(e)     == TextOf(e.repl)
IsClipErr(s, e) == ClipError(Pre(s), Quad(e))
Rect(s, e)  == Clip(Pre(s), Quad(e))
New(s, e)   == SpliceText(Pre(s), Rect(s, e), Repl(e))
OracleBound(s, e) == TextOf(e.otext) = New(s, e)
OTree(e)    == [s |-> e.oS, p |-> e.oP]

(* domain: the law is judged on calls made while source and tree are in step;   *)
(* reparse() is the call that is meant for the other case and is always judged  *)
(* root kinds: Module (exec) and Expression (eval).  Interactive roots are out:  *)
(* CPython's `single` start rule wants the NEWLINE after a compound statement,   *)
(* so "valid for the root's kind" would depend on a trailing newline that pfst's *)
(* line list does not represent.                                                 *)
RootKindInDomain(s) == s.rootKind \in {"Module", "Expression"}
InDomain(s, e) == RootKindInDomain(s) /\ (InSync(s) \/ e.call = "reparse")

C10Call(e) == e.call \in {"put_src", "raw_put", "reparse"}

Clauses(s, e) ==
  LET a == Abs(s)  b == Abs(e.post)  new == New(s, e) IN
  IF e.call = "put_none"
  THEN (IF IsClipErr(s, e) THEN {}
        ELSE {Cl("Machinery.oracleText", OracleBound(s, e))}
             \cup (IF e.outcome = "ok" THEN {Cl("TextIsSplice", TextIsSplice(b, new))} ELSE {}))
  ELSE IF ~C10Call(e) THEN {Cl("UnknownEvent", FALSE)}
  ELSE IF ~InDomain(s, e) THEN {}
  ELSE IF IsClipErr(s, e)       \* named deviation ClipError: nothing is requested; a raise must still be atomic
  THEN (IF e.outcome = "raise"
        THEN {Cl("AtomicOnRaise", AtomicOnRaise(a, b)), Cl("RootIdentity", RootIdentity(a, b))} ELSE {})
  ELSE {Cl("Machinery.oracleText", OracleBound(s, e)), Cl("RootIdentity", RootIdentity(a, b))}
       \cup (IF e.outcome = "ok"
             THEN {Cl("AcceptIffValid.acceptedInvalid", AcceptedOnlyIfValid(e.valid)),
                   Cl("TextIsSplice", TextIsSplice(b, new))}
                  \cup (IF e.valid THEN {Cl("TreeIsFullParse.struct", TreeIsFullParseStruct(b, OTree(e)))} ELSE {})
                  \cup (IF e.valid /\ TreeIsFullParseStruct(b, OTree(e))
                        THEN {Cl("TreeIsFullParse.pos", TreeIsFullParsePos(b, OTree(e)))} ELSE {})
             ELSE {Cl("AcceptIffValid.refusedValid", RefusedOnlyIfInvalid(e.valid)),
                   Cl("AtomicOnRaise", AtomicOnRaise(a, b))})

(* ======================================================================== *)
(* Edit class =  <RootKind>:<call>@<self>/in:<I>/at:<A>/tok:<T>/fx:<F>/sk:<S>  *)
(*   I  where the rectangle lies w.r.t. the statement spans of the text before: *)
(*      none | simple.<Kind> | header.<Kind> (before the first child statement  *)
(*      of a block statement) | body.<Kind>; the innermost containing statement *)
(*   A  whole | start | end | mid  (rectangle vs. that statement's span)        *)
(*   T  b (both ends on token boundaries) | in | str | cmt (inside a token)     *)
(*   F  comma-terminated flags read off the texts: same ins del blank nl indent *)
(*      blankln tws semiafter hash semi bslash kw cross inline elifchain        *)
(*      conteof deg                                                             *)
(*   S  effect on the statement skeleton (statement spans of the text after):   *)
(*      invalid (no parse) | top (no enclosing statement) | local (exactly one  *)
(*      statement at the same depth stands where the enclosing one stood and    *)
(*      nothing else moved) | split | gone | nonlocal                           *)
(* The statement-local reparser of fst_raw.py is, by construction, only right   *)
(* for S = local; I/A/F separate the ways in which it goes wrong otherwise.     *)
(* Facts: token rows  <<type, ln, col, eln, ecol, kw, depth>>   *)
(*                     stmt rows   <<kind, ln, col, eln, ecol, blk, bln, bcol, depth>> (pre-order) *)
Facts(id) == IF id \in 1..Len(FTab) THEN FTab[id] ELSE [toks |-> <<>>, stmts |-> <<>>]
Toks(s)   == Facts(s.text).toks
PStm(s)   == Facts(s.text).stmts
NStm(e)   == Facts(e.otext).stmts

RContains(row, R) == PosLE(row[2], row[3], R[1], R[2]) /\ PosLE(R[3], R[4], row[4], row[5])
RInside(row, outer) == PosLE(outer[2], outer[3], row[2], row[3]) /\ PosLE(row[4], row[5], outer[4], outer[5])

(* innermost statement containing the rectangle (0 = none: module level)      *)
EncIdx(P, R) ==
  LET C == {i \in 1..Len(P) : RContains(P[i], R)}
  IN IF C = {} THEN 0 ELSE CHOOSE i \in C : \A j \in C : P[j][9] < P[i][9] \/ (P[j][9] = P[i][9] /\ j <= i)

ZeroWidth(R) == R[1] = R[3] /\ R[2] = R[4]

InPart(P, i, R) ==
  IF i = 0 THEN "none"
  ELSE IF P[i][6] = 0 THEN "simple." \o P[i][1]
  ELSE IF P[i][7] >= 0 /\ PosLT(R[3], R[4], P[i][7], P[i][8]) THEN "header." \o P[i][1]
  ELSE "body." \o P[i][1]

AtPart(P, i, R) ==
  IF i = 0 THEN "-"
  ELSE LET s0 == R[1] = P[i][2] /\ R[2] = P[i][3]  e0 == R[3] = P[i][4] /\ R[4] = P[i][5]
       IN IF s0 /\ e0 THEN "whole" ELSE IF s0 THEN "start" ELSE IF e0 THEN "end" ELSE "mid"

(* a position strictly inside a token                                         *)
TokAt(T, ln, col) == {k \in 1..Len(T) : /\ T[k][1] \notin {"NL", "NEWLINE"}
                                         /\ PosLT(T[k][2], T[k][3], ln, col) /\ PosLT(ln, col, T[k][4], T[k][5])}
TokPart(T, R) ==
  LET K == TokAt(T, R[1], R[2]) \cup TokAt(T, R[3], R[4])
  IN IF K = {} THEN "b"
     ELSE IF \E k \in K : T[k][1] \in {"STR", "FS", "FM", "FE"} THEN "str"
     ELSE IF \E k \in K : T[k][1] = "COMMENT" THEN "cmt"
     ELSE "in"

(* does the edit change where a line's first token starts?                    *)
IndentChange(tx, new, R, p) ==
  LET k     == Len(p)
      preH  == Line(tx, R[1])      newH == Line(new, R[1])
      headTouched == R[2] <= Indent(preH)
      headCh == headTouched /\ ~Blank(preH) /\ ~Blank(newH) /\ Indent(preH) # Indent(newH)
      preT  == Line(tx, R[3])      newT == Line(new, R[1] + k - 1)
      tail  == SubSeq(preT, R[4] + 1, Len(preT))
      c1    == IF k = 1 THEN R[2] + Len(p[1]) ELSE Len(p[k])         \* where the tail lands
      firstPre == R[4] <= Indent(preT)
      firstNew == c1 <= Indent(newT)
      tailCh == ~Blank(tail) /\ (firstPre # firstNew \/ (firstPre /\ firstNew /\ Indent(preT) # Indent(newT)))
  IN headCh \/ tailCh

(* the line on which the edit starts had code and is left blank                *)
BlanksLine(tx, new, R) ==
  R[2] <= Indent(Line(tx, R[1])) /\ ~Blank(Line(tx, R[1])) /\ Blank(Line(new, R[1]))

(* the edit ends in trivia that is now trailing: after the edit, the rest of its *)
(* last line is blank or a comment, and the edit itself ends with a blank, at     *)
(* the start of a line, or brings a comment                                       *)
TrailingWs(new, R, p) ==
  LET k  == Len(p)
      ll == Line(new, R[1] + k - 1)
      c1 == IF k = 1 THEN R[2] + Len(p[1]) ELSE Len(p[k])
      rest == SubSeq(ll, c1 + 1, Len(ll))
  IN \/ Has(p[k], 35)
     \/ /\ (Blank(rest) \/ rest[Indent(rest) + 1] = 35)
        /\ (c1 = 0 \/ (c1 <= Len(ll) /\ IsWs(ll[c1])))

(* a ';' is the first thing after the rectangle (or after the enclosing         *)
(* statement) on its line                                                      *)
SemiAfter(tx, R) ==
  LET ll == Line(tx, R[3])  rest == SubSeq(ll, R[4] + 1, Len(ll))
  IN ~Blank(rest) /\ rest[Indent(rest) + 1] = 59

Bslash(tx, new, R, p) ==
  \/ HasAny(p, 92)
  \/ \E i \in (R[1] - 1)..R[3] : LastIs(Line(tx, i), 92)
  \/ \E i \in (R[1] - 1)..(R[1] + Len(p) - 1) : LastIs(Line(new, i), 92)

TouchesLeadingKw(T, P, R) ==
  \E k \in 1..Len(T) : /\ T[k][6] = 1
                       /\ \E i \in 1..Len(P) : P[i][2] = T[k][2] /\ P[i][3] = T[k][3]
                       /\ PosLT(R[1], R[2], T[k][4], T[k][5]) /\ PosLT(T[k][2], T[k][3], R[3], R[4])

(* a statement boundary strictly inside the rectangle                         *)
Crosses(P, R) ==
  \E i \in 1..Len(P) : \/ (PosLT(R[1], R[2], P[i][2], P[i][3]) /\ PosLT(P[i][2], P[i][3], R[3], R[4]))
                       \/ (PosLT(R[1], R[2], P[i][4], P[i][5]) /\ PosLT(P[i][4], P[i][5], R[3], R[4]))

(* the enclosing statement is an `elif` of an `elif` (chain of three or more)   *)
ParentIdx(P, i) ==
  LET C == {j \in 1..(i - 1) : RInside(P[i], P[j]) /\ P[j][9] = P[i][9] - 1}
  IN IF i = 0 \/ C = {} THEN 0 ELSE CHOOSE j \in C : \A k \in C : k <= j
ElifChain(P, i) == i # 0 /\ P[i][1] = "Elif" /\ ParentIdx(P, i) # 0 /\ P[ParentIdx(P, i)][1] = "Elif"

(* the new source ends in a line continuation: backslash, newline, end of text  *)
ContEOF(new) == Len(new) >= 2 /\ new[Len(new)] = <<>> /\ LastIs(new[Len(new) - 1], 92)

(* a statement that starts on the first line at column 1, 2 or 3 touches the     *)
(* rectangle (fst_raw.py raises NotImplementedError for it)                      *)
Degenerate(P, R) ==
  \E j \in 1..Len(P) : /\ P[j][2] = 0 /\ P[j][3] \in 1..3
                        /\ PosLE(P[j][2], P[j][3], R[3], R[4]) /\ PosLE(R[1], R[2], P[j][4], P[j][5])

Inline(tx, P, i) == i # 0 /\ ~Blank(SubSeq(Line(tx, P[i][2]), 1, P[i][3]))

Flag(b, name) == IF b THEN name \o "," ELSE ""
FxPart(tx, new, T, P, i, R, p) ==
     Flag(new = tx, "same")
  \o Flag(ZeroWidth(R), "ins")
  \o Flag(~ZeroWidth(R) /\ p = << <<>> >>, "del")
  \o Flag(p # << <<>> >> /\ AllBlank(p), "blank")
  \o Flag(R[1] # R[3] \/ Len(p) > 1, "nl")
  \o Flag(IndentChange(tx, new, R, p), "indent")
  \o Flag(BlanksLine(tx, new, R), "blankln")
  \o Flag(TrailingWs(new, R, p), "tws")
  \o Flag(SemiAfter(tx, R) \/ (i # 0 /\ SemiAfter(tx, <<P[i][2], P[i][3], P[i][4], P[i][5]>>)), "semiafter")
  \o Flag(HasAny(p, 35), "hash")
  \o Flag(HasAny(p, 59) \/ HasAny(RectText(tx, R), 59), "semi")
  \o Flag(Bslash(tx, new, R, p), "bslash")
  \o Flag(TouchesLeadingKw(T, P, R), "kw")
  \o Flag(Crosses(P, R), "cross")
  \o Flag(Inline(tx, P, i), "inline")
  \o Flag(ElifChain(P, i), "elifchain")
  \o Flag(ContEOF(new), "conteof")
  \o Flag(Degenerate(P, R), "deg")

(* effect on the statement skeleton: is it confined to the enclosing statement? *)
SameRow(a, b) == a[1] = b[1] /\ a[9] = b[9]
SkPart(s, e, R, P, N, i, valid) ==
  IF ~valid THEN "invalid"
  ELSE IF i = 0 THEN "top"
  ELSE LET d  == Cardinality({j \in (i + 1)..Len(P) : RInside(P[j], P[i])})   \* descendants follow in pre-order
           nb == i - 1
           na == Len(P) - (i + d)
           nm == Len(N) - nb - na
           pre == \A j \in 1..nb : j <= Len(N) /\ SameRow(N[j], P[j]) /\ N[j][2] = P[j][2] /\ N[j][3] = P[j][3]
           dl  == Len(TextOf(e.otext)) - Len(Pre(s))      \* line shift of everything below the edit
           suf == \A j \in 1..na :
                    LET a == Len(N) - na + j  b == i + d + j IN
                    /\ a >= 1 /\ SameRow(N[a], P[b])
                    /\ (P[b][2] > R[3] => (N[a][2] = P[b][2] + dl /\ N[a][3] = P[b][3]))
           dep == P[i][9]
           mid == [j \in 1..(IF nm > 0 THEN nm ELSE 0) |-> N[nb + j]]
           top == Cardinality({j \in 1..Len(mid) : mid[j][9] = dep})
       IN IF nm < 0 \/ ~pre \/ ~suf THEN "nonlocal"
          ELSE IF nm = 0 THEN "gone"
          ELSE IF \E j \in 1..Len(mid) : mid[j][9] < dep THEN "nonlocal"
          ELSE IF mid[1][9] # dep THEN "nonlocal"
          ELSE IF P[i][1] \in {"ExceptHandler", "match_case"} /\ mid[1][1] # P[i][1] THEN "nonlocal"
          ELSE IF top > 1 THEN "split"
          ELSE "local"

ClassOf(s, e) ==
  IF IsClipErr(s, e) THEN s.rootKind \o ":" \o e.call \o "@" \o e.self \o "/cliperror"
  ELSE
  LET tx == Pre(s)  R == Rect(s, e)  p == Repl(e)  new == New(s, e)
      P == PStm(s)  T == Toks(s)  i == EncIdx(P, R)
  IN s.rootKind \o ":" \o e.call \o "@" \o e.self \o "/in:" \o InPart(P, i, R) \o "/at:" \o AtPart(P, i, R) \o "/tok:" \o TokPart(T, R)
       \o "/fx:" \o FxPart(tx, new, T, P, i, R, p) \o "/sk:" \o SkPart(s, e, R, P, NStm(e), i, e.valid)

(* ======================================================================== *)
Init == /\ tid \in 1..Len(Traces)
        /\ l = 1
        /\ st = Traces[tid].init
        /\ bad = {}
        /\ seen = {}

Next == /\ l <= Len(Steps(tid))
        /\ LET e  == Steps(tid)[l]
               cs == Clauses(st, e)
               k  == ClassOf(st, e)
           IN /\ bad' = bad \cup {<<l, r.c, k>> : r \in {q \in cs : ~q.ok}}
              /\ seen' = seen \cup {r.c : r \in cs} \cup {"@" \o e.outcome \o "/" \o k}
              /\ st' = e.post
        /\ l' = l + 1
        /\ UNCHANGED tid

Spec == Init /\ [][Next]_vars

Report == (l = Len(Steps(tid)) + 1) => PrintT(<<"VERDICT", Traces[tid].id, bad, seen>>)
=============================================================================
