---------------------------- MODULE ParseModesMC -----------------------------
(* Model of the C05 law on a small grid.                                      *)
(*                                                                            *)
(* (1) ASSUMEs: the mode table of ParseModes.tla is total (every mode of the   *)
(*     Mode literal and every AST class name has a well-formed row) and is     *)
(*     emitted as JSON for the harness (single source of truth), together      *)
(*     with the mode x kind matrix the harness has to cover.                   *)
(* (2) State machine: a fragment is a root span with one child span on a       *)
(*     MaxLine x MaxCol grid; Embed places it behind an arbitrary prefix       *)
(*     (dLine lines, dCol columns on the first line, optional 1-blank          *)
(*     indentation of a set of lines); CPython "parses" the embedding either   *)
(*     faithfully, or with the root swallowing the wrapper's delimiters        *)
(*     (Delimited: undelimited Tuple), or merged with wrapper text (Escape);   *)
(*     the specified parser then answers Tree or Reject.  Invariants:          *)
(*     Shift o Unshift = id, order preserved, the acceptance rule decides      *)
(*     Tree exactly for the faithful and the unwrapped-delimited parses, and   *)
(*     the expected tree is the original fragment.                             *)
EXTENDS ParseCases, Json, IOUtils, SequencesExt

CONSTANTS MaxLine, MaxCol, MaxDLine, MaxDCol

ASSUME TableTotal
ASSUME KindsCovered
ASSUME ShapesTotal
ModeSeq   == SetToSeq(Modes)
TableRows == [i \in 1..Len(ModeSeq) |-> [mode |-> ModeSeq[i], row |-> Row(ModeSeq[i])]]
Matrix    == SetToSeq({<<m, k>> : m \in Modes, k \in ExprKinds \cup StmtKinds \cup PatKinds \cup TParKinds \cup
                        BoolOps \cup BinOps \cup UnaryOps \cup CmpOps \cup ModKinds \cup Containers \cup
                        {"ExceptHandler", "match_case", "comprehension", "arguments", "arg", "keyword", "alias",
                         "withitem"}} \cap {<<m, k>> \in Modes \X STRING : k \in Row(m).kinds})
ASSUME ("OUT_FILE" \in DOMAIN IOEnv) => JsonSerialize(IOEnv.OUT_FILE, [table |-> TableRows, matrix |-> Matrix,
                                                                       shapes |-> [i \in 1..Len(ModeSeq) |-> [mode |-> ModeSeq[i], sep |-> Sep(ModeSeq[i]), shapes |-> Shapes(ModeSeq[i])]],
                                                                       bridges |-> SetToSeq(Bridges), multiline |-> MultiLine,
                                                                       mlstrings |-> MLStrings, mlnodes |-> MLNodes,
                                                                       mlslots |-> [i \in 1..Len(ModeSeq) |-> [mode |-> ModeSeq[i], slots |-> MLSlots(ModeSeq[i])]]])

VARIABLES phase, frag, par, how, emb, answer
vars == <<phase, frag, par, how, emb, answer>>

Lines  == 1..MaxLine
Cols   == 0..MaxCol
Spans  == {s \in Lines \X Cols \X Lines \X Cols : LE(s[1], s[2], s[3], s[4]) /\ ~(s[1] = s[3] /\ s[2] = s[4])}
None4  == <<0, 0, 0, 0>>

Pad(n) == SubSeq("xxxxxxxxxxxx", 1, n)
AltOf(p) == [Alt([i \in 1..(p.dl + 1) |-> IF i = p.dl + 1 THEN Pad(p.dc) ELSE "x"], <<"", "x">>, <<>>, "_")
               EXCEPT !.ind = p.ind, !.unwrap = p.unwrap]
IndEmb(p) == {l + p.dl : l \in p.indLines}

Unshift4(s, p) == LET a == AltOf(p)
                      b == UnshiftLC(s[1], s[2], a, p.indLines)  e == UnshiftLC(s[3], s[4], a, p.indLines)
                  IN <<b[1], b[2], e[1], e[2]>>
(* the region of the embedding that is occupied by the fragment's text (the whole grid) *)
Region(p)   == Unshift4(<<1, 0, MaxLine, MaxCol>>, [p EXCEPT !.indLines = IF p.ind = 1 THEN p.indLines ELSE {}])
(* span of the delimiters an own-lines embedding puts around the fragment *)
DelimSpan(p) == <<1, 0, MaxLine + p.dl + 1, 1>>

Init == /\ phase = "init" /\ frag = [root |-> None4, child |-> None4]
        /\ par = [dl |-> 0, dc |-> 0, ind |-> 0, indLines |-> {}, unwrap |-> FALSE]
        /\ how = "-" /\ emb = frag /\ answer = [o |-> "-", tree |-> frag]

Pick == /\ phase = "init"
        /\ \E r \in Spans, c \in Spans, dl \in 0..MaxDLine, dc \in 0..MaxDCol, ind \in {0, 1},
              il \in SUBSET Lines, uw \in BOOLEAN :
             /\ Inside(c, r)
             /\ (ind = 0 => il = {})
             /\ frag' = [root |-> r, child |-> c]
             /\ par' = [dl |-> dl, dc |-> dc, ind |-> ind, indLines |-> il, unwrap |-> uw]
        /\ phase' = "picked" /\ UNCHANGED <<how, emb, answer>>

Embed == /\ phase = "picked"
         /\ emb' = [root |-> Unshift4(frag.root, par), child |-> Unshift4(frag.child, par)]
         /\ phase' = "embedded" /\ UNCHANGED <<frag, par, how, answer>>

(* what CPython makes of the embedding *)
ParseFaithful  == /\ phase = "embedded" /\ how' = "faithful" /\ phase' = "parsed" /\ UNCHANGED <<frag, par, emb, answer>>
ParseDelimited == /\ phase = "embedded" /\ par.dl >= 1 /\ par.dc = 0 /\ frag.root # frag.child
                  /\ how' = "delimited" /\ phase' = "parsed" /\ UNCHANGED <<frag, par, emb, answer>>
ParseEscape    == /\ phase = "embedded" /\ (par.dl >= 1 \/ par.dc >= 1)
                  /\ how' \in {"escape-root", "escape-both"} /\ phase' = "parsed" /\ UNCHANGED <<frag, par, emb, answer>>

(* the tree CPython reports for the embedding *)
Full == CASE how = "delimited"   -> [root |-> DelimSpan(par), child |-> emb.child]
          [] how = "escape-root" -> [root |-> <<1, 0, emb.root[3], emb.root[4]>>, child |-> emb.child]
          [] how = "escape-both" -> [root |-> <<1, 0, emb.root[3], emb.root[4]>>, child |-> <<1, 0, emb.child[3], emb.child[4]>>]
          [] OTHER -> emb

Facts == [parses |-> TRUE, straddle |-> FALSE, balanced |-> TRUE, pathOk |-> TRUE, outsideSame |-> TRUE, kindOk |-> TRUE,
          contained |-> Inside(Full.root, Region(par)) /\ Inside(Full.child, Region(par)),
          unwrapped |-> /\ Full.root = DelimSpan(par) /\ ~Inside(Full.root, Region(par))
                        /\ Inside(Full.child, Region(par)),
          starQuirk |-> FALSE, sameAsPh |-> TRUE]

(* first-to-last token of the fragment = the extent of its root, as tokenize reports it on the embedding *)
TokSpan == emb.root

Expected ==
  LET a == AltOf(par) IN
  [root  |-> IF ~Facts.contained THEN ShiftPos(TokSpan, a, IndEmb(par)) ELSE ShiftPos(Full.root, a, IndEmb(par)),
   child |-> ShiftPos(Full.child, a, IndEmb(par))]

Answer == /\ phase = "parsed"
          /\ LET row == Node({"K"}, <<AltOf(par)>>)
                 req == CHOOSE o \in Allowed(row, <<AltValid(AltOf(par), Facts)>>, TRUE, FALSE, FALSE) : TRUE
             IN answer' = [o |-> req, tree |-> IF req = "tree" THEN Expected ELSE frag]
          /\ phase' = "done" /\ UNCHANGED <<frag, par, how, emb>>

Accept == Answer /\ answer'.o = "tree"
Reject == Answer /\ answer'.o = "reject"
Stop   == phase = "done" /\ UNCHANGED vars

Next == Pick \/ Embed \/ ParseFaithful \/ ParseDelimited \/ ParseEscape \/ Accept \/ Reject \/ Stop
Spec == Init /\ [][Next]_vars

(* ------------------------------ invariants --------------------------------- *)
RoundTrip == phase \in {"embedded", "parsed", "done"} =>
  /\ ShiftPos(emb.root, AltOf(par), IndEmb(par)) = frag.root
  /\ ShiftPos(emb.child, AltOf(par), IndEmb(par)) = frag.child
  /\ Inside(emb.root, Region(par)) /\ Inside(emb.child, Region(par))

(* Shift keeps the order of any two points of the region *)
Monotone == phase = "embedded" =>
  LET a == AltOf(par)  R == Region(par) IN
  \A l1, l2 \in R[1]..R[3], c1, c2 \in 0..(MaxCol + MaxDCol + 1) :
     (Inside(<<l1, c1, l1, c1>>, R) /\ Inside(<<l2, c2, l2, c2>>, R) /\ LE(l1, c1, l2, c2)) =>
        LET s == ShiftLC(l1, c1, a, IndEmb(par))  t == ShiftLC(l2, c2, a, IndEmb(par))
        IN LE(s[1], s[2], t[1], t[2]) /\ ((l1 # l2 \/ c1 # c2) => s # t)

FaithfulAccepted == phase = "done" /\ how = "faithful" => answer.o = "tree" /\ answer.tree = frag
DelimitedRule    == phase = "done" /\ how = "delimited" =>
                       IF par.unwrap THEN answer.o = "tree" /\ answer.tree = frag ELSE answer.o = "reject"
EscapeRejected   == phase = "done" /\ how \in {"escape-root", "escape-both"} => answer.o = "reject"
(* the rule is total: every combination of facts requires exactly one outcome *)
FactSpace == [parses : BOOLEAN, straddle : BOOLEAN, balanced : BOOLEAN, pathOk : BOOLEAN, outsideSame : BOOLEAN, kindOk : BOOLEAN,
              contained : BOOLEAN, unwrapped : BOOLEAN, starQuirk : BOOLEAN, sameAsPh : BOOLEAN]
RuleTotal == phase = "init" =>
  \A f \in FactSpace, uw \in BOOLEAN, ns \in BOOLEAN, sm \in BOOLEAN, tok \in BOOLEAN, bl \in BOOLEAN, lt \in BOOLEAN,
     sh \in {"node", "list", "never"}, inl \in BOOLEAN :
     LET a == [Alt(<<"">>, IF inl THEN <<" _">> ELSE <<"", ")">>, <<>>, "_") EXCEPT !.unwrap = uw, !.noStar = ns, !.same = sm]
         row == [Node({"K"}, <<a>>) EXCEPT !.shape = sh, !.emptyOk = (sh = "list")]
         r == Allowed(row, <<AltValid(a, f)>>, tok, bl, lt)
     IN /\ r # {} /\ r \subseteq {"tree", "reject"}
        /\ (r = {"tree", "reject"} => sh = "list" /\ inl /\ ((~tok /\ ~bl) \/ (tok /\ lt)))   \* only the two named restrictions
        /\ (sh = "never" => r = {"reject"})
        /\ (sh = "node" /\ "tree" \in r => f.parses /\ f.pathOk /\ f.outsideSame /\ f.kindOk /\ ~f.straddle /\ f.balanced)
        /\ (sh = "node" /\ "tree" \in r /\ ~uw => f.contained)
        /\ (tok /\ "tree" \in r => AltValid(a, f))
=============================================================================
