SPECIFICATION Spec
CONSTANTS
  MaxNodes = 4
  MaxTmpl = 3
  Emit = 0
INVARIANTS InvStaticNN InvStaticN InvIdentity InvCounts InvFunctional InvFunctionalN InvStepLocal InvEmit
CHECK_DEADLOCK FALSE
