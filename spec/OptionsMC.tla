------------------------------ MODULE OptionsMC ------------------------------
(* Small-constant instances of Options.tla for exhaustive checking:           *)
(*   A  one thread, 2 options x 2 values, blocks nested 3 deep  (block laws)  *)
(*   B  two threads, 2 options x 2 values, one block each       (isolation)   *)
(*   C  three threads, 1 option x 2 values, nesting 2/1/1       (isolation)   *)
(*   T* thorough-tier variants with larger constants                          *)
(* every configuration passes maps of up to MaxMap entries over the option    *)
(* names + one unknown name and the values + one invalid value.               *)
EXTENDS Options
CONSTANTS t1, t2, t3, o1, o2, o3, v0, v1, v2,
          MaxMap              \* bound on the number of options passed at once

Maps == UNION {[D -> AllVals] : D \in {S \in SUBSET Names : Cardinality(S) <= MaxMap}}

DoSpawn == \E t \in Threads : Spawn(t)
DoDie   == \E t \in Threads : Die(t)
DoCall  == \E t \in Threads, m \in Maps : Call(t, m)
DoSet   == \E t \in Threads, m \in Maps : SetOptions(t, m)
DoEnter == \E t \in Threads, m \in Maps : EnterWith(t, m)
DoExit  == \E t \in Threads, how \in {"normal", "exception"} : ExitWith(t, how)

Next == DoSpawn \/ DoDie \/ DoCall \/ DoSet \/ DoEnter \/ DoExit
Spec == Init /\ [][Next]_vars

Def1  == (o1 :> v0)
Def2  == (o1 :> v0) @@ (o2 :> v0)
Def3  == (o1 :> v0) @@ (o2 :> v0) @@ (o3 :> v0)
NestA == (t1 :> 3)
NestB == (t1 :> 1) @@ (t2 :> 1)
NestC == (t1 :> 2) @@ (t2 :> 1) @@ (t3 :> 1)
NestS == (t1 :> 3) @@ (t2 :> 3) @@ (t3 :> 3)
NestTA == (t1 :> 4)
NestTB == (t1 :> 2) @@ (t2 :> 1)
NestTC == (t1 :> 2) @@ (t2 :> 2) @@ (t3 :> 1)
=============================================================================
