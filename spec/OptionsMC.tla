------------------------------ MODULE OptionsMC ------------------------------
(* Small-constant instance of Options.tla for exhaustive checking.            *)
EXTENDS Options
CONSTANTS t1, t2, t3, o1, o2, o3, v0, v1, v2
Def2  == (o1 :> v0) @@ (o2 :> v0)
Def3  == (o1 :> v0) @@ (o2 :> v0) @@ (o3 :> v0)
Nest2 == (t1 :> 2) @@ (t2 :> 1)
Nest3 == (t1 :> 2) @@ (t2 :> 1) @@ (t3 :> 1)
NestT == (t1 :> 3) @@ (t2 :> 2)
=============================================================================
