------------------------------ MODULE OptionsMC ------------------------------
(* Small-constant instances of Options.tla for exhaustive checking.           *)
(* Cells c0, c1, c2 start with the valid contents v0, v1, v2, cell cb with    *)
(* the invalid content; every option's default is c0.                         *)
(*   A  one thread, 2 options x 2 values, blocks nested 3 deep, MaxMap 1      *)
(*   A2 the same with MaxMap 2 (thorough tier)                                *)
(*   B  two threads, 2 options x 2 values, one block each, MaxMap 2           *)
(*   C  three threads, 1 option x 2 values, one block each, MaxMap 1          *)
(*   H  one thread, 2 options, cell c1 mutable (the user may rewrite it at    *)
(*      any time), blocks nested 2 deep, MaxMap 1              (heap laws)    *)
(*   T* thorough-tier variants with larger constants                          *)
(* every configuration passes maps of up to MaxMap entries over the option    *)
(* names + one unknown name and all cells (so also the invalid one).          *)
EXTENDS Options
CONSTANTS t1, t2, t3, o1, o2, o3, v0, v1, v2, c0, c1, c2, cb,
          MaxMap              \* bound on the number of options passed at once

Maps == UNION {[D -> Cells] : D \in {S \in SUBSET Names : Cardinality(S) <= MaxMap}}

DoSpawn == \E t \in Threads : Spawn(t)
DoDie   == \E t \in Threads : Die(t)
DoCall  == \E t \in Threads, m \in Maps : Call(t, m)
DoSet   == \E t \in Threads, m \in Maps : SetOptions(t, m)
DoEnter == \E t \in Threads, m \in Maps : EnterWith(t, m)
DoExit  == \E t \in Threads, how \in {"normal", "exception"} : ExitWith(t, how)
DoWrite == \E c \in Mutable, v \in Vals : UserWrite(c, v)

Next == DoSpawn \/ DoDie \/ DoCall \/ DoSet \/ DoEnter \/ DoExit \/ DoWrite
Spec == Init /\ [][Next]_vars

(* `last` is a ghost outside the VIEW, so TLC evaluates an INVARIANT only with the action that first reaches a    *)
(* state; the laws are therefore (also) checked as an action property, on *every* transition (e.g. every Call,  *)
(* which never leaves its state)                                                                                 *)
Laws == /\ TypeOK /\ HeapUntouched /\ CallIsolation /\ RejectAtomic /\ SetExact /\ Restore /\ UnnamedKept
        /\ BlockTransparent /\ SavedIsEntry /\ NestedRestore /\ ThreadIsolation /\ FreshThreadDefaults
LawsOnEveryStep == [][Laws']_vars

Heap2 == (c0 :> v0) @@ (c1 :> v1) @@ (cb :> Bad)
Heap3 == (c0 :> v0) @@ (c1 :> v1) @@ (c2 :> v2) @@ (cb :> Bad)
Def1  == (o1 :> c0)
Def2  == (o1 :> c0) @@ (o2 :> c0)
Def3  == (o1 :> c0) @@ (o2 :> c0) @@ (o3 :> c0)
NestA == (t1 :> 3)
NestB == (t1 :> 1) @@ (t2 :> 1)
NestC == (t1 :> 1) @@ (t2 :> 1) @@ (t3 :> 1)
NestH == (t1 :> 2)
NestS == (t1 :> 3) @@ (t2 :> 3) @@ (t3 :> 3)
NestTA == (t1 :> 4)
NestTB == (t1 :> 2) @@ (t2 :> 1)
NestTC == (t1 :> 2) @@ (t2 :> 2) @@ (t3 :> 1)
NestTH == (t1 :> 1) @@ (t2 :> 1)
=============================================================================
