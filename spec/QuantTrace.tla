----------------------------- MODULE QuantTrace -----------------------------
(* (V) Three-way agreement on quantified list patterns, decided by TLC.       *)
(* A trace is a chunk of rows; a row names an instance of Quant.tla by its id *)
(* and carries the recorded answers of                                        *)
(*   re   : Python's re.fullmatch(Regex(pats), word)  {ok, acc, u, spans}     *)
(*   obs  : the real pfst on one concretisation each   {cont, exc, acc, u,    *)
(*          its = [[qid, start, end] ...] iteration spans of tagged           *)
(*          quantifiers, in order}                                            *)
(* TLC recomputes FirstMatch for the instance and evaluates, per row,         *)
(*   RowInDomain   the row is a valid instance of the stated domain           *)
(*   ReAccept      the regular expression accepts iff the specification does  *)
(*   ReSpans       ... with the same group spans (u and every quantifier)     *)
(*   PfstAccept    pfst accepts iff the specification does (no exception)     *)
(*   PfstCaptures  ... with the same u and the same iteration spans for every *)
(*                 observable quantifier                                      *)
(* Verdicts are total; classes: "re", "harness", or                          *)
(* <feature>/<container> with feature "elemstep" / "stalestatic" when pfst's  *)
(* answer is exactly what that known-finding classifier of Quant.tla          *)
(* predicts, else flat / subseq.                                              *)
EXTENDS Quant, Json, IOUtils

Batch  == JsonDeserialize(IOEnv.TRACE_FILE)
Traces == Batch.traces

VARIABLES tid, l, bad, seen
vars == <<tid, l, bad, seen>>

Steps(t) == Traces[t].steps
Cl(c, ok, class) == [c |-> c, ok |-> ok, class |-> class]

Triples(s) == {<<s[i][1], s[i][2], s[i][3]>> : i \in 1..Len(s)}
ObsIters(o, q) == LET s == SelectSeq(o.its, LAMBDA e : e[1] = q) IN [i \in 1..Len(s) |-> <<s[i][2], s[i][3]>>]

SameAnswer(pats, o, r) ==       \* the observation o equals the answer r on everything observable
  /\ o.exc = "" /\ o.acc = r.acc
  /\ r.acc => /\ o.u = r.u
              /\ \A q \in (IF o.anon THEN {} ELSE Observable(pats)) : ObsIters(o, q[1]) = Spans(Iters(r, q[1]))
                 \* o.anon: the concretisation left every quantifier anonymous (bare classes, merged tags)

(* quantifiers on which StaleStatic can show: anonymous (contains the capture), greedy, finite max, given static tags *)
StaleQs(pats, o) == {10 * i : i \in {i \in 1..Len(pats) : /\ pats[i].k = "q" /\ pats[i].g /\ pats[i].mx < Inf
                                                         /\ (o.anon \/ HasCap(pats[i])) /\ 10 * i \in ToSet(o.static)}}
Feature(pats, w, o) ==
  LET sq == StaleQs(pats, o)  gs == HasGreedySub(pats) IN
  IF gs /\ SameAnswer(pats, o, FirstKnown(pats, w, TRUE, {})) THEN "elemstep"
  ELSE IF sq # {} /\ SameAnswer(pats, o, FirstKnown(pats, w, FALSE, sq)) THEN "stalestatic"
  ELSE IF gs /\ sq # {} /\ SameAnswer(pats, o, FirstKnown(pats, w, TRUE, sq)) THEN "elemstep+stalestatic"
  ELSE IF IsFlat(pats) THEN "flat" ELSE "subseq"

RowClauses(e) ==
  IF ~(ValidId(e.id) /\ InDomain(PatsOf(e.id))) THEN {Cl("RowInDomain", FALSE, "harness")}
  ELSE
  LET pats == PatsOf(e.id)
      w == WordOf(e.id[4])
      r == FirstMatch(pats, w)
      reGroups == {<<q[1], LastWhole(r, q[1])[1], LastWhole(r, q[1])[2]>> : q \in QIds(pats)}
  IN {Cl("RowInDomain", TRUE, "harness"),
      Cl("ReAccept", e.re.ok /\ e.re.acc = r.acc, "re")}
     \cup (IF r.acc /\ e.re.ok /\ e.re.acc
           THEN {Cl("ReSpans", e.re.u = r.u /\ Triples(e.re.spans) = reGroups, "re")} ELSE {})
     \cup UNION {LET o == e.obs[k]
                     class == Feature(pats, w, o) \o "/" \o o.cont
                 IN {Cl("PfstAccept", o.exc = "" /\ o.acc = r.acc, class)}
                    \cup (IF r.acc /\ o.exc = "" /\ o.acc
                          THEN {Cl("PfstCaptures", SameAnswer(pats, o, r), class)} ELSE {})
                 : k \in 1..Len(e.obs)}

Init == /\ tid \in 1..Len(Traces)
        /\ l = 1
        /\ bad = {}
        /\ seen = {}

Next == /\ l <= Len(Steps(tid))
        /\ LET cs == RowClauses(Steps(tid)[l])
           IN /\ bad' = bad \cup {<<l, c.c, c.class>> : c \in {q \in cs : ~q.ok}}
              /\ seen' = seen \cup {c.c : c \in cs}
        /\ l' = l + 1
        /\ UNCHANGED tid

Spec == Init /\ [][Next]_vars

Report == (l = Len(Steps(tid)) + 1) => PrintT(<<"VERDICT", Traces[tid].id, bad, seen>>)
=============================================================================
