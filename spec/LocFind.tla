------------------------------- MODULE LocFind -------------------------------
(* C06, by-location search.  Brute-force definitions of find_in_loc,          *)
(* find_contains_loc and find_loc as set comprehensions over a span tree,     *)
(* written from the docstrings of fst.py (not from the loops):                *)
(*                                                                            *)
(*   find_in_loc        "first highest level node which is contained entirely *)
(*                       in location (inclusive) ... First node in syntactic  *)
(*                       order which is entirely contained"                   *)
(*   find_contains_loc  "lowest level node which entirely contains location"; *)
(*                       allow_exact = TRUE : exact match allowed, lowest one *)
(*                       FALSE : "cannot be touching BOTH ends of the node"   *)
(*                       'top' : exact allowed, "return the highest level     *)
(*                       node with the match"                                 *)
(*   find_loc           exact match if there is one (exact_top: highest,      *)
(*                       else lowest), otherwise find_in_loc "is preferred if *)
(*                       there is a match and if not then find_contains_loc"  *)
(*   all of them        "only find nodes at self or below, no parents"        *)
(*                                                                            *)
(* A span tree is given by                                                    *)
(*   par : 1..n -> 0..n   parent (0 for the top), nodes numbered in syntax    *)
(*                        (pre-)order, so "first in syntactic order" = least  *)
(*   sp  : 1..n -> <<s, e>> | <<>>   span in totally ordered integer          *)
(*                        positions, <<>> for a node without location         *)
(* The operators take the set N of nodes searched from the start node f       *)
(* (N = Scope(par, sp, f): f and below, those with a location).               *)
(* A rectangle is r = <<s, e>>, s <= e.  The results are SETS of candidates:  *)
(* the docstrings determine the answer only up to the ties listed in          *)
(* LocFindMC (empty rectangles on a boundary, zero-length nodes); where the   *)
(* candidate set is a singleton - proved for proper rectangles by TLC in      *)
(* LocFindMC - the answer is determined.                                      *)
EXTENDS Integers, Sequences, FiniteSets

Within(x, r) == x # <<>> /\ r[1] <= x[1] /\ x[2] <= r[2]     \* node span x lies inside r
Covers(x, r) == x # <<>> /\ x[1] <= r[1] /\ r[2] <= x[2]     \* node span x contains r

RECURSIVE AncIn(_, _, _)                 \* some proper ancestor of n is in S
AncIn(par, n, S) == par[n] # 0 /\ (par[n] \in S \/ AncIn(par, par[n], S))

RECURSIVE Ancs(_, _)                     \* proper ancestors of n
Ancs(par, n) == IF par[n] = 0 THEN {} ELSE {par[n]} \cup Ancs(par, par[n])

Under(par, n, f) == n = f \/ f \in Ancs(par, n)               \* n is f or below
(* the nodes searched from f: f and below, those that have a location         *)
Scope(par, sp, f) == {n \in DOMAIN par : sp[n] # <<>> /\ Under(par, n, f)}
(* the same for tables numbered in pre-order: the sub-tree of f is the        *)
(* longest run f, f+1, .. whose parents are >= f (LocFindMC: ScopePre = Scope) *)
RECURSIVE RunEnd(_, _, _)
RunEnd(par, f, m) == IF m + 1 \in DOMAIN par /\ par[m + 1] >= f THEN RunEnd(par, f, m + 1) ELSE m
ScopePre(par, sp, f) == {n \in f..RunEnd(par, f, f) : sp[n] # <<>>}

Highest(par, S) == {n \in S : ~AncIn(par, n, S)}
Lowest(par, S)  == S \ UNION {Ancs(par, m) : m \in S}
First(S)        == IF S = {} THEN {} ELSE {CHOOSE n \in S : \A m \in S : n <= m}

(* ---- find_in_loc: the brute-force scan in syntax order ------------------- *)
InSet(sp, N, r) == {n \in N : Within(sp[n], r)}
FindIn(sp, N, r) == First(InSet(sp, N, r))
(* the same, said without the scan order: an outermost contained node with    *)
(* the least start (LocFindMC: equal to FindIn on well-formed trees)          *)
FindInDecl(par, sp, N, r) ==
  LET T == Highest(par, InSet(sp, N, r))
  IN {n \in T : \A m \in T : sp[n][1] <= sp[m][1]}

(* ---- find_contains_loc --------------------------------------------------- *)
ExactSet(sp, N, r) == {n \in N : sp[n] = r}
CovSet(sp, N, r, exact) ==
  {n \in N : Covers(sp[n], r) /\ (exact \/ sp[n] # r)}

FindContains(par, sp, N, r, mode) ==          \* mode \in {"T", "F", "top"}
  IF mode = "top" /\ ExactSet(sp, N, r) # {}
  THEN Highest(par, ExactSet(sp, N, r))
  ELSE Lowest(par, CovSet(sp, N, r, mode # "F"))

(* ---- find_loc ------------------------------------------------------------ *)
FindLoc(par, sp, N, r, top) ==
  LET E == ExactSet(sp, N, r)  I == FindIn(sp, N, r)
  IN IF E # {} THEN (IF top THEN Highest(par, E) ELSE Lowest(par, E))
     ELSE IF I # {} THEN I
     ELSE Lowest(par, CovSet(sp, N, r, TRUE))

(* empty rectangles (s = e): the docstrings do not say whether a node that    *)
(* merely touches the point contains it, so only this much is required: the   *)
(* exact / inside preference as above, and otherwise SOME containing node     *)
FindLocWeak(par, sp, N, r, top) ==
  LET E == ExactSet(sp, N, r)  I == FindIn(sp, N, r)
  IN IF E # {} THEN (IF top THEN Highest(par, E) ELSE Lowest(par, E))
     ELSE IF I # {} THEN I
     ELSE CovSet(sp, N, r, TRUE)

(* outside the determined domain (below) only this is required of find_loc:   *)
(* an exact match, a node inside, or a node containing the rectangle           *)
FindLocWeakest(sp, N, r) ==
  ExactSet(sp, N, r) \cup InSet(sp, N, r) \cup CovSet(sp, N, r, TRUE)

(* domain in which find_loc / find_contains_loc are determined by the          *)
(* docstrings: proper rectangle, and no zero-length node (pfst: an empty       *)
(* `arguments`) sitting exactly on one of its ends (LocFindMC shows what goes  *)
(* wrong otherwise: the inside-preference of find_loc is only applied below    *)
(* the containing node)                                                        *)
ZeroTouch(sp, N, r) ==
  \E n \in N : sp[n][1] = sp[n][2] /\ sp[n][1] \in {r[1], r[2]}
Determined(sp, N, r) == r[1] < r[2] /\ ~ZeroTouch(sp, N, r)

(* an answer `a` (0 = None) agrees with a candidate set                       *)
Agrees(a, C) == IF C = {} THEN a = 0 ELSE a \in C
=============================================================================
