------------------------------ MODULE CoerceMC ------------------------------
(* Model checking of Coerce.tla on a small kind/mode subset, totality of the  *)
(* full tables, and emission of the complete matrix / mode / slot tables as   *)
(* JSON (IOEnv.C19_TABLE) for the conformance harness.                        *)
EXTENDS Coerce, TLC, Json, IOUtils, SequencesExt

(* one row per mode; the matrix column of the mode is given as the partition  *)
(* of all source kinds by cell value (exhaustive: same \cup doc \cup may = Kinds) *)
CellsOf(m, v) == SetToSeq({k \in Kinds : Cell(k, m) = v})
ModeRow(m) == [mode |-> m, cat |-> Category(m), kinds |-> SetToSeq(KindsOf(m)), embeds |-> Embeds(m),
               same |-> CellsOf(m, "same"), doc |-> CellsOf(m, "doc"), may |-> CellsOf(m, "may")]

Table == [kinds  |-> SetToSeq(Kinds),
          modes  |-> SetToSeq({ModeRow(m) : m \in Modes}),
          slots  |-> Slots]

(* totality: every pair has an entry, every mode has admitted kinds and - but *)
(* for "all" - at least one embedding, every slot names a mode                *)
ASSUME \A k \in Kinds, m \in Modes : Cell(k, m) \in CellValues
ASSUME \A m \in Modes : KindsOf(m) # {} /\ KindsOf(m) \subseteq Kinds
ASSUME \A m \in Modes \ {"all"} : Len(Embeds(m)) >= 1
ASSUME \A m \in Modes : Category(m) \in NamedModes
ASSUME \A k \in Kinds : \E m \in NamedModes \ {"all"} : k \in KindsOf(m)
ASSUME \A c \in DocCells : c[1] \in Kinds /\ c[2] \in Modes /\ c[1] \notin KindsOf(c[2])
ASSUME \A i \in 1..Len(Slots) : Slots[i].mode \in Modes /\ Slots[i].form \in {"one", "elt", "slice"}
ASSUME MKinds \subseteq Kinds /\ MModes \subseteq Modes
ASSUME "C19_TABLE" \in DOMAIN IOEnv => JsonSerialize(IOEnv.C19_TABLE, Table)

StateBound == Len(objs) <= MaxObjs
=============================================================================
