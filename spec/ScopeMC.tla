------------------------------- MODULE ScopeMC -------------------------------
(* Builder of abstract programs: every reachable state is one program in      *)
(* canonical form (sites in breadth-first container order, then by position   *)
(* kind, then by name), so TLC's distinct states = distinct programs within   *)
(* the bounds.  The state dump is the (G) case table; the invariants say that *)
(* the specification is total and self-consistent on every program.           *)
EXTENDS Scope

CONSTANTS MaxDepth,        \* nesting depth of scopes below the module
          MaxScopes,       \* scopes incl. the module
          MaxPerScope,     \* sites written in one construct
          MaxNamed,        \* identifier sites in the program
          MaxWeight,       \* (scopes - 1) + identifier sites
          Shared,          \* sequence of shareable names, e.g. <<"p", "q">>; "u" is a fresh name per site
          PosOn            \* position kinds enabled

VARIABLES prog, wf
vars == <<prog, wf>>

NameRank(n) == IF n = NoName THEN 100 ELSE IF n = "u" THEN 99 ELSE CHOOSE j \in 1..Len(Shared) : Shared[j] = n

(* a site record carries w: 1 for a chosen site, 0 for a carrier parameter that only exists so that a default /   *)
(* annotation site has something to attach to (fresh name, added together with the site that needs it)         *)
Charged(P) == {i \in Named(P) : P.st[i].w = 1}
Weight(P) == (NSc(P) - 1) + Cardinality(Charged(P))
LastKey(P) == IF NSt(P) = 0 THEN <<1, 0, 0>> ELSE LET t == P.st[NSt(P)] IN <<t.c, Rank(t.k), NameRank(t.n)>>
(* canonical order: strictly increasing keys, except that several child scopes may share a position *)
After(P, c, k, n) == LET l == LastKey(P) IN
  \/ l[1] < c
  \/ l[1] = c /\ l[2] < Rank(k)
  \/ l[1] = c /\ l[2] = Rank(k) /\ (l[3] < NameRank(n) \/ (n = NoName /\ l[3] = 100))

UsedNames(P) == NamesOf(P, Named(P))
NameChoices(P) == {"u"} \cup {Shared[j] : j \in {x \in 1..Len(Shared) : x = 1 \/ Shared[x - 1] \in UsedNames(P)}}

ChargedIn(P, c) == {i \in SitesIn(P, c) : P.st[i].w = 1}
Room(P, c) == Cardinality(ChargedIn(P, c)) < MaxPerScope /\ Weight(P) < MaxWeight

Init == prog = Memo([sc |-> <<[kind |-> "module", site |-> 0]>>, st |-> <<>>]) /\ wf = TRUE

Put(P) == prog' = Memo(P) /\ wf' = WellFormed(prog')

(* the carrier a header site needs, if the construct does not have enough parameters yet *)
Carrier(P, c, k) ==
  LET need == CASE k = "default"   -> Count(P, c, {"default"}) >= Count(P, c, {"param"})
                [] k = "kwdefault" -> Count(P, c, {"kwdefault"}) >= Count(P, c, {"kwparam"})
                [] k = "argann"    -> Count(P, c, {"argann"}) >= Count(P, c, ParamPos)
                [] OTHER           -> FALSE
  IN IF need THEN <<[c |-> c, k |-> IF k = "kwdefault" THEN "kwparam" ELSE "param", n |-> "u", ch |-> 0, w |-> 0]>> ELSE <<>>

AddName(c, k, n) ==
  /\ k \in PosOf(KindS(prog, c)) \cap PosOn /\ k \notin {"def", "class"}
  /\ Room(prog, c) /\ Cardinality(Charged(prog)) < MaxNamed /\ After(prog, c, k, n)
  /\ Put([sc |-> prog.sc, st |-> prog.st \o Carrier(prog, c, k) \o <<[c |-> c, k |-> k, n |-> n, ch |-> 0, w |-> 1]>>])

AddExprScope(c, k, kind) ==
  /\ k \in PosOf(KindS(prog, c)) \cap PosOn \cap ExprPos
  /\ Room(prog, c) /\ NSc(prog) < MaxScopes /\ Depth(prog, c) < MaxDepth /\ After(prog, c, k, NoName)
  /\ LET st2 == prog.st \o Carrier(prog, c, k) IN
     Put([sc |-> Append(prog.sc, [kind |-> kind, site |-> Len(st2) + 1]),
          st |-> Append(st2, [c |-> c, k |-> k, n |-> NoName, ch |-> NSc(prog) + 1, w |-> 1])])

AddDef(c, kind, n) ==
  LET k == IF kind = "function" THEN "def" ELSE "class" IN
  /\ KindS(prog, c) \in BodyKinds /\ k \in PosOn
  /\ Room(prog, c) /\ Weight(prog) + 1 < MaxWeight
  /\ Cardinality(Charged(prog)) < MaxNamed /\ NSc(prog) < MaxScopes /\ Depth(prog, c) < MaxDepth /\ After(prog, c, k, n)
  /\ Put([sc |-> Append(prog.sc, [kind |-> kind, site |-> NSt(prog) + 1]),
          st |-> Append(prog.st, [c |-> c, k |-> k, n |-> n, ch |-> NSc(prog) + 1, w |-> 1])])

Open == IF Weight(prog) < MaxWeight
        THEN {x \in 1..NSc(prog) : x >= LastKey(prog)[1] /\ Cardinality(ChargedIn(prog, x)) < MaxPerScope} ELSE {}
DoAddName      == \E c \in Open : \E k \in PosOf(KindS(prog, c)) \cap PosOn, n \in NameChoices(prog) : AddName(c, k, n)
DoAddExprScope == \E c \in Open : \E k \in PosOf(KindS(prog, c)) \cap PosOn \cap ExprPos, kind \in ExprScopeKinds :
                    AddExprScope(c, k, kind)
DoAddDef       == \E c \in Open : \E kind \in {"function", "class"}, n \in NameChoices(prog) : AddDef(c, kind, n)
Next == DoAddName \/ DoAddExprScope \/ DoAddDef

Spec == Init /\ [][Next]_vars

SharedP == <<"p">>
SharedPQ == <<"p", "q">>

M == prog       \* the state carries the memoised owner tables

(* ---- the specification is total and self-consistent on every Mram ------- *)
RealRefs == {Ref(s) : s \in 1..NSc(M)}
ValidRefs == RealRefs \cup {TP(s) : s \in {x \in 1..NSc(M) : HasTP(M, x)}}
                      \cup {TPB(s, j) : s \in 1..NSc(M), j \in 1..MaxPerScope}

OwnerTotal == \A i \in 1..NSt(M) : /\ Owner(M, i, "py") \in ValidRefs
                                       /\ Owner(M, i, "pfst") \in RealRefs
(* every site belongs to exactly one scope: the owned sets partition the sites *)
OwnerPartition == /\ UNION {OwnedBy(M, r, "pfst") : r \in RealRefs} = 1..NSt(M)
                  /\ \A r, q \in RealRefs : r # q => OwnedBy(M, r, "pfst") \cap OwnedBy(M, q, "pfst") = {}
ViewsAgree == (wf /\ \A s \in 1..NSc(M) : ~HasTP(M, s)) =>
                \A i \in 1..NSt(M) : Owner(M, i, "py") = Owner(M, i, "pfst")
WalrusOwnerOk == wf => \A i \in CompWalrus(M) : LET r == Owner(M, i, "py") IN
                         r.t = "s" /\ KindS(M, r.s) \in {"module", "function", "lambda"}
(* header expressions never belong to the scope they are the header of *)
HeaderOutside == \A i \in 1..NSt(M) :
                   M.st[i].k \in {"dec", "default", "kwdefault", "argann", "retann", "base", "ckw", "iter1", "iter1c"}
                   => Owner(M, i, "py") # Ref(M.st[i].c) /\ Owner(M, i, "pfst") # Ref(M.st[i].c)
CatAlgebra == \A s \in 1..NSc(M) :
  LET C(cat) == PfstCat(M, s, cat) IN
  /\ C("local") \subseteq C("store")
  /\ C("free") \subseteq C("load") \cup RootWalrus(M, s)
  /\ NamesOf(M, C("local")) \cap NamesOf(M, C("global") \cup C("nonlocal")) = {}
  /\ NamesOf(M, C("free")) \cap NamesOf(M, C("local") \cup C("del") \cup C("global") \cup C("nonlocal")) = {}
  /\ C("load") \cup C("store") \cup C("del") \cup C("global") \cup C("nonlocal") = PfstWalk(M, s) \cap Named(M)
(* PfstFree: on scopes where the two views coincide, pfst's 'free' is symtable's referenced /\ ~bound /\ ~declared *)
Plain(s) == /\ ~Inlined(M, s) /\ ~IsComp(M, s)
            /\ \A x \in 1..NSc(M) : ~HasTP(M, x)
            /\ InlinedInto(M, Ref(s)) = {Ref(s)}
            /\ \A i \in OwnedBy(M, Ref(s), "py") : M.st[i].k # "aug"
            \* GlobalEcho / module-level comprehension walrus put DEF_GLOBAL into the module row without a declaration there
            /\ s = 1 => /\ \A i \in 1..NSt(M) : M.st[i].k = "global" => M.st[i].c = 1
                        /\ \A i \in CompWalrus(M) : Owner(M, i, "py") # Ref(1)
FreeMapping == wf => \A s \in 1..NSc(M) : Plain(s) =>
  NamesOf(M, PfstCat(M, s, "free"))
    = {n \in TableNames(M, Ref(s)) : LET f == SymRow(M, Ref(s), n) IN "ref" \in f /\ f \cap {"asg", "par", "imp", "glo", "nl"} = {}}
LocalMapping == wf => \A s \in 2..NSc(M) : Plain(s) =>
  \* LocalByStore: 'local' lists store nodes only (docstring); a name that is only deleted is local to Python and is
  \* found under 'del'
  NamesOf(M, PfstCat(M, s, "local"))
    \cup (NamesOf(M, PfstCat(M, s, "del")) \ NamesOf(M, PfstCat(M, s, "global") \cup PfstCat(M, s, "nonlocal")))
    = {n \in TableNames(M, Ref(s)) : "loc" \in SymRow(M, Ref(s), n)}
TablesTree == wf => \A r \in Tables(M) : r # Ref(1) => TableParent(M, r) \in Tables(M)
=============================================================================
