----------------------------- MODULE ExtractBags ----------------------------
(* Conservation of tokens under a move (C07 "loses nothing"), independent of   *)
(* where the token multisets come from (recorded executions in ExtractLaws,    *)
(* the abstract renderer in ExtractMC).                                        *)
(*                                                                            *)
(* A multiset of tokens is given relative to the original's distinct token ids *)
(*   base  = [ids : Seq(id), cnt : Seq(Nat)]                                   *)
(*   other = [v : Seq(Nat) aligned with base.ids, x : Seq(<<id, count>>) for   *)
(*            tokens that do not occur in the original]                        *)
(* Exact(id)   : the token must be conserved exactly (names, numbers, strings, *)
(*               operators that are not separators of the slot)               *)
(* Comment(id) : the token is a comment (conserved exactly, judged separately) *)
(* Everything else (separators, parentheses, elif/else, layout) may be added   *)
(* or dropped by the move itself.                                              *)
EXTENDS Integers, Sequences, FiniteSets

Aligned(base, rem, piece) == Len(rem.v) = Len(base.ids) /\ Len(piece.v) = Len(base.ids) /\ Len(base.cnt) = Len(base.ids)

LostAt(base, rem, piece, i) == base.cnt[i] - (rem.v[i] + piece.v[i])     \* > 0 lost, < 0 duplicated

ConservedWhere(base, rem, piece, Must(_)) ==
  /\ \A i \in 1..Len(base.ids) : Must(base.ids[i]) => LostAt(base, rem, piece, i) = 0
  /\ \A j \in 1..Len(rem.x)   : ~Must(rem.x[j][1])
  /\ \A j \in 1..Len(piece.x) : ~Must(piece.x[j][1])

LostWhere(base, rem, piece, Must(_)) == {i \in 1..Len(base.ids) : Must(base.ids[i]) /\ LostAt(base, rem, piece, i) # 0}
NoNew(rem, piece, Must(_)) == /\ \A j \in 1..Len(rem.x) : ~Must(rem.x[j][1])
                              /\ \A j \in 1..Len(piece.x) : ~Must(piece.x[j][1])

CountIn(seq, x) == Cardinality({j \in 1..Len(seq) : seq[j] = x})

(* every lost Must-token is one of `window` (a sorted sequence of ids with multiplicity) and nothing is duplicated *)
LostWithin(base, rem, piece, Must(_), window) ==
  /\ \A i \in LostWhere(base, rem, piece, Must) :
       LostAt(base, rem, piece, i) > 0 /\ LostAt(base, rem, piece, i) <= CountIn(window, base.ids[i])
  /\ NoNew(rem, piece, Must)
=============================================================================
