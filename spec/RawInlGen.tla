----------------------------- MODULE RawInlGen ------------------------------
(* Direction G, third table: INLINE statement positions x rewrites of a simple *)
(* statement, in particular simple -> compound.                                *)
(*                                                                             *)
(* A statement is inline when it is not the first thing on its line: the body  *)
(* of a one-line block (`if a: T`, also of elif/else/except/finally clauses),  *)
(* a statement after ';' (first / middle / last of the line, also in a block   *)
(* body), the same across a backslash continuation, and nested one level.      *)
(* TLC enumerates host x nesting depth x target statement kind x rectangle in  *)
(* the target x replacement and builds program text and rectangle (code        *)
(* points).  Replacements are every compound-statement header prefix (`if c: `,*)
(* `while b: `, `for i in j: `, `with k: `, `def g(): `, `class K: `, `try: `,  *)
(* `async def g(): `, `match m: `, `else: `, `elif c: `), the same followed by  *)
(* a body for whole-statement rectangles, and simple -> simple controls.        *)
(*                                                                             *)
(* Law: Raw.tla / RawTrace (accepted iff the new whole text parses; then tree   *)
(* = full parse with positions).  Prediction checked against ast.parse by the   *)
(* harness (one direction): Python has no compound statement after a block     *)
(* header's colon or after ';' on the same logical line, so a compound prefix   *)
(* inserted at the start of an inline statement, or a compound statement put    *)
(* in its place, MUST make the text invalid.                                    *)
EXTENDS RawText, FiniteSets, Json, IOUtils, TLC

CONSTANTS Depths, SampleK, SampleN   \* rows kept: ordinal % SampleN = SampleK

SPC == 32

Target(k) ==
  CASE k = "expr" -> <<121>>   \* 'y'
    [] k = "call" -> <<102, 40, 121, 41>>   \* 'f(y)'
    [] k = "assign" -> <<119, 32, 61, 32, 50>>   \* 'w = 2'
    [] k = "pass" -> <<112, 97, 115, 115>>   \* 'pass'
    [] k = "return" -> <<114, 101, 116, 117, 114, 110, 32, 121>>   \* 'return y'
    [] k = "augassign" -> <<119, 32, 43, 61, 32, 50>>   \* 'w += 2'
    [] k = "del" -> <<100, 101, 108, 32, 119>>   \* 'del w'
    [] k = "assert" -> <<97, 115, 115, 101, 114, 116, 32, 121>>   \* 'assert y'
    [] OTHER -> <<>>
FirstTokLen(k) ==
  CASE k = "expr" -> 1
    [] k = "call" -> 1
    [] k = "assign" -> 1
    [] k = "pass" -> 4
    [] k = "return" -> 6
    [] k = "augassign" -> 1
    [] k = "del" -> 3
    [] k = "assert" -> 6
    [] OTHER -> 1
Prefix(k) ==
  CASE k = "if" -> <<105, 102, 32, 99, 58, 32>>   \* 'if c: '
    [] k = "while" -> <<119, 104, 105, 108, 101, 32, 98, 58, 32>>   \* 'while b: '
    [] k = "for" -> <<102, 111, 114, 32, 105, 32, 105, 110, 32, 106, 58, 32>>   \* 'for i in j: '
    [] k = "with" -> <<119, 105, 116, 104, 32, 107, 58, 32>>   \* 'with k: '
    [] k = "def" -> <<100, 101, 102, 32, 103, 40, 41, 58, 32>>   \* 'def g(): '
    [] k = "class" -> <<99, 108, 97, 115, 115, 32, 75, 58, 32>>   \* 'class K: '
    [] k = "try" -> <<116, 114, 121, 58, 32>>   \* 'try: '
    [] k = "asyncdef" -> <<97, 115, 121, 110, 99, 32, 100, 101, 102, 32, 103, 40, 41, 58, 32>>   \* 'async def g(): '
    [] k = "match" -> <<109, 97, 116, 99, 104, 32, 109, 58, 32>>   \* 'match m: '
    [] k = "else" -> <<101, 108, 115, 101, 58, 32>>   \* 'else: '
    [] k = "elif" -> <<101, 108, 105, 102, 32, 99, 58, 32>>   \* 'elif c: '
    [] OTHER -> <<>>
Control(k) ==
  CASE k = "name" -> <<122>>   \* 'z'
    [] k = "assign" -> <<122, 32, 61, 32, 51>>   \* 'z = 3'
    [] k = "pass" -> <<112, 97, 115, 115>>   \* 'pass'
    [] k = "return" -> <<114, 101, 116, 117, 114, 110, 32, 122>>   \* 'return z'
    [] k = "empty" -> <<>>   \* ''
    [] k = "split" -> <<122, 59, 32>>   \* 'z; '
    [] k = "paren" -> <<40, 122, 41>>   \* '(z)'
    [] k = "lambda" -> <<108, 97, 109, 98, 100, 97, 58, 32>>   \* 'lambda: '
    [] OTHER -> <<>>
TargetKinds == {"expr", "call", "assign", "pass", "return", "augassign", "del", "assert"}
PrefixKinds == {"if", "while", "for", "with", "def", "class", "try", "asyncdef", "match", "else", "elif"}
ControlKinds == {"name", "assign", "pass", "return", "empty", "split", "paren", "lambda"}
Hosts == {"if", "while", "for", "with", "def", "class", "try", "except", "finally", "else", "elif", "forelse", "semilast", "semi2", "blocksemi", "bslashsemi", "bslashblock", "nested", "semifirst", "semimid", "blocksemifirst"}
(* lines before the target line (at the host indentation) *)
HostBefore(h) ==
  CASE h = "except" -> <<<<116, 114, 121, 58, 32, 115, 32, 61, 32, 48>>>>
    [] h = "finally" -> <<<<116, 114, 121, 58, 32, 115, 32, 61, 32, 48>>>>
    [] h = "else" -> <<<<105, 102, 32, 97, 58, 32, 115, 32, 61, 32, 48>>>>
    [] h = "elif" -> <<<<105, 102, 32, 97, 58, 32, 115, 32, 61, 32, 48>>>>
    [] h = "forelse" -> <<<<102, 111, 114, 32, 116, 32, 105, 110, 32, 97, 58, 32, 115, 32, 61, 32, 48>>>>
    [] h = "bslashsemi" -> <<<<115, 32, 61, 32, 48, 59, 32, 92>>>>
    [] h = "bslashblock" -> <<<<105, 102, 32, 97, 58, 32, 92>>>>
    [] h = "nested" -> <<<<119, 104, 105, 108, 101, 32, 97, 58>>>>
    [] OTHER -> <<>>
(* text before the target on its own line *)
HostLead(h) ==
  CASE h = "if" -> <<105, 102, 32, 97, 58, 32>>   \* 'if a: '
    [] h = "while" -> <<119, 104, 105, 108, 101, 32, 97, 58, 32>>   \* 'while a: '
    [] h = "for" -> <<102, 111, 114, 32, 116, 32, 105, 110, 32, 97, 58, 32>>   \* 'for t in a: '
    [] h = "with" -> <<119, 105, 116, 104, 32, 97, 58, 32>>   \* 'with a: '
    [] h = "def" -> <<100, 101, 102, 32, 110, 40, 112, 41, 58, 32>>   \* 'def n(p): '
    [] h = "class" -> <<99, 108, 97, 115, 115, 32, 110, 58, 32>>   \* 'class n: '
    [] h = "try" -> <<116, 114, 121, 58, 32>>   \* 'try: '
    [] h = "except" -> <<101, 120, 99, 101, 112, 116, 32, 97, 58, 32>>   \* 'except a: '
    [] h = "finally" -> <<102, 105, 110, 97, 108, 108, 121, 58, 32>>   \* 'finally: '
    [] h = "else" -> <<101, 108, 115, 101, 58, 32>>   \* 'else: '
    [] h = "elif" -> <<101, 108, 105, 102, 32, 97, 58, 32>>   \* 'elif a: '
    [] h = "forelse" -> <<101, 108, 115, 101, 58, 32>>   \* 'else: '
    [] h = "semilast" -> <<115, 32, 61, 32, 48, 59, 32, 115, 32, 61, 32, 49, 59, 32>>   \* 's = 0; s = 1; '
    [] h = "semi2" -> <<115, 32, 61, 32, 48, 59, 32>>   \* 's = 0; '
    [] h = "blocksemi" -> <<105, 102, 32, 97, 58, 32, 115, 32, 61, 32, 48, 59, 32>>   \* 'if a: s = 0; '
    [] h = "bslashsemi" -> <<32, 32, 32, 32>>   \* '    '
    [] h = "bslashblock" -> <<32, 32, 32, 32>>   \* '    '
    [] h = "nested" -> <<32, 32, 32, 32, 105, 102, 32, 97, 58, 32>>   \* '    if a: '
    [] h = "semifirst" -> <<>>   \* ''
    [] h = "semimid" -> <<115, 32, 61, 32, 48, 59, 32>>   \* 's = 0; '
    [] h = "blocksemifirst" -> <<105, 102, 32, 97, 58, 32>>   \* 'if a: '
    [] OTHER -> <<>>
(* text after the target on its own line *)
HostTrail(h) ==
  CASE h = "semifirst" -> <<59, 32, 115, 32, 61, 32, 49, 59, 32, 115, 32, 61, 32, 50>>   \* '; s = 1; s = 2'
    [] h = "semimid" -> <<59, 32, 115, 32, 61, 32, 50>>   \* '; s = 2'
    [] h = "blocksemifirst" -> <<59, 32, 115, 32, 61, 32, 49>>   \* '; s = 1'
    [] OTHER -> <<>>
(* lines after the target line *)
HostAfter(h) ==
  CASE h = "try" -> <<<<102, 105, 110, 97, 108, 108, 121, 58, 32, 115, 32, 61, 32, 48>>>>
    [] h = "elif" -> <<<<101, 108, 115, 101, 58, 32, 115, 32, 61, 32, 48>>>>
    [] OTHER -> <<>>

FirstLine == <<102, 105, 114, 115, 116, 32, 61, 32, 48>>
LastLine  == <<108, 97, 115, 116, 32, 61, 32, 49>>
HostDef   == <<100, 101, 102, 32, 104, 111, 115, 116, 40, 41, 58>>
HostLeadStmt == <<108, 101, 97, 100, 32, 61, 32, 48>>
BodyY     == <<121>>


Ind(d) == [i \in 1..(4 * d) |-> SPC]
IndAll(ls, d) == [i \in 1..Len(ls) |-> Ind(d) \o ls[i]]
HostLines(d) == IF d = 0 THEN <<>> ELSE <<HostDef, Ind(1) \o HostLeadStmt>>

Program(h, tk, d) ==
  <<FirstLine>> \o HostLines(d) \o IndAll(HostBefore(h), d)
    \o << Ind(d) \o HostLead(h) \o Target(tk) \o HostTrail(h) >> \o IndAll(HostAfter(h), d) \o <<LastLine, <<>> >>

TargetLine(h, d) == 1 + (IF d = 0 THEN 0 ELSE 2) + Len(HostBefore(h))
TargetCol(h, d)  == 4 * d + Len(HostLead(h))

(* rectangles in the target statement, offsets from its start                 *)
Offsets(tk) ==
  LET tl == Len(Target(tk))  ft == FirstTokLen(tk)
  IN {<<0, 0>>, <<0, ft>>, <<0, 1>>, <<0, tl - 1>>, <<0, tl>>, <<ft, ft>>, <<tl, tl>>}

Whole(tk, o) == o = <<0, Len(Target(tk))>>
(* replacement texts for a rectangle: compound prefixes everywhere, complete    *)
(* compound statements for the whole-statement rectangle, controls everywhere   *)
ReplsFor(tk, o) ==
  {[kind |-> "prefix", k |-> k, p |-> Prefix(k)] : k \in PrefixKinds}
  \cup (IF Whole(tk, o) THEN {[kind |-> "compound", k |-> k, p |-> Prefix(k) \o BodyY] : k \in PrefixKinds} ELSE {})
  \cup {[kind |-> "control", k |-> k, p |-> Control(k)] : k \in ControlKinds}

(* predicted invalid: a compound header lands at the start of an inline position *)
InlineHost(h) == HostLead(h) # <<>>      \* `semifirst` is the control: first on its line, ';' after it
MustBeInvalid(h, tk, o, r) ==
  /\ InlineHost(h)
  /\ \/ r.kind = "prefix" /\ o[1] = 0 /\ o[2] \in {0, Len(Target(tk))}     \* inserted before / instead of the statement
     \/ r.kind = "compound" /\ Whole(tk, o)

Row(h, tk, d, o, r) ==
  LET ln == TargetLine(h, d)  c0 == TargetCol(h, d)
  IN << Program(h, tk, d), <<ln, c0 + o[1], ln, c0 + o[2]>>, <<r.p>>, MustBeInvalid(h, tk, o, r),
        <<h, tk, d, o, r.kind, r.k>> >>

(* deterministic sample, taken on the case coordinates before any text is built *)
CaseOrd(h, tk, d, o) == 5 * Len(HostLead(h)) + 3 * Len(HostBefore(h)) + Len(HostTrail(h)) + 7 * Len(Target(tk)) + d + 2 * o[1] + o[2]
Cases   == {<<h, tk, d, o>> : h \in Hosts, tk \in TargetKinds, d \in Depths, o \in UNION {Offsets(t) : t \in TargetKinds}}
Kept    == {x \in Cases : x[4] \in Offsets(x[2]) /\ CaseOrd(x[1], x[2], x[3], x[4]) % SampleN = SampleK}
Rows    == UNION {{Row(c[1], c[2], c[3], c[4], r) : r \in ReplsFor(c[2], c[4])} : c \in Kept}

ASSUME JsonSerialize(IOEnv.OUT_FILE, [rows |-> Rows])
=============================================================================
